#!/usr/bin/env python3
"""tools/seed_batch.py <list file> [lanes]  — run tools/try_seed.py for every line "<dir> <seed id> <prop> [props…]"
of the list, `lanes` at a time (each in its own lane); prints one summary line per seed."""
import json
import os
import queue
import subprocess
import sys
import threading

VERIF = os.path.dirname(os.path.dirname(os.path.abspath(__file__)))
jobs = [l.split() for l in open(sys.argv[1]) if l.strip() and not l.startswith("#")]
lanes = int(sys.argv[2]) if len(sys.argv) > 2 else 5
q = queue.Queue()
for j in jobs:
    q.put(j)


def worker(lane):
    while True:
        try:
            j = q.get_nowait()
        except queue.Empty:
            return
        log = f"/tmp/lane{lane}/{j[1]}.log"
        os.makedirs(f"/tmp/lane{lane}", exist_ok=True)
        with open(log, "w") as fh:
            subprocess.run([os.path.join(VERIF, "tools", "try_seed.py")] + j + ["--lane", str(lane)], stdout=fh, stderr=subprocess.STDOUT, cwd=VERIF)
        try:
            m = json.load(open(os.path.join(VERIF, "seeded", j[1], "meta.json")))
            res = {p: (r["exit"], (r["violation_lines"] or [""])[0][-60:]) for p, r in m.get("check_results", {}).items()}
            print(j[1], "confirmed=", m.get("confirmed"), res, flush=True)
        except Exception as e:  # noqa
            print(j[1], "no meta:", e, flush=True)


base = int(os.environ.get("LANE_BASE", "0"))
ts = [threading.Thread(target=worker, args=(base + i + 1,)) for i in range(lanes)]
for t in ts:
    t.start()
for t in ts:
    t.join()
