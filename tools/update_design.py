#!/usr/bin/env python3
"""Refresh the generated tables of DESIGN.md (between <!-- BEGIN:x --> / <!-- END:x --> markers)."""
import os
import re
import sys

sys.path.insert(0, os.path.dirname(os.path.abspath(__file__)))
import gen_design_tables as G

ROOT = os.path.dirname(os.path.dirname(os.path.abspath(__file__)))
p = os.path.join(ROOT, "DESIGN.md")
s = open(p).read()
for name, fn in (("findings", G.findings), ("seeds", G.seeds), ("theorems", G.theorems)):
    pat = re.compile(r"(<!-- BEGIN:%s -->\n).*?(<!-- END:%s -->)" % (name, name), re.S)
    if pat.search(s):
        s = pat.sub(lambda m: m.group(1) + fn() + "\n" + m.group(2), s)
open(p, "w").write(s)
print("DESIGN.md tables refreshed")
