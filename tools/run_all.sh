#!/bin/bash
# tools/run_all.sh [quick|thorough] [seed]  — run every registered check on the current tree, 4 at a time
cd "$(dirname "$0")/.."
tier=${1:-quick}; seed=${2:-0}
mkdir -p /tmp/runall
ids=$(python3 -c "import json; print(' '.join(c['property_id'] for c in json.load(open('MANIFEST.json'))['checks']))")
(cd lean && lake build >/dev/null 2>&1)
printf "%s\n" $ids | xargs -P 4 -I{} sh -c "VERIF_SEED=$seed ./check {} --tier $tier > /tmp/runall/{}.log 2>&1; echo {} exit \$? \$(tail -1 /tmp/runall/{}.log | cut -c1-150)"
