#!/usr/bin/env python3
"""Confirm a seeded change and run checks against it.

usage: tools/try_seed.py <change dir with patch.diff, demo.py> <seed id> <property> [more properties to run …]

1. scratch worktree of /repo: apply patch, run the repo's test suite, run demo.py (must fail);
   demo.py on the unchanged tree must pass.  Worktree removed afterwards.
2. apply the patch to /repo, run ./check <prop> --tier quick for each listed property, undo.
3. store patch, demo and meta.json under /verif/seeded/<seed id>/.
"""
import json
import os
import shutil
import subprocess
import sys
import time

VERIF = os.path.dirname(os.path.dirname(os.path.abspath(__file__)))
REPO = "/repo"


def sh(cmd, cwd=None, env=None, timeout=3600):
    e = dict(os.environ)
    if env:
        e.update(env)
    p = subprocess.run(cmd, shell=True, cwd=cwd, env=e, stdout=subprocess.PIPE, stderr=subprocess.STDOUT, text=True, timeout=timeout)
    return p.returncode, p.stdout


def main():
    src, sid, prop = sys.argv[1], sys.argv[2], sys.argv[3]
    props = [prop] + sys.argv[4:]
    patch = os.path.join(src, "patch.diff")
    demo = os.path.join(src, "demo.py")
    wt = f"/tmp/seedwt-{os.getpid()}"
    meta = {"id": sid, "breaks_property": prop, "source": src, "checked_at": time.strftime("%Y-%m-%d %H:%M:%S")}
    sh(f"git -C {REPO} worktree add --detach {wt} HEAD -q")
    try:
        rc, out = sh(f"PYTHONPATH={wt} /venv/bin/python {demo}", cwd=wt, timeout=900)
        meta["demo_unchanged_rc"] = rc
        rc, out = sh(f"git apply {patch}", cwd=wt)
        meta["patch_applies"] = rc == 0
        if rc != 0:
            print("patch does not apply:", out)
        rc, out = sh(f"PYTHONPATH={wt} /venv/bin/python -m pytest -q -p no:cacheprovider --timeout=900 -n 8 2>&1 | tail -3", cwd=wt)
        meta["tests_with_change"] = out.strip().split("\n")[-1]
        rc, out = sh(f"PYTHONPATH={wt} /venv/bin/python {demo}", cwd=wt, timeout=900)
        meta["demo_changed_rc"] = rc
        meta["demo_changed_tail"] = out[-400:]
    finally:
        sh(f"git -C {REPO} worktree remove --force {wt}")
    meta["confirmed"] = bool(meta.get("patch_applies") and meta["demo_unchanged_rc"] == 0 and meta["demo_changed_rc"] != 0
                             and "passed" in meta["tests_with_change"] and "failed" not in meta["tests_with_change"])
    print(json.dumps(meta, indent=1))
    results = {}
    if meta["confirmed"] and "--no-check" not in sys.argv:
        rc, out = sh(f"git -C {REPO} status --short")
        assert out.strip() == "", "repo not clean: " + out
        rc, out = sh(f"git -C {REPO} apply {patch}")
        try:
            for p in [x for x in props if not x.startswith("--")]:
                t0 = time.time()
                rc, out = sh(f"./check {p} --tier quick", cwd=VERIF, timeout=3600)
                viol = [l for l in out.split("\n") if l.startswith("VIOLATION")]
                results[p] = {"exit": rc, "violation_lines": viol, "wall_s": round(time.time() - t0, 1),
                              "tail": out.strip().split("\n")[-1][:300]}
                print(p, "exit", rc, viol[:1])
        finally:
            sh(f"git -C {REPO} checkout -- .")
            # the translators ran against the changed tree: regenerate the generated Lean files from the clean one
            sh("/venv/bin/python -m harness.translate.all", cwd=VERIF)
            # evidence files were rewritten against the changed tree: regenerate on the clean tree later
    meta["check_results"] = results
    dst = os.path.join(VERIF, "seeded", sid)
    os.makedirs(dst, exist_ok=True)
    shutil.copyfile(patch, os.path.join(dst, "patch.diff"))
    shutil.copyfile(demo, os.path.join(dst, "demo.py"))
    readme = os.path.join(src, "README.txt")
    if os.path.exists(readme):
        meta["needs_to_manifest"] = open(readme).read()[:1500]
    json.dump(meta, open(os.path.join(dst, "meta.json"), "w"), indent=1)


if __name__ == "__main__":
    main()
