#!/usr/bin/env python3
"""Confirm a seeded change and run checks against it.

usage: tools/try_seed.py <change dir with patch.diff, demo.py> <seed id> <property> [more properties to run …]
                         [--lane N] [--no-check] [--tier quick|thorough]

1. scratch worktree of /repo: run demo.py (must pass), apply patch, run the repo's test suite (must pass), run
   demo.py (must fail).
2. the checks run in a *lane*: a scratch copy of /verif (/tmp/lane<N>/verif, rsync'ed from /verif, build output
   included) against the patched worktree (/tmp/lane<N>/repo) through PYTHONPATH / VERIF_REPO, which is what
   `git -C /repo apply` + run + `git -C /repo checkout -- .` does, without disturbing anything else that reads /repo
   or /verif meanwhile (several lanes can run side by side).  `--in-repo` does it literally in /repo instead.
3. store patch, demo and meta.json under /verif/seeded/<seed id>/; worktree removed.
"""
import json
import os
import shutil
import subprocess
import sys
import time

VERIF = os.path.dirname(os.path.dirname(os.path.abspath(__file__)))
REPO = "/repo"


def sh(cmd, cwd=None, env=None, timeout=3600):
    e = dict(os.environ)
    if env:
        e.update(env)
    p = subprocess.run(cmd, shell=True, cwd=cwd, env=e, stdout=subprocess.PIPE, stderr=subprocess.STDOUT, text=True, timeout=timeout)
    return p.returncode, p.stdout


def main():
    args = [a for a in sys.argv[1:]]
    lane = "0"
    tier = "quick"
    if "--lane" in args:
        i = args.index("--lane")
        lane = args[i + 1]
        del args[i:i + 2]
    if "--tier" in args:
        i = args.index("--tier")
        tier = args[i + 1]
        del args[i:i + 2]
    flags = [a for a in args if a.startswith("--")]
    args = [a for a in args if not a.startswith("--")]
    src, sid, prop = args[0], args[1], args[2]
    props = [prop] + args[3:]
    patch = os.path.abspath(os.path.join(src, "patch.diff"))
    demo = os.path.abspath(os.path.join(src, "demo.py"))
    lane_dir = f"/tmp/lane{lane}"
    wt = f"{lane_dir}/repo"
    os.makedirs(lane_dir, exist_ok=True)
    meta = {"id": sid, "breaks_property": prop, "source": src, "checked_at": time.strftime("%Y-%m-%d %H:%M:%S")}
    sh(f"git -C {REPO} worktree remove --force {wt}")
    # (SEED_BASE: the commit the change was written against, when a later repair touched the same lines)
    sh(f"git -C {REPO} worktree add --detach {wt} {os.environ.get('SEED_BASE', 'HEAD')} -q")
    if os.environ.get("SEED_BASE"):
        meta["base_commit"] = os.environ["SEED_BASE"]
    results = {}
    try:
        rc, out = sh(f"PYTHONPATH={wt} /venv/bin/python {demo}", cwd=wt, timeout=1800)
        meta["demo_unchanged_rc"] = rc
        rc, out = sh(f"git apply {patch}", cwd=wt)
        meta["patch_applies"] = rc == 0
        if rc != 0:
            print("patch does not apply:", out)
        rc, out = sh(f"PYTHONPATH={wt} /venv/bin/python -m pytest -q -p no:cacheprovider --timeout=900 -n 4 2>&1 | tail -3", cwd=wt)
        meta["tests_with_change"] = out.strip().split("\n")[-1]
        rc, out = sh(f"PYTHONPATH={wt} /venv/bin/python {demo}", cwd=wt, timeout=1800)
        meta["demo_changed_rc"] = rc
        meta["demo_changed_tail"] = out[-400:]
        meta["confirmed"] = bool(meta.get("patch_applies") and meta["demo_unchanged_rc"] == 0 and meta["demo_changed_rc"] != 0
                                 and "passed" in meta["tests_with_change"] and "failed" not in meta["tests_with_change"])
        print(json.dumps(meta, indent=1))
        if meta["confirmed"] and "--no-check" not in flags:
            if "--in-repo" in flags:
                rc, out = sh(f"git -C {REPO} status --short")
                assert out.strip() == "", "repo not clean: " + out
                sh(f"git -C {REPO} apply {patch}")
                vdir, env = VERIF, {}
            else:
                vdir = f"{lane_dir}/verif"
                os.makedirs(vdir, exist_ok=True)
                sh(f"rsync -a --delete --exclude .git --exclude replays --exclude evidence {VERIF}/ {vdir}/")
                os.makedirs(f"{vdir}/evidence", exist_ok=True)
                env = {"PYTHONPATH": wt, "VERIF_REPO": wt}
            try:
                for p in props:
                    t0 = time.time()
                    rc, out = sh(f"./check {p} --tier {tier}", cwd=vdir, env=env, timeout=7200)
                    viol = [l for l in out.split("\n") if l.startswith("VIOLATION")]
                    results[p] = {"exit": rc, "violation_lines": viol, "wall_s": round(time.time() - t0, 1),
                                  "tail": out.strip().split("\n")[-1][:300]}
                    print(p, "exit", rc, viol[:1])
                    if viol:
                        # keep the first replay file next to the seed record (small ones only)
                        rp = viol[0].split("replay=")[1].split()[0]
                        rp = os.path.join(vdir, rp)
                        if os.path.exists(rp) and os.path.getsize(rp) < 200000:
                            os.makedirs(os.path.join(VERIF, "seeded", sid), exist_ok=True)
                            shutil.copyfile(rp, os.path.join(VERIF, "seeded", sid, f"replay-{p}.json"))
            finally:
                if "--in-repo" in flags:
                    sh(f"git -C {REPO} checkout -- .")
                    sh("/venv/bin/python -m harness.translate.all", cwd=VERIF)
    finally:
        sh(f"git -C {REPO} worktree remove --force {wt}")
    meta["check_results"] = results
    meta["ran_as"] = "in /repo" if "--in-repo" in flags else "lane (scratch copy of /verif against a patched worktree of /repo)"
    dst = os.path.join(VERIF, "seeded", sid)
    os.makedirs(dst, exist_ok=True)
    shutil.copyfile(patch, os.path.join(dst, "patch.diff"))
    shutil.copyfile(demo, os.path.join(dst, "demo.py"))
    readme = os.path.join(src, "README.txt")
    if os.path.exists(readme):
        meta["needs_to_manifest"] = open(readme).read()[:1500]
    json.dump(meta, open(os.path.join(dst, "meta.json"), "w"), indent=1)


if __name__ == "__main__":
    main()
