#!/usr/bin/env python3
"""Prints the markdown tables of DESIGN.md that are derived from data: findings ledger, seeded changes, theorem counts."""
import glob
import json
import os
import re

ROOT = os.path.dirname(os.path.dirname(os.path.abspath(__file__)))


def findings():
    kf = json.load(open(os.path.join(ROOT, "known_findings.json")))
    out = ["| id | property | status | commit | what |", "|---|---|---|---|---|"]
    for e in kf:
        what = e["what"]
        what = re.sub(r"^fixed: property=\S+ \S+ ", "", what)
        out.append(f"| {e['id']} | {e['property']} | {e['status']} | {e.get('commit') or ''} | {what[:230].replace('|', '/')} |")
    return "\n".join(out)


def seeds():
    out = ["| seeded change | breaks | needs | caught by (quick tier) | not caught by |", "|---|---|---|---|---|"]
    for f in sorted(glob.glob(os.path.join(ROOT, "seeded", "*", "meta.json"))):
        m = json.load(open(f))
        caught, missed = [], []
        for k, v in m.get("check_results", {}).items():
            if v["exit"] == 1:
                caught.append(k + (" (no-failing-input-found)" if any("no-failing" in l for l in v["violation_lines"]) else ""))
            else:
                missed.append(k)
        need = (m.get("needs_to_manifest") or "").replace("\n", " ")
        mm = re.search(r"(?:needs|Needs|manifest)[^.]*\.", need)
        need = (mm.group(0) if mm else need[:160])[:200]
        out.append(f"| {m['id']} | {m['breaks_property']} | {need.replace('|', '/')} | {', '.join(caught)} | {', '.join(missed)} |")
    return "\n".join(out)


def theorems():
    out = ["| module | theorems |", "|---|---|"]
    for f in sorted(glob.glob(os.path.join(ROOT, "lean", "SqliteDissect", "Properties", "*.lean"))):
        src = open(f).read()
        names = re.findall(r"^theorem (\S+)", src, re.M)
        out.append(f"| Properties/{os.path.basename(f)} | {len(names)}: {', '.join(names)} |")
    return "\n".join(out)


if __name__ == "__main__":
    import sys
    which = sys.argv[1] if len(sys.argv) > 1 else "all"
    if which in ("findings", "all"):
        print(findings())
    if which in ("seeds", "all"):
        print(seeds())
    if which in ("theorems", "all"):
        print(theorems())
