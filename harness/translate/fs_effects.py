"""Translator 2a: file-system call sites of sqlite_dissect -> lean/SqliteDissect/Generated/FsEffects.lean

Every module under <repo>/sqlite_dissect (tests excluded) is parsed with `ast`.  Every call that
can touch the file system is listed with

  * its *mode*  (read / write / create / delete / stat),
  * its *api*   (open, stat, mkdir, rename, remove, sqliteConnect, logFile, workbookSave, walk,
                 handleWrite, configFile, other) and the literal open modes that can reach it,
  * the *provenance* of its path argument: which of the user-named locations the expression can be
    derived from.  The provenance is computed by a flow-insensitive taint analysis over the
    assignments of the enclosing function, the attributes of the enclosing class
    (`self._x = …`), and — through parameters and return values — its callers (whole package, to a
    fixpoint).

Provenance labels (the Lean `Prov` enum):

  EVIDENCE  sqlite_path / --wal / --rollback-journal and everything derived from them by string
            operations, `join`, `walk`, suffixing …
  OUTPUT    --directory / --file-prefix / --tables / --exempted-tables, and *bare names* used to build
            output file names: `os.path.basename(x)` of anything (the NAME rule: the result has no
            directory part, so it cannot point into the directory x lives in; an EVIDENCE label is
            re-labelled OUTPUT by `basename`).  Names read from the *content* of a file (table names)
            carry no path label at all and therefore never add to a provenance set.
  LOG       --log-file            CONFIG  --config
  TEMP      the system temporary directory (tempfile.gettempdir()): openpyxl's write-only worksheets spool
            their rows into a tempfile.mkstemp file on the first `append`; `Workbook.save` reads and removes
            them (and creates one itself for a workbook without sheets) — the only place where the package writes outside the user-named locations
  LITERAL   only literals / module constants (listed only when nothing else contributes)
  OTHER     anything the analysis cannot classify (an option that is not a path option, a parameter of
            a library entry point that is neither reached from the CLI nor listed in API_PARAM_LABELS,
            a call into an FS-capable module this translator does not know).  The C04 theorems fail on
            OTHER for every mutating effect, so an unclassified new call site stops the proof stage.

Trusted classifications in this file (small, reviewed by hand): FS_* tables (which callables touch the
file system and how), DEST_LABEL (option dest -> label), API_PARAM_LABELS (parameter names of library
entry points that have no caller inside the package), the NAME rule, and "the result of open() is a
handle; what is read through it is content, not a path".  Completeness of the table (no FS call
missed) is checked at run time by the audit correspondence of C04 (harness/props/c04.py).

The output is deterministic: records sorted by (file, line, column, role); no timestamps."""
import ast
import json
import os

from ..leanio.build import LEAN

REPO = os.environ.get("VERIF_REPO", "/repo")
PKG = "sqlite_dissect"
OUT = os.path.join(LEAN, "SqliteDissect", "Generated", "FsEffects.lean")

LABELS = ["EVIDENCE", "OUTPUT", "LOG", "CONFIG", "TEMP", "LITERAL", "OTHER"]
SHEET = "SHEET"  # marker: "this value is an openpyxl write-only worksheet" (its rows are spooled to a temp file)
ARGS = "ARGS"  # marker: "this value is the parsed-arguments object"

DEST_LABEL = {
    "sqlite_path": "EVIDENCE", "wal": "EVIDENCE", "rollback_journal": "EVIDENCE",
    "directory": "OUTPUT", "file_prefix": "OUTPUT", "tables": "OUTPUT", "exempted_tables": "OUTPUT",
    "log_file": "LOG", "config": "CONFIG",
}
# path parameters of library entry points (functions that have no caller inside the package), classified
# by hand: (qualified function name, parameter) -> label.  An entry point that is not listed gets no label,
# so a path built from its parameters alone is OTHER.
API_PARAM_LABELS = {
    ("create_database", "file_identifier"): "EVIDENCE",
    ("create_write_ahead_log", "file_identifier"): "EVIDENCE",
    ("WriteAheadLogIndex.__init__", "file_name"): "EVIDENCE",
    ("export_table_or_index_version_history_to_csv", "csv_file_name"): "OUTPUT",
    ("export_table_or_index_version_history_to_csv", "export_directory"): "OUTPUT",
    ("export_version_history_to_csv", "csv_file_name"): "OUTPUT",
    ("export_version_history_to_csv", "export_directory"): "OUTPUT",
    ("export_table_or_index_version_history_to_sqlite", "export_directory"): "OUTPUT",
    ("export_table_or_index_version_history_to_sqlite", "sqlite_file_name"): "OUTPUT",
    ("export_version_history_to_sqlite", "export_directory"): "OUTPUT",
    ("export_version_history_to_sqlite", "sqlite_file_name"): "OUTPUT",
    ("VersionCsvExporter.write_version", "csv_file_name"): "OUTPUT",
    ("VersionCsvExporter.write_version", "export_directory"): "OUTPUT",
}

STAT_CALLS = {
    "os.path.exists", "os.path.lexists", "os.path.isfile", "os.path.isdir", "os.path.islink", "os.path.ismount",
    "os.path.getsize", "os.path.getmtime", "os.path.getatime", "os.path.getctime", "os.path.samefile",
    "os.path.realpath", "os.stat", "os.lstat", "os.fstat", "os.access", "os.readlink", "os.statvfs",
}
WALK_CALLS = {"os.listdir", "os.scandir", "os.walk", "os.fwalk", "glob.glob", "glob.iglob"}
CREATE_CALLS = {"os.makedirs": "mkdir", "os.mkdir": "mkdir", "os.mkfifo": "other", "os.mknod": "other"}
DELETE_CALLS = {"os.remove", "os.unlink", "os.rmdir", "os.removedirs", "shutil.rmtree"}
WRITE_CALLS = {"os.truncate", "os.chmod", "os.chown", "os.lchown", "os.utime", "os.chflags", "os.setxattr",
               "os.removexattr"}
RENAME_CALLS = {"os.rename", "os.replace", "os.renames", "shutil.move"}          # (delete arg0, create arg1)
COPY_CALLS = {"shutil.copy", "shutil.copy2", "shutil.copyfile", "shutil.copytree", "shutil.copymode",
              "shutil.copystat", "os.link"}                                       # (read arg0, create arg1)
OPEN_CALLS = {"open", "io.open", "codecs.open", "builtins.open"}
LOGFILE_CALLS = {"logging.FileHandler", "logging.handlers.RotatingFileHandler",
                 "logging.handlers.TimedRotatingFileHandler", "logging.handlers.WatchedFileHandler"}
HANDLE_WRITERS = {"csv.writer": 0, "csv.DictWriter": 0, "json.dump": 1, "pickle.dump": 1}
# modules whose every *call* is suspect unless listed above or in PURE
FS_MODULES = ("os", "shutil", "tempfile", "pathlib", "subprocess", "glob", "fileinput", "mmap", "zipfile",
              "tarfile", "gzip", "bz2", "lzma", "dbm", "shelve", "sqlite3", "io", "codecs")
PURE = {
    "os.path.join", "os.path.normpath", "os.path.abspath", "os.path.basename", "os.path.dirname",
    "os.path.split", "os.path.splitext", "os.path.normcase", "os.path.isabs", "os.path.commonprefix",
    "os.path.relpath", "os.path.expanduser", "os.path.expandvars", "os.getcwd", "os.getpid", "os.getenv",
    "os.fspath", "os.fsencode", "os.fsdecode", "os.cpu_count", "os.urandom", "os.strerror",
    "io.BytesIO", "io.StringIO", "codecs.decode", "codecs.encode", "codecs.lookup",
}
NON_STRING_BUILTINS = {"len", "int", "float", "bool", "abs", "min", "max", "sum", "round", "range", "isinstance",
                       "issubclass", "hash", "id", "ord", "divmod", "pow", "callable", "hasattr", "type", "any", "all"}
NON_STRING_RESULTS = {"struct.unpack", "struct.pack", "struct.calcsize", "hashlib.md5", "hashlib.sha1",
                      "hashlib.sha256", "hashlib.sha512", "binascii.hexlify", "binascii.unhexlify", "time.time",
                      "uuid.uuid4", "re.compile", "re.sub", "re.match", "re.search", "re.findall", "re.finditer",
                      "logging.getLogger", "datetime.datetime.now", "datetime.datetime.fromtimestamp"}
CONTENT_METHODS = {"read", "readline", "readlines", "read_data", "tell", "unpack"}
MUTATORS = {"append", "extend", "add", "insert", "update", "setdefault", "appendleft"}


# ------------------------------------------------------------------------------------------------
class Fn:
    def __init__(self, module, qual, node, cls, static):
        self.module, self.qual, self.node, self.cls, self.static = module, qual, node, cls, static
        a = node.args if node is not None else None
        self.params = [x.arg for x in (a.posonlyargs + a.args)] if a else []
        self.kwonly = [x.arg for x in a.kwonlyargs] if a else []
        self.vararg = a.vararg.arg if a and a.vararg else None
        self.kwarg = a.kwarg.arg if a and a.kwarg else None
        self.defaults = {}
        if a:
            pos = a.posonlyargs + a.args
            for p, d in zip(pos[len(pos) - len(a.defaults):], a.defaults):
                self.defaults[p.arg] = d
            for p, d in zip(a.kwonlyargs, a.kw_defaults):
                if d is not None:
                    self.defaults[p.arg] = d
        self.self_name = None
        if cls and not static and self.params:
            self.self_name = self.params[0]
        self.key = (module, qual)
        self.has_caller = False


class Module:
    def __init__(self, name, relpath, tree):
        self.name, self.relpath, self.tree = name, relpath, tree
        self.imports = {}     # local name -> dotted qualified name
        self.fns = {}         # qualname -> Fn
        self.classes = {}     # class name -> ClassDef
        self.globals = set()  # module-level assigned names


class Analysis:
    def __init__(self, repo=None):
        self.repo = repo or REPO
        self.modules = {}
        self.param = {}      # (fnkey, pname) -> set(labels)
        self.ret = {}        # fnkey -> set
        self.attr = {}       # (class, attr) -> set
        self.env = {}        # fnkey -> {var: set}
        self.methods = {}    # method name -> [Fn]
        self.changed = False
        self.why = {}        # (key, label) -> (function, line) that first introduced it (debugging aid)
        self.cur = None
        self._load()

    # ---- loading -------------------------------------------------------------------------------
    def _load(self):
        base = os.path.join(self.repo, PKG)
        for root, dirs, files in os.walk(base):
            dirs[:] = sorted(d for d in dirs if d != "tests" and d != "__pycache__")
            for f in sorted(files):
                if not f.endswith(".py"):
                    continue
                p = os.path.join(root, f)
                rel = os.path.relpath(p, self.repo)
                mod = rel[:-3].replace(os.sep, ".")
                if mod.endswith(".__init__"):
                    mod = mod[: -len(".__init__")]
                tree = ast.parse(open(p, encoding="utf-8").read(), filename=rel)
                m = Module(mod, rel, tree)
                self.modules[mod] = m
                self._index(m)
        for m in self.modules.values():
            for fn in m.fns.values():
                if fn.cls:
                    self.methods.setdefault(fn.qual.split(".")[-1], []).append(fn)

    def _index(self, m):
        # imports anywhere in the module (also inside functions) bind names module-wide: over-approximation
        for st in ast.walk(m.tree):
            if isinstance(st, ast.Import):
                for a in st.names:
                    m.imports[a.asname or a.name.split(".")[0]] = a.name if a.asname else a.name.split(".")[0]
            elif isinstance(st, ast.ImportFrom):
                src = st.module or ""
                if st.level:
                    parts = m.name.split(".")
                    src = ".".join(parts[: len(parts) - st.level] + ([src] if src else []))
                for a in st.names:
                    m.imports[a.asname or a.name] = f"{src}.{a.name}"
        for st in m.tree.body:
            if isinstance(st, (ast.FunctionDef, ast.AsyncFunctionDef)):
                m.fns[st.name] = Fn(m.name, st.name, st, None, True)
            elif isinstance(st, ast.ClassDef):
                m.classes[st.name] = st
                for b in st.body:
                    if isinstance(b, (ast.FunctionDef, ast.AsyncFunctionDef)):
                        static = any(isinstance(d, ast.Name) and d.id == "staticmethod" for d in b.decorator_list)
                        m.fns[f"{st.name}.{b.name}"] = Fn(m.name, f"{st.name}.{b.name}", b, st.name, static)
            elif isinstance(st, (ast.Assign, ast.AnnAssign)):
                for t in (st.targets if isinstance(st, ast.Assign) else [st.target]):
                    if isinstance(t, ast.Name):
                        m.globals.add(t.id)
        # module-level code as a pseudo function
        mod_fn = Fn(m.name, "<module>", None, None, True)
        mod_fn.body = [st for st in m.tree.body
                       if not isinstance(st, (ast.FunctionDef, ast.AsyncFunctionDef, ast.ClassDef, ast.Import,
                                              ast.ImportFrom))]
        m.fns["<module>"] = mod_fn

    # ---- name resolution -----------------------------------------------------------------------
    def dotted(self, m, node):
        """qualified dotted name of an expression that names a module member, or None"""
        parts = []
        while isinstance(node, ast.Attribute):
            parts.append(node.attr)
            node = node.value
        if not isinstance(node, ast.Name):
            return None
        root = node.id
        if root in m.imports:
            q = m.imports[root]
        elif root in m.fns or root in m.classes:
            q = f"{m.name}.{root}"
        elif not parts and root in ("open",):
            q = root
        else:
            return None
        q = ".".join([q] + parts[::-1])
        # `from os import path` -> os.path ; posixpath is os.path
        if q.startswith("posixpath.") or q.startswith("ntpath.") or q.startswith("genericpath."):
            q = "os.path." + q.split(".", 1)[1]
        return q

    def internal(self, q):
        """qualified name -> Fn (function, Class -> __init__, Class.method) or None; second value: is constructor"""
        if not q or not q.startswith(PKG + "."):
            return None, False
        parts = q.split(".")
        for i in range(len(parts) - 1, 0, -1):
            mod = ".".join(parts[:i])
            if mod in self.modules:
                m = self.modules[mod]
                rest = parts[i:]
                if len(rest) == 1:
                    if rest[0] in m.classes:
                        return m.fns.get(f"{rest[0]}.__init__"), True
                    if rest[0] in m.fns:
                        return m.fns[rest[0]], False
                    # re-exported name
                    if rest[0] in m.imports:
                        return self.internal(m.imports[rest[0]])
                elif len(rest) == 2 and f"{rest[0]}.{rest[1]}" in m.fns:
                    return m.fns[f"{rest[0]}.{rest[1]}"], False
                return None, (len(rest) == 1 and rest[0] in m.classes)
        return None, False

    def _bases(self, cls):
        out, todo = set(), [cls]
        while todo:
            c = todo.pop()
            for m in self.modules.values():
                if c in m.classes:
                    for b in m.classes[c].bases:
                        n = b.id if isinstance(b, ast.Name) else (b.attr if isinstance(b, ast.Attribute) else None)
                        if n and n not in out:
                            out.add(n)
                            todo.append(n)
        return out

    # ---- fixpoint helpers ----------------------------------------------------------------------
    def _add(self, table, key, labels):
        if not labels:
            return
        cur = table.setdefault(key, set())
        if not labels <= cur:
            for l in labels - cur:
                self.why.setdefault((key, l), self.cur)
            cur |= labels
            self.changed = True

    def attr_by_name(self, name):
        out = set()
        for (c, a), v in self.attr.items():
            if a == name:
                out |= v
        return out

    # ---- expression labels ---------------------------------------------------------------------
    def L(self, e, fn, m):
        if e is None:
            return set()
        env = self.env.setdefault(fn.key, {})
        if isinstance(e, ast.Constant):
            return {"LITERAL"} if isinstance(e.value, (str, bytes)) and e.value != "" else set()
        if isinstance(e, ast.Name):
            out = set(env.get(e.id, ()))
            if e.id in fn.params or e.id in fn.kwonly or e.id in (fn.vararg, fn.kwarg):
                out |= self.param.get((fn.key, e.id), set())
            elif e.id not in env and (e.id in m.imports or e.id in m.globals):
                out.add("LITERAL")
            return out
        if isinstance(e, ast.Attribute):
            if isinstance(e.value, ast.Name) and fn.self_name and e.value.id == fn.self_name:
                if (fn.cls, e.attr) in self.attr:
                    return set(self.attr[(fn.cls, e.attr)])
                return self.attr_by_name(e.attr)
            if self.dotted(m, e) is not None:
                return {"LITERAL"}
            base = self.L(e.value, fn, m)
            if ARGS in base:
                return {DEST_LABEL.get(e.attr, "OTHER")}
            return self.attr_by_name(e.attr) | base
        if isinstance(e, ast.Subscript):
            return self.L(e.value, fn, m)
        if isinstance(e, ast.BinOp):
            if not isinstance(e.op, (ast.Add, ast.Mod)):
                return set()     # arithmetic: the result is a number, never a path
            return self.L(e.left, fn, m) | self.L(e.right, fn, m)
        if isinstance(e, ast.BoolOp):
            out = set()
            for v in e.values:
                out |= self.L(v, fn, m)
            return out
        if isinstance(e, ast.IfExp):
            return self.L(e.body, fn, m) | self.L(e.orelse, fn, m)
        if isinstance(e, (ast.Compare,)):
            return set()
        if isinstance(e, ast.UnaryOp):
            return set() if isinstance(e.op, ast.Not) else self.L(e.operand, fn, m)
        if isinstance(e, ast.JoinedStr):
            out = {"LITERAL"}
            for v in e.values:
                if isinstance(v, ast.FormattedValue):
                    out |= self.L(v.value, fn, m)
            return out
        if isinstance(e, ast.FormattedValue):
            return self.L(e.value, fn, m)
        if isinstance(e, (ast.List, ast.Tuple, ast.Set)):
            out = set()
            for v in e.elts:
                out |= self.L(v, fn, m)
            return out
        if isinstance(e, ast.Dict):
            out = set()
            for v in e.values:
                out |= self.L(v, fn, m)
            return out
        if isinstance(e, (ast.ListComp, ast.SetComp, ast.GeneratorExp)):
            self._bind_comprehensions(e.generators, fn, m)
            return self.L(e.elt, fn, m)
        if isinstance(e, ast.DictComp):
            self._bind_comprehensions(e.generators, fn, m)
            return self.L(e.value, fn, m)
        if isinstance(e, ast.Starred):
            return self.L(e.value, fn, m)
        if isinstance(e, ast.Lambda):
            return self.L(e.body, fn, m)
        if isinstance(e, ast.NamedExpr):
            v = self.L(e.value, fn, m)
            self._assign(e.target, v, fn, m)
            return v
        if isinstance(e, ast.Call):
            return self.call(e, fn, m)
        return set()

    def _bind_comprehensions(self, gens, fn, m):
        for g in gens:
            self._assign(g.target, self.L(g.iter, fn, m), fn, m)

    def _bind(self, callee, call, fn, m, skip_self):
        """actual -> formal labels"""
        callee.has_caller = True
        params = callee.params[1:] if (skip_self and callee.self_name) else callee.params
        used = set()
        for i, a in enumerate(call.args):
            lab = self.L(a.value if isinstance(a, ast.Starred) else a, fn, m)
            if isinstance(a, ast.Starred):
                for p in params:
                    self._add(self.param, (callee.key, p), lab)
                continue
            if i < len(params):
                self._add(self.param, (callee.key, params[i]), lab)
                used.add(params[i])
            elif callee.vararg:
                self._add(self.param, (callee.key, callee.vararg), lab)
        for kw in call.keywords:
            lab = self.L(kw.value, fn, m)
            if kw.arg is None:
                for p in params + callee.kwonly:
                    self._add(self.param, (callee.key, p), lab)
            elif kw.arg in params or kw.arg in callee.kwonly:
                self._add(self.param, (callee.key, kw.arg), lab)
                used.add(kw.arg)
            elif callee.kwarg:
                self._add(self.param, (callee.key, callee.kwarg), lab)
        for p, d in callee.defaults.items():
            if p not in used:
                self._add(self.param, (callee.key, p), self.L(d, callee, self.modules[callee.module]))

    def call(self, e, fn, m):
        q = self.dotted(m, e.func)
        argl = set()
        for a in e.args:
            argl |= self.L(a.value if isinstance(a, ast.Starred) else a, fn, m)
        for kw in e.keywords:
            argl |= self.L(kw.value, fn, m)
        if q is not None:
            callee, is_ctor = self.internal(q)
            if callee is not None:
                self._bind(callee, e, fn, m, skip_self=is_ctor or (callee.cls is not None and not callee.static))
                if is_ctor:
                    return set()
                return set(self.ret.get(callee.key, set()))
            if is_ctor:
                return set()   # internal class without __init__
            if q in OPEN_CALLS:
                p0 = self._arg(e, 0, "file")
                return {"H:" + l for l in self.L(p0, fn, m) if l != ARGS and not l.startswith("H:")}
            if q in STAT_CALLS or q in NON_STRING_RESULTS:
                return set()
            if q == "os.path.basename":
                return {("OUTPUT" if l == "EVIDENCE" else l) for l in argl}
            return argl - {ARGS}
        # method call on an object
        if isinstance(e.func, ast.Attribute):
            name = e.func.attr
            recv = self.L(e.func.value, fn, m)
            cands = self.methods.get(name, [])
            if isinstance(e.func.value, ast.Call) and isinstance(e.func.value.func, ast.Name) \
                    and e.func.value.func.id == "super" and fn.cls:
                # super().m(...): only the methods of the (transitive) base classes, resolved by class name
                bases = self._bases(fn.cls)
                cands = [c for c in cands if c.cls in bases]
            elif name.startswith("__") and name.endswith("__"):
                cands = []
            if isinstance(e.func.value, ast.Name) and fn.self_name and e.func.value.id == fn.self_name and fn.cls:
                own = [c for c in cands if c.cls == fn.cls and c.module == fn.module]
                cands = own or cands
            out = set()
            for c in cands:
                self._bind(c, e, fn, m, skip_self=True)
                out |= self.ret.get(c.key, set())
            if name in CONTENT_METHODS:
                return set()
            if name == "create_sheet":
                return {SHEET}
            if not cands:
                out |= (recv | argl) - {ARGS}
            return out
        # call of a local callable / unknown builtin
        if isinstance(e.func, ast.Name) and e.func.id in NON_STRING_BUILTINS:
            return set()
        return argl - {ARGS}

    # ---- statements ----------------------------------------------------------------------------
    def _assign(self, target, labels, fn, m):
        env = self.env.setdefault(fn.key, {})
        if isinstance(target, ast.Name):
            cur = env.setdefault(target.id, set())
            if not labels <= cur:
                for l in labels - cur:
                    self.why.setdefault(((fn.key, target.id), l), self.cur)
                cur |= labels
                self.changed = True
        elif isinstance(target, (ast.Tuple, ast.List)):
            for t in target.elts:
                self._assign(t, labels, fn, m)
        elif isinstance(target, ast.Starred):
            self._assign(target.value, labels, fn, m)
        elif isinstance(target, ast.Subscript):
            self._assign(target.value, labels, fn, m)
        elif isinstance(target, ast.Attribute):
            if isinstance(target.value, ast.Name) and fn.self_name and target.value.id == fn.self_name:
                self._add(self.attr, (fn.cls, target.attr), labels)
            else:
                self._add(self.attr, ("?", target.attr), labels)

    def _body(self, fn):
        return fn.node.body if fn.node is not None else fn.body

    def visit_fn(self, fn, m):
        if not hasattr(fn, "nodes"):
            kinds = (ast.Assign, ast.AnnAssign, ast.AugAssign, ast.For, ast.AsyncFor, ast.With, ast.AsyncWith,
                     ast.Return, ast.Call)
            fn.nodes = [n for st in self._body(fn) for n in ast.walk(st) if isinstance(n, kinds)]
        for _once in (0,):
            for node in fn.nodes:
                self.cur = (fn.module, fn.qual, node.lineno)
                if isinstance(node, ast.Assign):
                    v = self.L(node.value, fn, m)
                    for t in node.targets:
                        self._assign(t, v, fn, m)
                elif isinstance(node, ast.AnnAssign) and node.value is not None:
                    self._assign(node.target, self.L(node.value, fn, m), fn, m)
                elif isinstance(node, ast.AugAssign):
                    self._assign(node.target, self.L(node.value, fn, m), fn, m)
                elif isinstance(node, (ast.For, ast.AsyncFor)):
                    self._assign(node.target, self.L(node.iter, fn, m), fn, m)
                elif isinstance(node, (ast.With, ast.AsyncWith)):
                    for it in node.items:
                        v = self.L(it.context_expr, fn, m)
                        if it.optional_vars is not None:
                            self._assign(it.optional_vars, v, fn, m)
                elif isinstance(node, ast.Return) and node.value is not None:
                    self._add(self.ret, fn.key, self.L(node.value, fn, m))
                elif isinstance(node, ast.Call):
                    self.L(node, fn, m)
                    if isinstance(node.func, ast.Attribute) and node.func.attr in MUTATORS:
                        v = set()
                        for a in node.args:
                            v |= self.L(a, fn, m)
                        self._assign(node.func.value, v - {ARGS}, fn, m)

    def solve(self):
        # root: the parsed arguments object
        for m in self.modules.values():
            if "parse_args" in m.fns:
                self.ret[(m.name, "parse_args")] = {ARGS}
        for _ in range(60):
            self.changed = False
            for m in self.modules.values():
                for fn in m.fns.values():
                    self.visit_fn(fn, m)
            if not self.changed:
                break
        else:
            raise RuntimeError("taint analysis did not reach a fixpoint")
        # library entry points: parameters of functions nobody in the package calls
        roots = False
        for m in self.modules.values():
            for fn in m.fns.values():
                if fn.node is None or fn.has_caller:
                    continue
                for p in fn.params + fn.kwonly:
                    lab = API_PARAM_LABELS.get((fn.qual, p))
                    if lab and lab not in self.param.get((fn.key, p), set()):
                        self.param.setdefault((fn.key, p), set()).add(lab)
                        roots = True
        if roots:
            for _ in range(60):
                self.changed = False
                for m in self.modules.values():
                    for fn in m.fns.values():
                        self.visit_fn(fn, m)
                if not self.changed:
                    break

    # ---- call-site extraction ------------------------------------------------------------------
    def _str_values(self, e, fn):
        """string constants an expression can evaluate to inside this function (for open modes)"""
        if e is None:
            return None
        if isinstance(e, ast.Constant) and isinstance(e.value, str):
            return {e.value}
        if isinstance(e, ast.IfExp):
            a, b = self._str_values(e.body, fn), self._str_values(e.orelse, fn)
            return None if a is None or b is None else a | b
        if isinstance(e, ast.Name):
            vals = set()
            for st in self._body(fn):
                for node in ast.walk(st):
                    if isinstance(node, ast.Assign) and any(isinstance(t, ast.Name) and t.id == e.id for t in node.targets):
                        v = self._str_values(node.value, fn) if not isinstance(node.value, ast.Name) else None
                        if v is None:
                            return None
                        vals |= v
            if e.id in fn.defaults and isinstance(fn.defaults[e.id], ast.Constant) and isinstance(fn.defaults[e.id].value, str):
                vals.add(fn.defaults[e.id].value)
            return vals or None
        return None

    @staticmethod
    def open_mode_class(mode):
        if mode is None:
            return "write"
        if any(c in mode for c in "wxa"):
            return "create"
        if "+" in mode:
            return "write"
        return "read"

    def _arg(self, call, idx, kw=None):
        if idx is not None and idx < len(call.args) and not isinstance(call.args[idx], ast.Starred):
            return call.args[idx]
        if kw:
            for k in call.keywords:
                if k.arg == kw:
                    return k.value
        return None

    def _prov(self, e, fn, m, handle=False):
        lab = self.L(e, fn, m) - {ARGS, SHEET}
        if handle:
            lab = {l[2:] for l in lab if l.startswith("H:")}
        else:
            lab = {l for l in lab if not l.startswith("H:")}
        if lab - {"LITERAL"}:
            lab -= {"LITERAL"}
        if not lab:
            lab = {"OTHER"}
        return [l for l in LABELS if l in lab]

    def effects(self):
        out = []
        for m in self.modules.values():
            uses_openpyxl = any(v.split(".")[0] == "openpyxl" for v in m.imports.values())
            uses_configargparse = any(v.split(".")[0] == "configargparse" for v in m.imports.values())
            for fn in m.fns.values():
                has_cfg = False
                if uses_configargparse:
                    for st in self._body(fn):
                        for node in ast.walk(st):
                            if isinstance(node, ast.Call) and isinstance(node.func, ast.Attribute) \
                                    and node.func.attr == "add_argument":
                                for k in node.keywords:
                                    if k.arg == "is_config_file" and isinstance(k.value, ast.Constant) and k.value.value:
                                        has_cfg = True
                for st in self._body(fn):
                    for node in ast.walk(st):
                        if isinstance(node, ast.Call):
                            out.extend(self._site(node, fn, m, uses_openpyxl, has_cfg))
        out.sort(key=lambda r: (r["file"], r["line"], r["col"], r["role"]))
        return out

    def _rec(self, node, fn, m, callee, api, mode, path_expr, role=0, open_modes=(), prov=None, handle=False):
        if prov is None and path_expr is not None:
            prov = self._prov(path_expr, fn, m, handle)
        return {
            "file": m.relpath, "func": fn.qual, "line": node.lineno, "endLine": node.end_lineno or node.lineno,
            "col": node.col_offset, "role": role, "callee": callee, "api": api, "mode": mode,
            "openModes": sorted(open_modes),
            "prov": prov if prov is not None else ["OTHER"],
            "pathExpr": ast.unparse(path_expr) if path_expr is not None else "",
        }

    def _site(self, node, fn, m, uses_openpyxl, has_cfg):
        q = self.dotted(m, node.func)
        R = lambda *a, **k: self._rec(node, fn, m, *a, **k)  # noqa: E731
        if q in OPEN_CALLS:
            p = self._arg(node, 0, "file")
            me = self._arg(node, 1, "mode")
            modes = {"r"} if me is None else self._str_values(me, fn)
            if modes is None:
                return [R(q, "open", "write", p, open_modes=["?"])]
            rank = {"read": 0, "write": 1, "create": 2}
            cls = max((self.open_mode_class(x) for x in modes), key=lambda c: rank[c])
            return [R(q, "open", cls, p, open_modes=modes)]
        if q == "os.open":
            return [R(q, "open", "write", self._arg(node, 0, "path"), open_modes=["?"])]
        if q == "os.fstat":
            return [R(q, "stat", "stat", self._arg(node, 0), handle=True)]
        if q in STAT_CALLS:
            return [R(q, "stat", "stat", self._arg(node, 0))]
        if q in WALK_CALLS:
            return [R(q, "walk", "stat", self._arg(node, 0))]
        if q in CREATE_CALLS:
            return [R(q, CREATE_CALLS[q], "create", self._arg(node, 0))]
        if q in DELETE_CALLS:
            return [R(q, "remove", "delete", self._arg(node, 0))]
        if q in WRITE_CALLS:
            return [R(q, "other", "write", self._arg(node, 0))]
        if q in RENAME_CALLS:
            return [R(q, "rename", "delete", self._arg(node, 0, "src"), role=0),
                    R(q, "rename", "create", self._arg(node, 1, "dst"), role=1)]
        if q in COPY_CALLS:
            return [R(q, "other", "read", self._arg(node, 0, "src"), role=0),
                    R(q, "other", "create", self._arg(node, 1, "dst"), role=1)]
        if q == "os.symlink":
            return [R(q, "other", "create", self._arg(node, 1, "dst"))]
        if q in ("sqlite3.connect", "sqlite3.dbapi2.connect", "sqlite3.Connection"):
            return [R(q, "sqliteConnect", "create", self._arg(node, 0, "database"))]
        if q == "logging.basicConfig":
            p = self._arg(node, None, "filename")
            recs = []
            if p is not None:
                recs.append(R(q, "logFile", "create", p, open_modes=["a"]))
            if any(k.arg is None for k in node.keywords):
                recs.append(R(q, "logFile", "create", None, role=1))
            return recs
        if q in LOGFILE_CALLS:
            return [R(q, "logFile", "create", self._arg(node, 0, "filename"), open_modes=["a"])]
        if q in HANDLE_WRITERS:
            return [R(q, "handleWrite", "write", self._arg(node, HANDLE_WRITERS[q]), handle=True)]
        if q is None and isinstance(node.func, ast.Attribute):
            if node.func.attr == "save" and uses_openpyxl:
                return [R("openpyxl.Workbook.save", "workbookSave", "create", self._arg(node, 0, "filename")),
                        R("openpyxl.Workbook.save", "tempFile", "read", None, role=1, prov=["TEMP"]),
                        R("openpyxl.Workbook.save", "tempFile", "delete", None, role=2, prov=["TEMP"]),
                        R("openpyxl.Workbook.save", "tempFile", "create", None, role=3, prov=["TEMP"])]
            if node.func.attr == "append" and uses_openpyxl and SHEET in self.L(node.func.value, fn, m):
                return [R("openpyxl.WriteOnlyWorksheet.append", "tempFile", "create", None, role=0, prov=["TEMP"]),
                        R("openpyxl.WriteOnlyWorksheet.append", "tempFile", "delete", None, role=1, prov=["TEMP"])]
            if node.func.attr in ("parse_args", "parse_known_args") and has_cfg:
                return [R("configargparse.ArgParser.parse_args", "configFile", "read", None, prov=["CONFIG"])]
            return []
        if q is not None and q not in PURE and q.split(".")[0] in FS_MODULES:
            # a call into an FS-capable module this translator does not understand: worst case
            return [R(q, "other", "write", self._arg(node, 0))]
        return []


# ------------------------------------------------------------------------------------------------
API_ENUM = ["open", "stat", "walk", "mkdir", "rename", "remove", "sqliteConnect", "logFile", "workbookSave",
            "tempFile", "handleWrite", "configFile", "other"]
MODE_ENUM = ["read", "write", "create", "delete", "stat"]


def extract(repo=None):
    a = Analysis(repo)
    a.solve()
    return a.effects()


def render(effects):
    L = [
        "/- GENERATED by harness/translate/fs_effects.py from the sources under sqlite_dissect/ — do not edit.",
        "   One record per call site that can touch the file system; see the translator for the rules. -/",
        "namespace SqliteDissect.Generated",
        "",
        "inductive FsMode where",
        "  | read | write | create | delete | stat",
        "  deriving DecidableEq, Repr, Inhabited",
        "",
        "inductive FsApi where",
        "  | " + " | ".join(API_ENUM),
        "  deriving DecidableEq, Repr, Inhabited",
        "",
        "inductive Prov where",
        "  | EVIDENCE | OUTPUT | LOG | CONFIG | TEMP | LITERAL | OTHER",
        "  deriving DecidableEq, Repr, Inhabited",
        "",
        "structure FsEffect where",
        "  file : String",
        "  func : String",
        "  line : Nat",
        "  endLine : Nat",
        "  role : Nat",
        "  callee : String",
        "  api : FsApi",
        "  mode : FsMode",
        "  openModes : List String",
        "  prov : List Prov",
        "  pathExpr : String",
        "  deriving Repr, Inhabited",
        "",
        "def fsEffects : List FsEffect := [",
    ]
    rows = []
    for r in effects:
        rows.append(
            "  { file := %s, func := %s, line := %d, endLine := %d, role := %d,\n"
            "    callee := %s, api := .%s, mode := .%s, openModes := [%s],\n"
            "    prov := [%s], pathExpr := %s }"
            % (json.dumps(r["file"]), json.dumps(r["func"]), r["line"], r["endLine"], r["role"],
               json.dumps(r["callee"]), r["api"], r["mode"], ", ".join(json.dumps(x) for x in r["openModes"]),
               ", ".join("." + p for p in r["prov"]), json.dumps(r["pathExpr"]))
        )
    L.append(",\n".join(rows))
    L += ["]", "", "end SqliteDissect.Generated", ""]
    return "\n".join(L)


def table(repo=None):
    """the same records as plain dicts (used by the runtime audit correspondence)"""
    return extract(repo)


def regenerate():
    text = render(extract())
    old = open(OUT, encoding="utf-8").read() if os.path.exists(OUT) else None
    if old != text:
        os.makedirs(os.path.dirname(OUT), exist_ok=True)
        with open(OUT, "w", encoding="utf-8") as fh:
            fh.write(text)
        return True
    return False


if __name__ == "__main__":
    for r in extract():
        print(f"{r['file']}:{r['line']:<5} {r['func']:<42} {r['callee']:<28} {r['api']:<13} {r['mode']:<7} "
              f"{','.join(r['openModes']):<5} {','.join(r['prov']):<16} {r['pathExpr']}")
