"""Translator 3: small pure Python functions and the header constructors -> lean/SqliteDissect/Generated/PyFun.lean,
lean/SqliteDissect/Generated/PyHeader.lean, lean/SqliteDissect/Generated/PyPage.lean

The functions at the bottom of the parsers (varint codec, serial-type sizes and record values, the local-payload
arithmetic of the three payload-bearing cell constructors, the overflow closed form, the per-column regex table, the
body-size scan of the carver) and the constructors of the four header classes are re-translated from the *current*
source on every run.  `Properties/GenFun.lean` / `Properties/GenHeader.lean` prove each generated function equal to
the hand-written model function the property theorems are about, so a semantic change of the source breaks a proof
obligation on the next run.  `Generated/PyPage.lean` (`Properties/GenPage.lean`) holds the constructors of the b-tree
page header classes (`BTreePageHeader(page, header_length)` and its subclasses `LeafPageHeader`, `InteriorPageHeader`),
of the WAL-index header classes (`WriteAheadLogIndexSubHeader(index, bytes)`,
`WriteAheadLogIndexCheckpointInfo(bytes, endianness)`, `WriteAheadLogIndexHeader(bytes)`) and the body of
`OverflowPage.__init__` after `super().__init__` (PAGE_CLASSES).

Subset (whitelist).  Statements: assignment to a name or to a tuple of names, augmented assignment, if/elif/else,
`while` (fuelled), `for v in range(..)`, break, continue, return, raise of a project exception class / a builtin
exception class, pass, `bytearray.insert(0, e)`, `try: .. except X: <logging>; raise` (the handlers change nothing);
logging calls, `warnings.warn`, docstrings, `logger = getLogger(..)` and assignments of message strings / f-strings /
`.format(..)` are dropped as effect-free.  Expressions: integer literals, None, names, imported integer / byte-string /
integer-list constants, + - * // % / (float as exact fraction, only under int()/return), << >> & |, unary -,
comparisons (chains; == / != also of byte strings), `in` / `not in` a literal list or a constant list, and/or/not,
conditional expression, tuples of those in `return`, `ord(b[lo:hi])`, `b[lo:hi]` of a byte buffer, `len(..)`,
`b[lo:]`, `b[:hi]`, `int(..)`, byte string constants and `+` on them, `bytearray()`, `bytearray(b"..")`, `b[:-1]`, `b[-1]`,
`pack("B", e)`, `unpack(">b|B|h|H|i|I|q|Q|d", data)[0]`, `unpack("<b|B|h|H|i|I|q|Q", data)[0]`, True / False,
`X.MEMBER` for an `X = Enum([..])` table of constants.py (the string that names the member, provided the `Enum` class
still reads as `_enums` expects), `x = []` / `x.append(e)` (a list of integers or of translated objects) and `x[k]` for a
literal k >= 0, the constructor of a class translated earlier (a byte string argument becomes the buffer it is),
`obj.attr` of such an object, `unhexlify(f"..{i}")`, `get_md5_hash(data)` (identity),
`compile(C).match(hexlify(data).decode())` for a constant C of the form `^0{n}$`, and calls of functions translated
earlier (KNOWN_CALLS).  Anything else raises `Unsupported` with the source line: the generated file then contains a
deliberately failing declaration for that function and the proof stage is red ("generated model could not be
produced"), never a stale model.

Shape of the output.  One Lean `def` per Python function, in `do` notation over `Py = Except PyErr`; a Python
variable is a (shadowed) `let`.  An `if` whose branches are pure and raise nothing is a joined
`let x := if c then .. else ..` (dropped altogether when nothing it assigns survives it: only logging inside).  An `if`
of which at most one branch completes normally gets the rest of the block inlined into that branch.  An `if` with two
or more normally completing branches that is left only by `raise` and is followed by more than a `return` becomes
`let vars <- (show Py T from do <the if, every normal end yielding vars>)`; every other `if` gets the rest of the
block inlined into its branches.  A loop becomes an auxiliary structurally recursive function `<fn>_loop<k>` over a
fuel argument whose other arguments are the variables the body reads and (after them) the loop variable and the
variables the body assigns that exist before the loop; it returns their final values.  `for v in range(a, b)` passes
the exact fuel `(b - a).toNat`.  A `while` loop has no bound the translator could know: the generated function takes
an extra first argument `fuel : Nat`, hands it to every `while` loop, and running out of fuel is
`.error .outsideModel`; the equality theorems quantify over every fuel above an explicit bound.  A declared result
type (`ret=` in FUNCTIONS) wraps path-dependent values into `PyVal`.

The cell constructors are not functions of their own: from `<Cell>.__init__` the statements between the first
assignment of `self.has_overflow` and the `if` that assigns `self.bytes_on_first_page` are sliced backwards from
{self.bytes_on_first_page, self.has_overflow} (plus every `raise` and what its guard reads); statements assigning only
other targets are dropped after checking that they call nothing but `unpack`/`int`/`.format`.  The slice must read
exactly `self._page_size` and `self.payload_byte_size` from outside; the result is a function of those two returning
`(bytes_on_first_page, has_overflow)`.

A header constructor `<Class>.__init__(self, data)` is translated whole: `self.a` becomes the variable `a`
(`self` may occur in no other way), `super().__init__()` is dropped after checking that the base constructor only
assigns None to attributes all of which this constructor assigns, and the result is a Lean structure `<Class>` with
one field per attribute in the order of first assignment (every attribute must have a value of one type at the end).
Parameter names are taken from the source (the configured ones document the positions), so a renamed parameter or
local changes bound names only.  PAGE_CLASSES extends this: several parameters with configured types; a parameter or
local with the name of an attribute (`self.index = index`) is renamed `<name>_arg` / `<name>_local`; an attribute that
is None at the end of one branch of a pure `if` and a value at the end of the other is an `Option`; a subclass of a
class translated earlier in the same module calls `super().__init__(args)` once, as a top-level statement: that is a
call of the generated base constructor whose attributes become variables, and the structure of the subclass repeats
the fields of the base class before its own.  With `drop_super` (OverflowPage) the base constructor is NOT
translated: `super().__init__(..)` is dropped, the attributes it leaves behind that the body reads are parameters
(`inputs`), the configured call of the version interface is a parameter of type `Py Buf` (its result or the exception
it raises) bound at the place of the call, and the parameters configured with type None may only be handed to
`super().__init__`.  An attribute that is read but assigned nowhere is an error as soon as it is evaluated."""
import ast
import json
import os
import re
import subprocess
import sys

from ..leanio.build import LEAN
from . import constants as tr_constants

REPO = os.environ.get("VERIF_REPO", "/repo")
OUT = os.path.join(LEAN, "SqliteDissect", "Generated", "PyFun.lean")
OUT_HEADER = os.path.join(LEAN, "SqliteDissect", "Generated", "PyHeader.lean")
OUT_PAGE = os.path.join(LEAN, "SqliteDissect", "Generated", "PyPage.lean")

TRUSTED = ("translator harness/translate/pyfun.py + lean/SqliteDissect/PyPrelude.lean (Python source of the small pure "
           "functions, of the header constructors, of the b-tree page header / WAL-index header constructors and of the "
           "body of OverflowPage.__init__ -> Generated/PyFun.lean, Generated/PyHeader.lean, Generated/PyPage.lean, proved "
           "equal to the hand-written model functions in Properties/GenFun.lean, Properties/GenHeader.lean, "
           "Properties/GenPage.lean); trusted: the prelude's reading of Python int / slice / struct.unpack / list / float "
           "operations (floats as exact fractions, doubles as bit patterns, md5 as the identity, a member of an Enum table "
           "of constants.py as the string that names it), the dropping of logging / warnings / message formatting, for "
           "OverflowPage that Page.__init__ leaves the page size in self.size (it is not translated), and the translator "
           "itself, all exercised against the interpreter by `python -m harness.translate.pyfun --selftest`")

MAX_LINES = 400  # per function: inlining the continuation into branches must not explode


class Unsupported(Exception):
    def __init__(self, msg, node=None, src=None):
        self.msg = msg
        self.lineno = getattr(node, "lineno", None)
        self.src = src
        super().__init__(msg)

    def text(self, path=""):
        where = f"{path}:{self.lineno}" if self.lineno else path
        line = ""
        if self.src is not None and self.lineno:
            try:
                line = " `" + self.src.split("\n")[self.lineno - 1].strip() + "`"
            except IndexError:
                pass
        return f"{where}: {self.msg}{line}"


class NotPure(Exception):
    pass


# ------------------------------------------------------------------------------------------------ what to translate
UTIL = "sqlite_dissect/utilities.py"
CARVE = "sqlite_dissect/carving/utilities.py"
PAGE = "sqlite_dissect/file/database/page.py"

FUNCTIONS = [
    dict(file=UTIL, name="calculate_expected_overflow", params=[("overflow_byte_size", "int"), ("page_size", "int")]),
    dict(file=UTIL, name="decode_varint", params=[("byte_array", "buf"), ("offset", "int")]),
    dict(file=UTIL, name="encode_varint", params=[("value", "int")]),
    dict(file=UTIL, name="get_serial_type_signature", params=[("serial_type", "int")]),
    dict(file=CARVE, name="get_content_size", params=[("serial_type", "int")]),
    dict(file=CARVE, name="decode_varint_in_reverse",
         params=[("byte_array", "buf"), ("offset", "int"), ("max_varint_length", "int")]),
    dict(file=CARVE, name="generate_regex_for_simplified_serial_type", params=[("simplified_serial_type", "int")]),
    dict(file=UTIL, name="get_record_content", params=[("serial_type", "int"), ("record_body", "buf"), ("offset", "int")],
         ret=("tuple", ["int", "val"])),
    dict(file=CARVE, name="calculate_body_content_size", params=[("serial_type_header", "buf")]),
]
# constructors of the header classes: `__init__(self, <bytes>)` -> a structure of the attributes it assigns
CLASSES = [
    dict(file="sqlite_dissect/file/database/header.py", cls="DatabaseHeader", param="database_header_byte_array"),
    dict(file="sqlite_dissect/file/wal/header.py", cls="WriteAheadLogHeader", param="wal_header_byte_array"),
    dict(file="sqlite_dissect/file/wal/header.py", cls="WriteAheadLogFrameHeader",
         param="wal_frame_header_byte_array"),
    dict(file="sqlite_dissect/file/journal/header.py", cls="RollbackJournalHeader",
         param="rollback_journal_header_byte_array"),
]
# constructors written to Generated/PyPage.lean, in dependency order (a class is translated after its base class and
# after the classes whose constructors it calls).  `params` documents the positions and gives the types; the names are
# read from the source.
DBHEADER = "sqlite_dissect/file/database/header.py"
WALINDEX = "sqlite_dissect/file/wal_index/header.py"
PAGE_CLASSES = [
    dict(file=DBHEADER, cls="BTreePageHeader", params=[("page", "buf"), ("header_length", "int")]),
    dict(file=DBHEADER, cls="LeafPageHeader", params=[("page", "buf")]),
    dict(file=DBHEADER, cls="InteriorPageHeader", params=[("page", "buf")]),
    dict(file=WALINDEX, cls="WriteAheadLogIndexSubHeader",
         params=[("index", "int"), ("wal_index_sub_header_byte_array", "buf")]),
    dict(file=WALINDEX, cls="WriteAheadLogIndexCheckpointInfo",
         params=[("wal_index_checkpoint_info_byte_array", "buf"), ("endianness", "str")]),
    dict(file=WALINDEX, cls="WriteAheadLogIndexHeader", params=[("wal_index_header_byte_array", "buf")]),
    # a constructor that talks to the version interface: `super().__init__(..)` (Page.__init__, not translated) is
    # dropped, the attributes it leaves behind that are read here are parameters (`inputs`), the one call of the
    # version interface is a parameter holding its result or its exception (`externals`), the __init__ parameters
    # typed None may only be handed to `super().__init__` (positions, not names)
    dict(file=PAGE, cls="OverflowPage",
         params=[("version_interface", None), ("number", None), ("parent_cell_page_number", "int"),
                 ("parent_overflow_page_number", "int"), ("index", "int"), ("payload_remaining", "int")],
         inputs=[("size", "int")],
         externals=[("self._version_interface.get_page_data(self.number)", "page_data", ("py", "buf"))],
         drop_super=True),
]
CELLS = [
    dict(file=PAGE, cls="TableLeafCell", lean="tableLeafLocal"),
    dict(file=PAGE, cls="IndexLeafCell", lean="indexLeafLocal"),
    dict(file=PAGE, cls="IndexInteriorCell", lean="indexInteriorLocal"),
]
SLICE_SEEDS = ("bytes_on_first_page", "has_overflow")
SLICE_INPUTS = {"_page_size": "page_size", "payload_byte_size": "payload_byte_size"}
SLICE_DROPPED_CALLS = {"unpack", "int", "format"}

LEAN_TYPE = {"int": "Int", "bool": "Bool", "buf": "Buf", "bytes": "List Nat", "rat": "PyRat", "str": "List Char",
             "unit": "Unit", "none": "Unit", "f64": "Nat", "val": "PyVal", "hexstr": "List Nat", "natlist": "List Nat",
             "intlist": "List Int"}
STATIC_TYPES = ("logger",)          # values that exist only for dropped statements (plus ("zeros_regex", n))
UNPACK_FORMATS = {">b": (True, 1), ">B": (False, 1), ">h": (True, 2), ">H": (False, 2), ">i": (True, 4),
                  ">I": (False, 4), ">q": (True, 8), ">Q": (False, 8)}
UNPACK_FORMATS_LE = {"<" + k[1:]: v for k, v in UNPACK_FORMATS.items()}
RECORD_FIELD_TYPES = ("int", "bytes", "bool", "str")
# constructors translated earlier in the same output: (module, class) -> dict(lean=, params=[types], fields=[(n, t)])
KNOWN_CLASSES = {}
# functions translated earlier in the same output that later ones may call: (module, name) -> (lean, params, result)
KNOWN_CALLS = {
    ("sqlite_dissect.utilities", "decode_varint"): ("decode_varint", ["buf", "int"], ("tuple", ["int", "int"])),
    ("sqlite_dissect.carving.utilities", "get_content_size"): ("get_content_size", ["int"], "int"),
}
LEAN_KEYWORDS = {
    "end", "from", "at", "have", "show", "fun", "match", "open", "then", "do", "in", "let", "if", "else", "by",
    "instance", "structure", "namespace", "section", "variable", "universe", "theorem", "def", "import", "export",
    "local", "where", "with", "deriving", "mutual", "macro", "syntax", "infix", "notation", "Type", "Prop", "Sort",
    "class", "inductive", "example", "axiom", "abbrev", "opaque", "private", "protected", "partial", "unsafe",
    "return", "for", "while", "break", "continue", "try", "catch", "finally", "mut", "unless", "using", "calc",
    "suffices", "obtain", "nomatch", "nofun", "fuel", "pure", "bind", "true", "false", "some", "none", "ok", "error",
}
LOG_METHODS = {"debug", "info", "warning", "warn", "error", "critical", "exception", "log"}
BUILTIN_ERRORS = {"ValueError": "valueError", "TypeError": "typeError", "IndexError": "indexError",
                  "KeyError": "keyError", "NotImplementedError": "notImplemented", "OverflowError": "overflowError",
                  "ZeroDivisionError": "zeroDivision", "RuntimeError": "runtimeError", "EOFError": "eofError"}


def lean_ty(t):
    if isinstance(t, tuple) and t[0] == "record":
        return t[1]
    if isinstance(t, tuple) and t[0] == "opt":
        return "Option " + atom(lean_ty(t[1]))
    if isinstance(t, tuple) and t[0] == "list":
        return "List " + atom(lean_ty(t[1]))
    if isinstance(t, tuple) and t[0] == "elt":     # element type of a list, known at its first `append`
        return f"@@ELT:{t[1]}@@"
    if isinstance(t, tuple) and t[0] == "py":      # the outcome of a call that is a parameter: a value or an exception
        return "Py " + atom(lean_ty(t[1]))
    if isinstance(t, tuple):
        return "(" + " × ".join(lean_ty(x) for x in t[1]) + ")"
    return LEAN_TYPE[t]


def unify_opt(t1, t2):
    """the type of a variable that is None on one path and a value on the other (None if they do not unify)"""
    if t1 == t2:
        return t1
    for a, b in ((t1, t2), (t2, t1)):
        if a == "none" and b in ("int", "bytes"):
            return ("opt", b)
        if a == "none" and isinstance(b, tuple) and b[0] == "opt":
            return b
        if isinstance(a, tuple) and a[0] == "opt" and a[1] == b:
            return a
    return None


def wrap_opt(text, have, want):
    if have == want:
        return text
    if have == "none":
        return "none"
    return f"some {atom(text)}"


def is_static(t):
    return t in STATIC_TYPES or (isinstance(t, tuple) and t[0] == "zeros_regex")


def ident(name):
    if name == "_":
        return "_u"
    if name in LEAN_KEYWORDS or not re.fullmatch(r"[A-Za-z_][A-Za-z0-9_]*", name):
        return name + "_"
    return name


def atom(s):
    """parenthesise unless syntactically atomic"""
    if re.fullmatch(r"[A-Za-z_][A-Za-z0-9_.']*|[0-9]+|0x[0-9A-Fa-f]+|@@ELT:\w+@@", s):
        return s
    if s.startswith("(") and s.endswith(")"):
        depth = 0
        for i, ch in enumerate(s):
            if ch == "(":
                depth += 1
            elif ch == ")":
                depth -= 1
                if depth == 0 and i != len(s) - 1:
                    break
        else:
            return s
    if s.startswith("[") and s.endswith("]") and s.count("[") == 1:
        return s
    return "(" + s + ")"


def tuple_text(parts):
    if not parts:
        return "()"
    if len(parts) == 1:
        return parts[0]
    return "(" + ", ".join(parts) + ")"


def tuple_type(types):
    if not types:
        return "Unit"
    if len(types) == 1:
        return lean_ty(types[0])
    return "(" + " × ".join(lean_ty(t) for t in types) + ")"


def indent(lines, n=2):
    pad = " " * n
    return [pad + l for l in lines]


# ------------------------------------------------------------------------------------------------ module context
class Module:
    def __init__(self, relpath, repo):
        self.relpath = relpath
        self.path = os.path.join(repo, relpath)
        self.src = open(self.path, encoding="utf-8").read()
        self.tree = ast.parse(self.src)
        self.const_names = set()      # names imported from sqlite_dissect.constants
        self.exc_names = set()        # names imported from sqlite_dissect.exception
        self.imported = {}            # name -> (module, original name)
        self.module_defs = set()      # names bound at module level by def / class / assignment / plain import
        for st in self.tree.body:
            if isinstance(st, ast.ImportFrom) and st.module:
                for a in st.names:
                    nm = a.asname or a.name
                    self.imported[nm] = (st.module, a.name)
                    if st.module == "sqlite_dissect.constants" and a.asname is None:
                        self.const_names.add(a.name)
                    if st.module == "sqlite_dissect.exception" and a.asname is None:
                        self.exc_names.add(a.name)
            elif isinstance(st, (ast.FunctionDef, ast.AsyncFunctionDef, ast.ClassDef)):
                self.module_defs.add(st.name)
            elif isinstance(st, ast.Import):
                for a in st.names:
                    self.module_defs.add((a.asname or a.name).split(".")[0])
            elif isinstance(st, (ast.Assign, ast.AugAssign, ast.AnnAssign)):
                for t in (st.targets if isinstance(st, ast.Assign) else [st.target]):
                    for x in ast.walk(t):
                        if isinstance(x, ast.Name):
                            self.module_defs.add(x.id)

    def function(self, name):
        hits = [n for n in self.tree.body if isinstance(n, ast.FunctionDef) and n.name == name]
        if len(hits) != 1:
            raise Unsupported(f"expected exactly one module-level function `{name}`, found {len(hits)}")
        self.plain_binding(hits[0], name, self.tree.body)
        return hits[0]

    @staticmethod
    def plain_binding(fn, name, scope):
        """the translated body is what the name means only if nothing wraps or rebinds it: a decorator (cache, wrapper,
        patch) or a later assignment to the same name in the same scope replaces the function by something else"""
        if fn.decorator_list:
            raise Unsupported(f"`{name}` is decorated ({ast.unparse(fn.decorator_list[0])}): the name is bound to the "
                              f"decorator's result, not to the translated body", fn)
        for st in scope:
            if st is fn:
                continue
            tgts = []
            if isinstance(st, ast.Assign):
                tgts = st.targets
            elif isinstance(st, (ast.AugAssign, ast.AnnAssign)):
                tgts = [st.target]
            for t in tgts:
                for x in ast.walk(t):
                    if isinstance(x, ast.Name) and x.id == name:
                        raise Unsupported(f"`{name}` is rebound by an assignment in the same scope", st)

    def method(self, cls, name):
        cs = [n for n in self.tree.body if isinstance(n, ast.ClassDef) and n.name == cls]
        if len(cs) != 1:
            raise Unsupported(f"expected exactly one class `{cls}`, found {len(cs)}")
        ms = [n for n in cs[0].body if isinstance(n, ast.FunctionDef) and n.name == name]
        if len(ms) != 1:
            raise Unsupported(f"expected exactly one method `{cls}.{name}`, found {len(ms)}")
        self.plain_binding(ms[0], f"{cls}.{name}", [])
        for st in cs[0].body:
            if isinstance(st, ast.Assign) and any(isinstance(x, ast.Name) and x.id == name for t in st.targets for x in ast.walk(t)):
                raise Unsupported(f"`{cls}.{name}` is rebound by an assignment in the class body", st)
        if cs[0].decorator_list:
            raise Unsupported(f"class `{cls}` is decorated ({ast.unparse(cs[0].decorator_list[0])})", cs[0])
        return ms[0]


# ------------------------------------------------------------------------------------------------ helpers on the AST
def assigned_names(stmts):
    """names assigned anywhere in the statements (Name targets, loop variables, `x.insert`)"""
    out = []

    def add(n):
        if n not in out:
            out.append(n)

    for st in stmts:
        for node in ast.walk(st):
            if isinstance(node, (ast.Assign,)):
                for t in node.targets:
                    for x in ast.walk(t):
                        if isinstance(x, ast.Name):
                            add(x.id)
            elif isinstance(node, (ast.AugAssign, ast.AnnAssign)):
                for x in ast.walk(node.target):
                    if isinstance(x, ast.Name):
                        add(x.id)
            elif isinstance(node, ast.For):
                for x in ast.walk(node.target):
                    if isinstance(x, ast.Name):
                        add(x.id)
            elif isinstance(node, ast.Expr) and _is_insert(node.value):
                add(node.value.func.value.id)
            elif isinstance(node, (ast.NamedExpr,)):
                add(node.target.id)
    return out


def read_names(node_or_list):
    nodes = node_or_list if isinstance(node_or_list, list) else [node_or_list]
    out = []
    for n in nodes:
        for x in ast.walk(n):
            if isinstance(x, ast.Name) and x.id not in out:
                out.append(x.id)
    return out


def _is_insert(call):
    """`x.insert(..)` / `x.append(..)` on a name: a statement that assigns `x`"""
    return (isinstance(call, ast.Call) and isinstance(call.func, ast.Attribute)
            and call.func.attr in ("insert", "append") and isinstance(call.func.value, ast.Name))


def _is_msg_value(v):
    if isinstance(v, ast.Constant) and isinstance(v.value, str):
        return True
    if isinstance(v, ast.JoinedStr):
        return True
    return isinstance(v, ast.Call) and isinstance(v.func, ast.Attribute) and v.func.attr == "format"


def completes(stmts):
    """may the block complete normally (syntactic)?"""
    for st in stmts:
        if isinstance(st, (ast.Return, ast.Raise, ast.Break, ast.Continue)):
            return False
        if isinstance(st, ast.If) and not completes(st.body) and not completes(st.orelse):
            return False
        if isinstance(st, ast.Try) and not completes(st.body):
            return False
    return True


def if_leaves(st):
    """the branches of an if / elif / else chain (the implicit else is an empty branch)"""
    out = [st.body]
    orelse = st.orelse
    while len(orelse) == 1 and isinstance(orelse[0], ast.If):
        out.append(orelse[0].body)
        orelse = orelse[0].orelse
    out.append(orelse)
    return out


def has_abrupt(stmts):
    for st in stmts:
        for node in ast.walk(st):
            if isinstance(node, (ast.Return, ast.Raise, ast.Break, ast.Continue)):
                return True
    return False


def is_logging_call(node):
    """getLogger(..).error(..) / self._logger.error(..) / logger.error(..) / logging.error(..)"""
    if not (isinstance(node, ast.Call) and isinstance(node.func, ast.Attribute) and node.func.attr in LOG_METHODS):
        return False
    recv = node.func.value
    if isinstance(recv, ast.Call) and isinstance(recv.func, ast.Name) and recv.func.id == "getLogger":
        return True
    if isinstance(recv, ast.Call) and isinstance(recv.func, ast.Attribute) and recv.func.attr == "getLogger":
        return True
    if isinstance(recv, ast.Name) and recv.id in ("logger", "logging", "_logger", "log"):
        return True
    if isinstance(recv, ast.Attribute) and recv.attr in ("logger", "_logger"):
        return True
    return False


# ------------------------------------------------------------------------------------------------ one function
class FnTranslator:
    def __init__(self, mod, lean_name, params, body, consts, defaults=None, doc="", ret=None, super_ok=False,
                 prefix=""):
        self.mod = mod
        self.ret_spec = ret                    # declared result type (components of type `val` are wrapped in PyVal)
        self.super_ok = super_ok               # `super().__init__()` was checked to assign only None to attributes
        self.prefix = prefix                   # namespace prefix of functions of the other generated file
        self.record_fields = None
        self.record_name = None
        self.name = lean_name
        self.params = params                   # [(python name, type)]
        self.body = body
        self.consts = consts                   # constants.py environment (name -> value)
        self.defaults = defaults or {}
        self.doc = doc
        self.aux = []                          # auxiliary loop definitions (lists of lines)
        self.elt_types = {}                    # list variable -> element type (fixed by its first `append`)
        self.enums = (consts or {}).get("__enums__", {})
        self.base_info = None                  # translated base class of a constructor: dict(lean=, params=, fields=)
        self.base_done = False
        self.super_any = False                 # drop `super().__init__(..)` whatever its arguments
        self.ret_type = None
        self.tmp = 0
        self.nloops = 0
        self.loops = []                        # stack of dict(brk=, cont=)
        self.needs_fuel = any(isinstance(n, ast.While) for st in body for n in ast.walk(st))
        self.all_names = set(assigned_names(body)) | {p for p, _ in params}
        # names that only ever hold message strings (never block a join)
        self.msg_only = set()
        for n in self.all_names:
            vals = [x.value for st in body for x in ast.walk(st) if isinstance(x, ast.Assign)
                    and any(isinstance(t, ast.Name) and t.id == n for t in x.targets)]
            augs = [x for st in body for x in ast.walk(st) if isinstance(x, ast.AugAssign)
                    and isinstance(x.target, ast.Name) and x.target.id == n]
            if vals and not augs and all(_is_msg_value(v) for v in vals):
                self.msg_only.add(n)

    # ---- errors
    def bad(self, msg, node):
        raise Unsupported(msg, node, self.mod.src)

    def fresh(self):
        while True:
            self.tmp += 1
            nm = f"t{self.tmp}"
            if nm not in self.all_names:
                return nm

    def seg(self, node):
        return ast.get_source_segment(self.mod.src, node) or ""

    def resolve(self, t):
        """a type with the element types of the lists known so far filled in"""
        if isinstance(t, tuple) and t[0] == "elt":
            return self.elt_types.get(t[1], t)
        if isinstance(t, tuple) and t[0] in ("list", "opt"):
            return (t[0], self.resolve(t[1]))
        return t

    def _super_call(self, st):
        """`super().__init__(args..)` as a statement: the call node, else None"""
        c = st.value if isinstance(st, ast.Expr) else None
        if (isinstance(c, ast.Call) and not c.keywords and isinstance(c.func, ast.Attribute)
                and c.func.attr == "__init__" and isinstance(c.func.value, ast.Call)
                and isinstance(c.func.value.func, ast.Name) and c.func.value.func.id == "super"
                and not c.func.value.args and not c.func.value.keywords):
            return c
        return None

    # ---- expressions: returns (text, type); monadic sub-computations are appended to `pre`
    def expr(self, node, env, pre):
        if isinstance(node, ast.Constant):
            v = node.value
            if v is None:
                return "()", "none"
            if isinstance(v, bool):
                return ("true" if v else "false"), "bool"
            if isinstance(v, int):
                s = self.seg(node)
                if re.fullmatch(r"0[xX][0-9A-Fa-f]+", s):
                    return "0x" + s[2:].upper(), "int"
                return (str(v) if v >= 0 else f"({v})"), "int"
            if isinstance(v, bytes):
                return "[" + ", ".join(str(b) for b in v) + "]", "bytes"
            if isinstance(v, str):
                return self.str_lit(v, node), "str"
            self.bad(f"constant of type {type(v).__name__} is outside the subset", node)
        if isinstance(node, ast.Name):
            if node.id in env:
                t = env[node.id]
                if t == "msg":
                    self.bad(f"message string `{node.id}` used as a value", node)
                return ident(node.id), t
            if node.id.startswith("__unassigned_attr_"):
                self.bad(f"`self.{node.id[len('__unassigned_attr_'):]}` is read but assigned neither here nor by a "
                         f"translated base constructor", node)
            if node.id in self.all_names:
                self.bad(f"variable `{node.id}` may be unbound here (assigned only on some paths / inside a loop)",
                         node)
            if node.id in self.mod.const_names:
                v = self.consts.get(node.id)
                if isinstance(v, int) and not isinstance(v, bool):
                    return f"(Generated.{node.id} : Int)", "int"
                if isinstance(v, bytes) and 1 <= len(v) <= 16:
                    return f"Generated.{node.id}", "bytes"
                if isinstance(v, list) and v and all(isinstance(x, int) and not isinstance(x, bool) for x in v):
                    return f"Generated.{node.id}", ("intlist" if any(x < 0 for x in v) else "natlist")
                self.bad(f"imported constant `{node.id}` is not an integer / byte string / integer list known to "
                         f"Generated.Constants", node)
            self.bad(f"unknown name `{node.id}`", node)
        if isinstance(node, ast.UnaryOp):
            if isinstance(node.op, ast.USub):
                a, t = self.expr(node.operand, env, pre)
                if t != "int":
                    self.bad("unary minus on a non-integer", node)
                return f"-{atom(a)}", "int"
            if isinstance(node.op, ast.Not):
                return f"decide (¬ {atom(self.cond(node.operand, env, pre))})", "bool"
            self.bad(f"unary operator {type(node.op).__name__} is outside the subset", node)
        if isinstance(node, ast.BinOp):
            return self.binop(node, env, pre)
        if isinstance(node, (ast.Compare, ast.BoolOp)):
            return f"decide ({self.cond(node, env, pre)})", "bool"
        if isinstance(node, ast.IfExp):
            inner = []
            c = self.cond(node.test, env, inner)
            a, ta = self.expr(node.body, env, inner)
            b, tb = self.expr(node.orelse, env, inner)
            if inner:
                self.bad("conditional expression with an operand that can raise is outside the subset", node)
            if ta != tb:
                self.bad(f"conditional expression with branches of different types ({ta}, {tb})", node)
            return f"if {c} then {a} else {b}", ta
        if isinstance(node, ast.Tuple):
            parts = [self.expr(e, env, pre) for e in node.elts]
            return tuple_text([p for p, _ in parts]), ("tuple", [t for _, t in parts])
        if isinstance(node, ast.Call):
            return self.call(node, env, pre)
        if isinstance(node, ast.Subscript):
            return self.subscript(node, env, pre)
        if isinstance(node, ast.Attribute):
            v = node.value
            if isinstance(v, ast.Name) and v.id not in env and v.id not in self.all_names \
                    and v.id in self.mod.const_names and v.id in self.enums:
                if node.attr not in self.enums[v.id]:
                    self.bad(f"`{node.attr}` is not a member of the enumeration `{v.id}` of constants.py", node)
                return self.str_lit(self.enums[v.id][node.attr], node), "str"
            a, t = self.expr(v, env, pre)
            if isinstance(t, tuple) and t[0] == "record":
                for fmod_cls, info in KNOWN_CLASSES.items():
                    if info["record"] == t[1]:
                        for n, ft in info["fields"]:
                            if n == node.attr:
                                return f"{atom(a)}.{ident(n)}", ft
                self.bad(f"`{node.attr}` is not an attribute assigned by the constructor of `{t[1]}`", node)
            self.bad(f"attribute `{node.attr}` of a value of type {t} is outside the subset", node)
        if isinstance(node, ast.JoinedStr):
            parts = []
            for v in node.values:
                if isinstance(v, ast.Constant) and isinstance(v.value, str):
                    parts.append(self.str_lit(v.value, node))
                elif isinstance(v, ast.FormattedValue) and v.conversion == -1 and v.format_spec is None:
                    a, t = self.expr(v.value, env, pre)
                    if t != "int":
                        self.bad("f-string field that is not an integer", node)
                    parts.append(f"pyStrInt {atom(a)}")
                else:
                    self.bad("f-string with conversion or format spec is outside the subset", node)
            return " ++ ".join(parts) if parts else "([] : List Char)", "str"
        self.bad(f"expression {type(node).__name__} is outside the subset", node)

    def str_lit(self, s, node):
        if not all(32 <= ord(c) < 127 and c not in "'\\" for c in s):
            self.bad("string literal with characters outside printable ASCII", node)
        return "[" + ", ".join(f"'{c}'" for c in s) + "]"

    def int_literal(self, node):
        """value of an integer literal (possibly negated), else None"""
        if isinstance(node, ast.Constant) and isinstance(node.value, int) and not isinstance(node.value, bool):
            return node.value
        if isinstance(node, ast.UnaryOp) and isinstance(node.op, ast.USub):
            v = self.int_literal(node.operand)
            return None if v is None else -v
        return None

    def binop(self, node, env, pre):
        a, ta = self.expr(node.left, env, pre)
        b, tb = self.expr(node.right, env, pre)
        op = node.op
        lit = self.int_literal(node.right)
        if ta == "bytes" and tb == "bytes" and isinstance(op, ast.Add):
            return f"{atom(a)} ++ {atom(b)}", "bytes"
        if ta == "rat" and tb == "int" and isinstance(op, (ast.Add, ast.Sub)):
            f = "addInt" if isinstance(op, ast.Add) else "subInt"
            return f"PyRat.{f} {atom(a)} {atom(b)}", "rat"
        if ta != "int" or tb != "int":
            self.bad(f"operator {type(op).__name__} on operands of type {ta}, {tb} is outside the subset", node)
        if isinstance(op, ast.Add):
            return f"{atom(a)} + {atom(b)}", "int"
        if isinstance(op, ast.Sub):
            return f"{atom(a)} - {atom(b)}", "int"
        if isinstance(op, ast.Mult):
            return f"{atom(a)} * {atom(b)}", "int"
        if isinstance(op, (ast.FloorDiv, ast.Mod)):
            pure, mon = ("Int.fdiv", "pyFloorDiv") if isinstance(op, ast.FloorDiv) else ("Int.fmod", "pyMod")
            if lit is not None and lit != 0:
                return f"{pure} {atom(a)} {atom(b)}", "int"
            t = self.fresh()
            pre.append(f"let {t} ← {mon} {atom(a)} {atom(b)}")
            return t, "int"
        if isinstance(op, ast.Div):
            if lit is not None and lit != 0:
                return f"pyTrueDivLit {atom(a)} {atom(b)}", "rat"
            t = self.fresh()
            pre.append(f"let {t} ← pyTrueDiv {atom(a)} {atom(b)}")
            return t, "rat"
        if isinstance(op, (ast.LShift, ast.RShift)):
            pure, mon = ("pyShlNat", "pyShl") if isinstance(op, ast.LShift) else ("pyShrNat", "pyShr")
            if lit is not None and lit >= 0:
                return f"{pure} {atom(a)} {lit}", "int"
            t = self.fresh()
            pre.append(f"let {t} ← {mon} {atom(a)} {atom(b)}")
            return t, "int"
        if isinstance(op, ast.BitAnd):
            return f"pyAnd {atom(a)} {atom(b)}", "int"
        if isinstance(op, ast.BitOr):
            return f"pyOr {atom(a)} {atom(b)}", "int"
        self.bad(f"operator {type(op).__name__} is outside the subset", node)

    def call(self, node, env, pre):
        f = node.func
        if node.keywords:
            self.bad("call with keyword arguments is outside the subset", node)
        if isinstance(f, ast.Name):
            if f.id in env or f.id in self.all_names:
                self.bad(f"call of a local `{f.id}`", node)
            if f.id in ("ord", "len", "int", "bytearray", "range") and (f.id in self.mod.imported
                                                                         or f.id in self.mod.module_defs):
                self.bad(f"the builtin `{f.id}` is rebound in this module", node)
            if f.id == "ord" and len(node.args) == 1:
                a = node.args[0]
                if (isinstance(a, ast.Subscript) and isinstance(a.slice, ast.Slice) and a.slice.step is None
                        and a.slice.lower is not None and a.slice.upper is not None
                        and isinstance(a.value, ast.Name)):
                    bt = self.expr(a.value, env, pre)
                    if bt[1] != "buf":
                        self.bad("ord() of a slice of something that is not a read-only byte buffer", node)
                    lo, tl = self.expr(a.slice.lower, env, pre)
                    hi, th = self.expr(a.slice.upper, env, pre)
                    if tl != "int" or th != "int":
                        self.bad("slice bound that is not an integer", node)
                    t = self.fresh()
                    pre.append(f"let {t} ← pyOrdSlice {bt[0]} {atom(lo)} {atom(hi)}")
                    return t, "int"
                self.bad("ord() of anything but a two-bound slice `b[lo:hi]` is outside the subset", node)
            if f.id == "len" and len(node.args) == 1:
                a, t = self.expr(node.args[0], env, pre)
                if t == "buf":
                    return f"pyLenBuf {atom(a)}", "int"
                if t == "bytes":
                    return f"pyLenBytes {atom(a)}", "int"
                self.bad(f"len() of a value of type {t}", node)
            if f.id == "int" and len(node.args) == 1:
                a, t = self.expr(node.args[0], env, pre)
                if t == "int":
                    return a, "int"
                if t == "rat":
                    return f"pyIntOfRat {atom(a)}", "int"
                self.bad(f"int() of a value of type {t}", node)
            if f.id == "bytearray":
                if not node.args:
                    return "([] : List Nat)", "bytes"
                if len(node.args) == 1 and isinstance(node.args[0], ast.Constant) \
                        and isinstance(node.args[0].value, bytes):
                    return self.expr(node.args[0], env, pre)
                self.bad("bytearray(..) of anything but a bytes literal", node)
            if f.id == "pack" and self.mod.imported.get("pack") == ("struct", "pack") and len(node.args) == 2 \
                    and isinstance(node.args[0], ast.Constant) and node.args[0].value in ("B", b"B"):
                a, t = self.expr(node.args[1], env, pre)
                if t != "int":
                    self.bad("pack('B', x) of a non-integer", node)
                tmp = self.fresh()
                pre.append(f"let {tmp} ← pyPackB {atom(a)}")
                return tmp, "bytes"
            if f.id == "unhexlify" and self.mod.imported.get("unhexlify") == ("binascii", "unhexlify") \
                    and len(node.args) == 1:
                a, t = self.expr(node.args[0], env, pre)
                if t != "str":
                    self.bad("unhexlify of a non-string", node)
                tmp = self.fresh()
                pre.append(f"let {tmp} ← pyUnhexlify {atom(a)}")
                return tmp, "bytes"
            if f.id == "__extern__":           # synthetic: the outcome of a call of the version interface (a parameter)
                t = env.get(node.args[0].id)
                if not (isinstance(t, tuple) and t[0] == "py"):
                    self.bad("internal: external call without its parameter", node)
                tmp = self.fresh()
                pre.append(f"let {tmp} ← {ident(node.args[0].id)}")
                return tmp, t[1]
            if f.id == "__record__":           # synthetic: the attributes of a constructor, in source order
                fields = []
                for a in node.args:
                    t = env.get(a.id)
                    if t is None:
                        self.bad(f"attribute `{a.id}` may be unassigned at the end of the constructor", node)
                    t = self.resolve(t)
                    ok = (t in RECORD_FIELD_TYPES or (isinstance(t, tuple) and (
                        (t[0] == "opt" and t[1] in ("int", "bytes")) or t[0] == "record"
                        or (t[0] == "list" and (t[1] == "int" or (isinstance(t[1], tuple) and t[1][0] == "record"))))))
                    if not ok:
                        self.bad(f"attribute `{a.id}` ends with a value of type {t}", node)
                    fields.append((a.id, t))
                if self.record_fields is not None and self.record_fields != fields:
                    self.bad("an attribute has values of different types at two ends of the constructor", node)
                self.record_fields = fields
                return ("{ " + ", ".join(f"{ident(n)} := {ident(n)}" for n, _ in fields) + " }",
                        ("record", self.record_name))
            if f.id == "get_md5_hash" and self.mod.imported.get(f.id) == ("sqlite_dissect.utilities", "get_md5_hash") \
                    and len(node.args) == 1:
                a, t = self.expr(node.args[0], env, pre)
                if t == "buf":
                    return f"pyMd5 (Buf.toList {atom(a)})", "bytes"
                if t == "bytes":
                    return f"pyMd5 {atom(a)}", "bytes"
                self.bad(f"get_md5_hash of a value of type {t}", node)
            if f.id == "compile" and self.mod.imported.get("compile") == ("re", "compile") and len(node.args) == 1 \
                    and isinstance(node.args[0], ast.Name) and node.args[0].id in self.mod.const_names:
                v = self.consts.get(node.args[0].id)
                m = re.fullmatch(r"\^0\{(\d+)\}\$", v) if isinstance(v, str) else None
                if m is None:
                    self.bad(f"compile() of a pattern that is not of the form ^0{{n}}$ ({v!r})", node)
                return "", ("zeros_regex", int(m.group(1)))
            key = None
            if f.id in self.mod.imported:
                key = self.mod.imported[f.id]
            elif f.id in self.mod.module_defs:
                key = (self.mod.relpath[:-3].replace("/", "."), f.id)
            if key in KNOWN_CLASSES:
                info = KNOWN_CLASSES[key]
                if len(node.args) != len(info["params"]):
                    self.bad(f"`{f.id}(..)` with {len(node.args)} arguments (all {len(info['params'])} must be given)",
                             node)
                args = []
                for a_node, want in zip(node.args, info["params"]):
                    a, t = self.expr(a_node, env, pre)
                    if want == "buf" and t == "bytes":
                        a, t = f"Buf.ofList {atom(a)}", "buf"     # a byte string handed on as the buffer it is
                    if t != want:
                        self.bad(f"argument of type {t} where `{f.id}` takes {want}", node)
                    args.append(atom(a))
                tmp = self.fresh()
                pre.append(f"let {tmp} ← {info['lean']} " + " ".join(args))
                return tmp, ("record", info["record"])
            if key in KNOWN_CALLS:
                lean, ptys, rty = KNOWN_CALLS[key]
                if len(node.args) != len(ptys):
                    self.bad(f"call of `{f.id}` with {len(node.args)} arguments (all {len(ptys)} must be given)", node)
                args = []
                for a_node, want in zip(node.args, ptys):
                    a, t = self.expr(a_node, env, pre)
                    if t != want:
                        self.bad(f"argument of type {t} where `{f.id}` takes {want}", node)
                    args.append(atom(a))
                tmp = self.fresh()
                pre.append(f"let {tmp} ← {self.prefix}{lean} " + " ".join(args))
                return tmp, rty
            self.bad(f"call of `{f.id}` is outside the subset", node)
        if isinstance(f, ast.Attribute) and f.attr == "decode" and not node.args and isinstance(f.value, ast.Call) \
                and isinstance(f.value.func, ast.Name) and f.value.func.id == "hexlify" \
                and self.mod.imported.get("hexlify") == ("binascii", "hexlify") and len(f.value.args) == 1 \
                and not f.value.keywords:
            a, t = self.expr(f.value.args[0], env, pre)
            if t != "bytes":
                self.bad("hexlify(..).decode() of something that is not a byte string", node)
            return a, "hexstr"               # a hex string is carried as the bytes it spells (hexlify is injective)
        if isinstance(f, ast.Attribute) and f.attr == "match" and isinstance(f.value, ast.Name) \
                and isinstance(env.get(f.value.id), tuple) and env[f.value.id][0] == "zeros_regex" \
                and len(node.args) == 1:
            a, t = self.expr(node.args[0], env, pre)
            if t != "hexstr":
                self.bad("pattern.match of something that is not hexlify(..).decode()", node)
            return f"pyZerosHexMatch {env[f.value.id][1]} {atom(a)}", "bool"
        self.bad("call of this form is outside the subset", node)

    def subscript(self, node, env, pre):
        v = node.value
        if isinstance(v, ast.Call) and isinstance(v.func, ast.Name) and v.func.id == "unpack":
            # unpack(FMT, data)[0] for a one-field big-endian format
            if self.mod.imported.get("unpack") != ("struct", "unpack") or v.keywords or len(v.args) != 2 \
                    or self.int_literal(node.slice) != 0 or not isinstance(v.args[0], ast.Constant):
                self.bad("only `unpack(FORMAT, data)[0]` with struct.unpack and a literal format is inside the subset",
                         node)
            fmt = v.args[0].value
            fmt = fmt.decode("ascii", "replace") if isinstance(fmt, bytes) else fmt
            a, t = self.expr(v.args[1], env, pre)
            if t != "bytes":
                self.bad(f"unpack of a value of type {t}", node)
            tmp = self.fresh()
            if fmt == ">d":
                pre.append(f"let {tmp} ← pyUnpackDouble {atom(a)}")
                return tmp, "f64"
            if fmt in UNPACK_FORMATS_LE:
                signed, n = UNPACK_FORMATS_LE[fmt]
                pre.append(f"let {tmp} ← pyUnpackLE {'true' if signed else 'false'} {n} {atom(a)}")
                return tmp, "int"
            if fmt not in UNPACK_FORMATS:
                self.bad(f"unpack format {fmt!r} is outside the subset", node)
            signed, n = UNPACK_FORMATS[fmt]
            pre.append(f"let {tmp} ← pyUnpackBE {'true' if signed else 'false'} {n} {atom(a)}")
            return tmp, "int"
        if not isinstance(v, ast.Name):
            self.bad("subscript of a non-name", node)
        a, t = self.expr(node.value, env, pre)
        if t == "buf":
            s = node.slice
            if isinstance(s, ast.Slice) and s.step is None and (s.lower is not None or s.upper is not None):
                # an omitted lower bound is 0, an omitted upper bound is len(b)
                lo, tl = self.expr(s.lower, env, pre) if s.lower is not None else ("0", "int")
                hi, th = self.expr(s.upper, env, pre) if s.upper is not None else (f"pyLenBuf {atom(a)}", "int")
                if tl != "int" or th != "int":
                    self.bad("slice bound that is not an integer", node)
                return f"pySliceBuf {atom(a)} {atom(lo)} {atom(hi)}", "bytes"
            self.bad("only slices `b[lo:hi]`, `b[lo:]`, `b[:hi]` of a byte buffer are inside the subset", node)
        if isinstance(t, tuple) and t[0] == "list":
            k = self.int_literal(node.slice)
            if k is None or k < 0:
                self.bad("only a literal index >= 0 into a built list is inside the subset", node)
            et = self.resolve(t[1])
            if isinstance(et, tuple) and et[0] == "elt":
                self.bad("index into a list nothing was appended to", node)
            tmp = self.fresh()
            pre.append(f"let {tmp} ← pyListGet {atom(a)} {k}")
            return tmp, et
        if t != "bytes":
            self.bad(f"subscript of a value of type {t} outside ord(..) is outside the subset", node)
        s = node.slice
        if isinstance(s, ast.Slice):
            if s.lower is None and s.step is None and self.int_literal(s.upper) == -1:
                return f"pyDropLast {atom(a)}", "bytes"
            self.bad("only the slice `[:-1]` of a built bytearray is inside the subset", node)
        if self.int_literal(s) == -1:
            tmp = self.fresh()
            pre.append(f"let {tmp} ← pyLastByte {atom(a)}")
            return tmp, "int"
        self.bad("only the index `[-1]` of a built bytearray is inside the subset", node)

    # ---- conditions: a decidable Prop
    def cond(self, node, env, pre):
        if isinstance(node, ast.Compare):
            ops = {ast.Eq: "=", ast.NotEq: "≠", ast.Lt: "<", ast.LtE: "≤", ast.Gt: ">", ast.GtE: "≥"}
            operands = [node.left] + list(node.comparators)
            if len(node.ops) == 1 and isinstance(node.ops[0], (ast.In, ast.NotIn)):
                a, t = self.expr(node.left, env, pre)
                if t != "int":
                    self.bad(f"membership test of a value of type {t}", node)
                r = node.comparators[0]
                if isinstance(r, (ast.List, ast.Tuple)) and r.elts:
                    inner = []
                    alts = []
                    for e in r.elts:
                        b, tb = self.expr(e, env, inner)
                        if tb != "int" or inner:
                            self.bad("membership in a literal list whose elements are not plain integers", node)
                        alts.append(f"{atom(a)} = {atom(b)}")
                    c = alts[0] if len(alts) == 1 else " ∨ ".join(alts)
                else:
                    inner = []
                    b, tb = self.expr(r, env, inner)
                    if inner or tb not in ("natlist", "intlist"):
                        self.bad("membership in something that is not a list of integers", node)
                    c = f"{atom(a)} ∈ " + (f"List.map (fun n : Nat => (n : Int)) {atom(b)}" if tb == "natlist"
                                           else atom(b))
                return c if isinstance(node.ops[0], ast.In) else f"¬ ({c})"
            if len(node.ops) == 1 and isinstance(node.ops[0], (ast.Eq, ast.NotEq)):
                n0 = len(pre)
                save = self.tmp
                a, ta = self.expr(node.left, env, pre)
                if ta == "bytes":
                    b, tb = self.expr(node.comparators[0], env, pre)
                    if tb != "bytes":
                        self.bad(f"comparison of a byte string with a value of type {tb}", node)
                    return f"{atom(a)} {'=' if isinstance(node.ops[0], ast.Eq) else '≠'} {atom(b)}"
                del pre[n0:]
                self.tmp = save
            if len(operands) > 2:
                for mid in operands[1:-1]:
                    if not isinstance(mid, (ast.Name, ast.Constant)):
                        self.bad("comparison chain whose middle operand is not a name or literal", node)
            texts = []
            for o in operands:
                n0 = len(pre)
                a, t = self.expr(o, env, pre)
                if t != "int":
                    self.bad(f"comparison of a value of type {t}", node)
                if len(operands) > 2 and len(pre) != n0:
                    self.bad("comparison chain with an operand that can raise", node)
                texts.append(a)
            parts = []
            for i, op in enumerate(node.ops):
                if type(op) not in ops:
                    self.bad(f"comparison operator {type(op).__name__} is outside the subset", node)
                parts.append(f"{atom(texts[i])} {ops[type(op)]} {atom(texts[i + 1])}")
            return parts[0] if len(parts) == 1 else " ∧ ".join(parts)
        if isinstance(node, ast.BoolOp):
            inner = []
            parts = [atom(self.cond(v, env, inner)) for v in node.values]
            if inner:
                self.bad("and/or with an operand that can raise is outside the subset (short-circuit order)", node)
            return (" ∧ " if isinstance(node.op, ast.And) else " ∨ ").join(parts)
        if isinstance(node, ast.UnaryOp) and isinstance(node.op, ast.Not):
            return f"¬ {atom(self.cond(node.operand, env, pre))}"
        a, t = self.expr(node, env, pre)
        if t == "int":
            return f"{atom(a)} ≠ 0"
        if t == "bool":
            return f"{atom(a)} = true"
        if t == "bytes":
            return f"{atom(a)} ≠ []"
        self.bad(f"truth value of a value of type {t} is outside the subset", node)

    # ---- statements
    def dropped(self, st, env):
        """effect-free statements that are dropped; returns the new env or None"""
        if isinstance(st, ast.Pass):
            return env
        if isinstance(st, ast.Expr):
            if isinstance(st.value, ast.Constant) and isinstance(st.value.value, str):
                return env
            if is_logging_call(st.value):
                return env
            c = st.value
            if isinstance(c, ast.Call) and isinstance(c.func, ast.Name) and c.func.id == "warn" \
                    and self.mod.imported.get("warn") == ("warnings", "warn"):
                return env                       # warnings.warn: no effect on the result (filters are not modelled)
            if self.super_any and self._super_call(st) is not None:
                return env                       # configured: the base constructor is not translated (its results
                #                                  that are read here are parameters)
            if self.super_ok and isinstance(c, ast.Call) and not c.args and not c.keywords \
                    and isinstance(c.func, ast.Attribute) and c.func.attr == "__init__" \
                    and isinstance(c.func.value, ast.Call) and isinstance(c.func.value.func, ast.Name) \
                    and c.func.value.func.id == "super" and not c.func.value.args:
                return env                       # checked by the caller: assigns None to attributes only
            return None
        if isinstance(st, ast.Assign) and len(st.targets) == 1 and isinstance(st.targets[0], ast.Name):
            v = st.value
            if isinstance(v, ast.Constant) and isinstance(v.value, str):
                return {**env, st.targets[0].id: "msg"}
            if isinstance(v, ast.JoinedStr) and st.targets[0].id in self.msg_only:
                return {**env, st.targets[0].id: "msg"}
            if isinstance(v, ast.Call) and isinstance(v.func, ast.Name) and v.func.id == "getLogger" \
                    and self.mod.imported.get("getLogger") == ("logging", "getLogger"):
                return {**env, st.targets[0].id: "logger"}
            if (isinstance(v, ast.Call) and isinstance(v.func, ast.Attribute) and v.func.attr == "format"
                    and ((isinstance(v.func.value, ast.Name) and env.get(v.func.value.id) == "msg")
                         or (isinstance(v.func.value, ast.Constant) and isinstance(v.func.value.value, str)))):
                return {**env, st.targets[0].id: "msg"}
        return None

    def as_assign(self, st, env):
        """(target name, value node) of an assignment-like statement, else None"""
        if isinstance(st, ast.Assign):
            if len(st.targets) == 1 and isinstance(st.targets[0], ast.Tuple) \
                    and all(isinstance(e, ast.Name) for e in st.targets[0].elts):
                return [e.id for e in st.targets[0].elts], st.value, "tuple"
            if len(st.targets) != 1 or not isinstance(st.targets[0], ast.Name):
                self.bad("assignment to anything but a single name (or a tuple of names) is outside the subset", st)
            return st.targets[0].id, st.value, None
        if isinstance(st, ast.AugAssign):
            if not isinstance(st.target, ast.Name):
                self.bad("augmented assignment to anything but a name is outside the subset", st)
            v = ast.BinOp(left=ast.Name(id=st.target.id, ctx=ast.Load()), op=st.op, right=st.value)
            ast.copy_location(v, st)
            ast.copy_location(v.left, st)
            return st.target.id, v, None
        if isinstance(st, ast.Expr) and _is_insert(st.value):
            c = st.value
            if c.func.attr == "append":
                if len(c.args) != 1 or c.keywords:
                    self.bad("`.append` takes one argument", st)
                return c.func.value.id, c.args[0], "append"
            if len(c.args) != 2 or self.int_literal(c.args[0]) != 0 or c.keywords:
                self.bad("only `.insert(0, value)` is inside the subset", st)
            return c.func.value.id, c.args[1], "insert0"
        return None

    def assign_lines(self, st, env):
        """lines + new env for an assignment-like statement"""
        name, value, special = self.as_assign(st, env)
        pre = []
        if special == "insert0":
            if env.get(name) != "bytes":
                self.bad(f"`.insert` on `{name}` which is not a built bytearray", st)
            a, t = self.expr(value, env, pre)
            if t != "int":
                self.bad("insert of a non-integer", st)
            pre.append(f"let {ident(name)} ← pyInsert0 {ident(name)} {atom(a)}")
            return pre, env
        if special == "append":
            lt = env.get(name)
            if not (isinstance(lt, tuple) and lt[0] == "list"):
                self.bad(f"`.append` on `{name}` which is not a list built here", st)
            a, t = self.expr(value, env, pre)
            if t not in ("int",) and not (isinstance(t, tuple) and t[0] == "record"):
                self.bad(f"append of a value of type {t}", st)
            et = lt[1]
            if isinstance(et, tuple) and et[0] == "elt":
                if self.elt_types.setdefault(et[1], t) != t:
                    self.bad(f"`{name}` gets elements of different types", st)
            elif et != t:
                self.bad(f"`{name}` gets elements of different types", st)
            pre.append(f"let {ident(name)} : {lean_ty(lt)} := {ident(name)} ++ [{a}]")
            return pre, env
        if special is None and isinstance(value, ast.List) and not value.elts:
            lt = ("list", ("elt", name))
            return [f"let {ident(name)} : {lean_ty(lt)} := []"], {**env, name: lt}
        a, t = self.expr(value, env, pre)
        if special == "tuple":
            if not (isinstance(t, tuple) and t[0] == "tuple" and len(t[1]) == len(name)):
                self.bad("tuple assignment from something that is not a tuple of the same length", st)
            pre.append(f"let {tuple_text([ident(n) for n in name])} : {lean_ty(t)} := {a}")
            return pre, {**env, **dict(zip(name, t[1]))}
        if is_static(t):
            return pre, {**env, name: t}
        if isinstance(t, tuple) and t[0] == "tuple":
            self.bad("assignment of a tuple is outside the subset", st)
        if t == "rat":
            self.bad("a float may only occur under int(..) or be returned", st)
        pre.append(f"let {ident(name)} : {lean_ty(t)} := {a}")
        return pre, {**env, name: t}

    def pure_block(self, stmts, env):
        """straight-line pure statements as a list of lets; raises NotPure otherwise"""
        lets = []
        for st in stmts:
            e2 = self.dropped(st, env)
            if e2 is not None:
                env = e2
                continue
            if isinstance(st, (ast.Assign, ast.AugAssign)):
                lines, env2 = self.assign_lines(st, env)
                if len(lines) != 1:
                    raise NotPure()
                lets.append(lines[0])
                env = env2
                continue
            if isinstance(st, ast.If):
                j = self.join_if(st, env)
                if j is None:
                    raise NotPure()
                lets.append(j[0])
                env = j[1]
                continue
            raise NotPure()
        return lets, env

    def join_if(self, st, env):
        """`let vars := if c then .. else ..` for an `if` with pure branches; None if not applicable"""
        if has_abrupt([st]):
            return None
        tmp_save = self.tmp
        try:
            pre = []
            c = self.cond(st.test, env, pre)
            if pre:
                raise NotPure()
            l1, e1 = self.pure_block(st.body, env)
            l2, e2 = self.pure_block(st.orelse, env)
        except NotPure:
            self.tmp = tmp_save
            return None
        changed = [n for n in assigned_names(st.body) + assigned_names(st.orelse)]
        vs = []
        for n in changed:
            if n in vs:
                continue
            if n in e1 and n in e2 and e1[n] != "msg" and e2[n] != "msg":
                if unify_opt(e1[n], e2[n]) is None:
                    self.bad(f"`{n}` has different types after the two branches", st)
                vs.append(n)
        env2 = dict(env)
        for n in changed:
            env2.pop(n, None)
        for n in vs:
            env2[n] = unify_opt(e1[n], e2[n])
        if not vs:
            # a pure `if` that assigns nothing that survives it (only logging / warnings inside): no effect
            return "", env2

        def branch(lets, e):
            # a variable that is None at the end of one branch and a value at the end of the other is an Option
            res = tuple_text([wrap_opt(ident(v), e[v], env2[v]) for v in vs])
            return res if not lets else "(" + "; ".join(lets + [res]) + ")"

        ty = tuple_type([env2[v] for v in vs])
        line = f"let {tuple_text([ident(v) for v in vs])} : {ty} := if {c} then {branch(l1, e1)} else {branch(l2, e2)}"
        return line, env2

    def block(self, stmts, env, k):
        if not stmts:
            return k(env)
        st, rest = stmts[0], stmts[1:]
        return self.stmt(st, env, lambda e: self.block(rest, e, k))

    def stmt(self, st, env, k):
        e2 = self.dropped(st, env)
        if e2 is not None:
            return k(e2)
        if isinstance(st, (ast.Assign, ast.AugAssign)) or (isinstance(st, ast.Expr) and _is_insert(st.value)):
            lines, env2 = self.assign_lines(st, env)
            return lines + k(env2)
        if self.base_info is not None and self._super_call(st) is not None:
            # the constructor of a base class translated earlier: every attribute it assigns becomes a variable
            c = self._super_call(st)
            if self.loops or self.base_done:
                self.bad("`super().__init__(..)` inside a loop / more than once", st)
            info = self.base_info
            if len(c.args) != len(info["params"]):
                self.bad(f"`super().__init__(..)` with {len(c.args)} arguments (all {len(info['params'])} must be given)",
                         st)
            pre, args = [], []
            for a_node, want in zip(c.args, info["params"]):
                a, t = self.expr(a_node, env, pre)
                if want == "buf" and t == "bytes":
                    a, t = f"Buf.ofList {atom(a)}", "buf"
                if t != want:
                    self.bad(f"argument of type {t} where the base constructor takes {want}", st)
                args.append(atom(a))
            tmp = self.fresh()
            pre.append(f"let {tmp} ← {info['lean']} " + " ".join(args))
            env2 = dict(env)
            for n, t in info["fields"]:
                pre.append(f"let {ident(n)} : {lean_ty(t)} := {tmp}.{ident(n)}")
                env2[n] = t
            self.base_done = True
            out = pre + k(env2)
            self.base_done = False
            return out
        if isinstance(st, ast.Try):
            # try: BODY except X: <logging> raise   — the handlers change nothing
            if st.orelse or st.finalbody or not st.handlers:
                self.bad("try with else / finally is outside the subset", st)
            for h in st.handlers:
                if h.name is not None or not h.body or not isinstance(h.body[-1], ast.Raise) \
                        or h.body[-1].exc is not None or h.body[-1].cause is not None:
                    self.bad("only handlers that end in a bare `raise` are inside the subset", h)
                e = env
                for hs in h.body[:-1]:
                    e = self.dropped(hs, e)
                    if e is None:
                        self.bad("a handler may only log before it re-raises", hs)
            return self.block(st.body, env, k)
        if isinstance(st, ast.Return):
            if self.loops:
                self.bad("return inside a loop is outside the subset", st)
            if st.value is None:
                self.bad("return without a value", st)
            pre = []
            self._ret_env = env
            a, t = self.expr(st.value, env, pre)
            if t == "rat":
                tmp = self.fresh()
                pre.append(f"let {tmp} ← pyFloatAsInt {atom(a)}")
                a, t = tmp, "int"
            if self.ret_spec is not None:
                a, t = self.coerce_return(st, a, t)
            if isinstance(t, tuple) and t[0] == "tuple" and any(x == "rat" or isinstance(x, tuple) for x in t[1]):
                self.bad("tuple return with a float or nested tuple component", st)
            if self.ret_type is None:
                self.ret_type = t
            elif self.ret_type != t:
                self.bad(f"return values of different types ({self.ret_type} and {t})", st)
            return pre + [f".ok {atom(a)}"]
        if isinstance(st, ast.Raise):
            return [f".error .{self.exc(st)}"]
        if isinstance(st, ast.Break):
            if not self.loops:
                self.bad("break outside a loop", st)
            return self.loops[-1]["brk"](env)
        if isinstance(st, ast.Continue):
            if not self.loops:
                self.bad("continue outside a loop", st)
            return self.loops[-1]["cont"](env)
        if isinstance(st, ast.If):
            return self.if_stmt(st, env, k)
        if isinstance(st, ast.For):
            return self.for_stmt(st, env, k)
        if isinstance(st, ast.While):
            return self.while_stmt(st, env, k)
        self.bad(f"statement {type(st).__name__} is outside the subset", st)

    def coerce_return(self, st, a, t):
        """wrap the components the declared result type calls `val` into PyVal"""
        want = self.ret_spec
        wrap = {"none": "PyVal.none", "int": "PyVal.int {}", "f64": "PyVal.float64 {}", "bytes": "PyVal.bytes {}"}
        if want == "val":
            if t not in wrap:
                self.bad(f"return of a value of type {t} where a dynamic value is declared", st)
            return wrap[t].format(atom(a)), "val"
        if isinstance(want, tuple) and want[0] == "tuple":
            if not (isinstance(t, tuple) and t[0] == "tuple" and len(t[1]) == len(want[1])
                    and isinstance(st.value, ast.Tuple)):
                self.bad("return of something that is not a literal tuple of the declared length", st)
            parts, tys = [], []
            for e, w in zip(st.value.elts, want[1]):
                inner = []
                x, tx = self.expr(e, {**self._ret_env}, inner)
                if inner:
                    self.bad("tuple component that can raise in a return with a declared type", st)
                if w == "val":
                    if tx not in wrap:
                        self.bad(f"return of a value of type {tx} where a dynamic value is declared", st)
                    x, tx = wrap[tx].format(atom(x)), "val"
                elif tx != w:
                    self.bad(f"return component of type {tx}, declared {w}", st)
                parts.append(x)
                tys.append(tx)
            return tuple_text(parts), ("tuple", tys)
        if t != want:
            self.bad(f"return of type {t}, declared {want}", st)
        return a, t

    def exc(self, st):
        e = st.exc
        if e is None or st.cause is not None:
            self.bad("bare raise / raise .. from is outside the subset", st)
        cls = e.func if isinstance(e, ast.Call) else e
        if not isinstance(cls, ast.Name):
            self.bad("raise of something that is not a class name", st)
        if cls.id in self.mod.exc_names:
            return "parseError"
        if cls.id in BUILTIN_ERRORS and cls.id not in self.mod.imported:
            return BUILTIN_ERRORS[cls.id]
        self.bad(f"raise of `{cls.id}` which is neither a sqlite_dissect.exception class nor a known builtin", st)

    def reads_outside(self, st):
        inside = {id(x) for x in ast.walk(st)}
        out = set()
        for b in self.body:
            for x in ast.walk(b):
                if isinstance(x, ast.Name) and isinstance(x.ctx, ast.Load) and id(x) not in inside:
                    out.add(x.id)
        return out

    def stmts_after(self, st):
        """number of statements of the function that start after `st` ends (what inlining would duplicate)"""
        end = getattr(st, "end_lineno", None) or st.lineno
        return sum(1 for b in self.body for x in ast.walk(b) if isinstance(x, ast.stmt) and x.lineno > end)

    def join_m(self, st, env, k):
        """`let vars ← (show Py T from do <the if, every normal end yielding vars>)` — used when two or more
        branches complete normally and nothing but `raise` leaves the statement; None if not applicable"""
        for x in ast.walk(st):
            if isinstance(x, (ast.Return, ast.Break, ast.Continue, ast.For, ast.While)):
                return None
        assigned = assigned_names([st])
        vs = [n for n in assigned if n in env and env[n] != "msg" and not is_static(env[n])]
        lost = [n for n in assigned if n not in env and n not in self.msg_only]
        outside = self.reads_outside(st)
        if any(n in outside for n in lost):
            return None
        types = {}

        def leaf(e):
            for n in vs:
                if n not in e or e[n] == "msg":
                    self.bad(f"`{n}` is not a value at the end of a branch", st)
                if types.setdefault(n, e[n]) != e[n]:
                    self.bad(f"`{n}` has different types at the ends of the branches", st)
            return [f".ok {atom(tuple_text([ident(n) for n in vs]))}"]

        inner = self.if_inline(st, env, leaf)
        ty = tuple_type([types.get(n, env[n]) for n in vs])
        pat = tuple_text([ident(n) for n in vs]) if vs else "_"
        lines = [f"let {pat} ← (show Py {atom(ty)} from do"] + indent(inner)
        lines[-1] += ")"
        env2 = {n: t for n, t in env.items() if n not in assigned or n in vs}
        for n in vs:
            env2[n] = types.get(n, env[n])
        return lines + k(env2)

    def if_stmt(self, st, env, k):
        j = self.join_if(st, env)
        if j is not None:
            return ([j[0]] if j[0] else []) + k(j[1])
        if sum(1 for b in if_leaves(st) if completes(b)) >= 2 and self.stmts_after(st) >= 2:
            save = (self.tmp, self.nloops, len(self.aux))
            jm = self.join_m(st, env, k)
            if jm is not None:
                return jm
            self.tmp, self.nloops = save[0], save[1]
            del self.aux[save[2]:]
        return self.if_inline(st, env, k)

    def if_inline(self, st, env, k):
        pre = []
        c = self.cond(st.test, env, pre)
        then = self.block(st.body, env, k)
        out = pre + [f"if {c} then"] + indent(then)
        orelse = st.orelse
        # flatten elif chains whose tests need no monadic prefix
        while len(orelse) == 1 and isinstance(orelse[0], ast.If) and self.join_if(orelse[0], env) is None:
            inner = []
            c2 = self.cond(orelse[0].test, env, inner)
            if inner:
                break
            out += [f"else if {c2} then"] + indent(self.block(orelse[0].body, env, k))
            orelse = orelse[0].orelse
        out += ["else"] + indent(self.block(orelse, env, k))
        if len(out) > MAX_LINES:
            self.bad("the translation of this statement is too large (too many branching statements in sequence)", st)
        return out

    # ---- loops
    def loop_vars(self, body, env, loop_var=None):
        assigned = assigned_names(body)
        state = [n for n in assigned if n in env and env[n] != "msg" and n != loop_var]
        reads = [n for n in read_names(body) if n in env and env[n] != "msg" and n not in state and n != loop_var]
        return state, reads

    def for_stmt(self, st, env, k):
        if st.orelse:
            self.bad("for .. else is outside the subset", st)
        if not isinstance(st.target, ast.Name):
            self.bad("for with a target that is not a name", st)
        it = st.iter
        if not (isinstance(it, ast.Call) and isinstance(it.func, ast.Name) and it.func.id == "range"
                and not it.keywords and 1 <= len(it.args) <= 2 and "range" not in self.mod.imported
                and "range" not in self.mod.module_defs and "range" not in self.all_names):
            self.bad("for over anything but range(a, b) / range(n) is outside the subset", st)
        v = st.target.id
        if v in assigned_names(st.body):
            self.bad(f"the loop variable `{v}` is assigned inside the loop", st)
        pre = []
        if len(it.args) == 1:
            lo, tl = "0", "int"
            hi, th = self.expr(it.args[0], env, pre)
        else:
            lo, tl = self.expr(it.args[0], env, pre)
            hi, th = self.expr(it.args[1], env, pre)
        if tl != "int" or th != "int":
            self.bad("range bound that is not an integer", st)
        state, reads = self.loop_vars(st.body, env, v)
        self.nloops += 1
        name = f"{self.name}_loop{self.nloops}"
        sv = [ident(n) for n in state]
        rv = [ident(n) for n in reads]
        lv = ident(v)
        call = lambda fuel, x, svals: " ".join([name] + rv + [fuel, x] + svals)
        result = lambda e: [f".ok {atom(tuple_text([ident(n) for n in state]))}"]
        env_body = {**{n: env[n] for n in env if n in state or n in reads}, v: "int"}
        # variables of the enclosing scope that are neither read-only captures nor state are invisible in the body
        nxt = lambda e: [call("fuel", f"({lv} + 1)", [ident(n) for n in state])]
        self.loops.append(dict(brk=result, cont=nxt))
        body = self.block(st.body, env_body, nxt)
        self.loops.pop()
        rty = tuple_type([env[n] for n in state])
        sig = "".join(f" ({ident(n)} : {lean_ty(env[n])})" for n in reads)
        tys = " → ".join(["Nat", "Int"] + [lean_ty(env[n]) for n in state] + [f"Py {atom(rty)}"])
        pats0 = ", ".join(["0", "_"] + sv)
        pats1 = ", ".join(["fuel + 1", lv] + sv)
        d = [f"/-- `for {v} in range(..)` of `{self.name}`: fuel = iterations left, then `{v}`, then "
             f"{', '.join(state) if state else 'no state'} -/",
             f"def {name}{sig} : {tys}",
             f"  | {pats0} => .ok {atom(tuple_text(sv))}",
             f"  | {pats1} => do"] + indent(body, 4)
        self.aux.append(d)
        fuel = f"(Int.toNat ({atom(hi)} - {atom(lo)}))"
        out = pre + [f"let {tuple_text(sv) if sv else '_'} ← {call(fuel, atom(lo), sv)}"]
        return out + k({n: t for n, t in env.items()})

    def while_stmt(self, st, env, k):
        if st.orelse:
            self.bad("while .. else is outside the subset", st)
        state, reads = self.loop_vars(st.body, env)
        for n in read_names(st.test):
            if n in env and n not in state and n not in reads:
                reads.append(n)
        self.nloops += 1
        name = f"{self.name}_loop{self.nloops}"
        sv = [ident(n) for n in state]
        rv = [ident(n) for n in reads]
        call = lambda fuel, svals: " ".join([name] + rv + [fuel] + svals)
        result = lambda e: [f".ok {atom(tuple_text([ident(n) for n in state]))}"]
        nxt = lambda e: [call("fuel", [ident(n) for n in state])]
        env_body = {n: env[n] for n in env if n in state or n in reads}
        pre = []
        c = self.cond(st.test, env_body, pre)
        self.loops.append(dict(brk=result, cont=nxt))
        body = self.block(st.body, env_body, nxt)
        self.loops.pop()
        rty = tuple_type([env[n] for n in state])
        sig = "".join(f" ({ident(n)} : {lean_ty(env[n])})" for n in reads)
        tys = " → ".join(["Nat"] + [lean_ty(env[n]) for n in state] + [f"Py {atom(rty)}"])
        pats0 = ", ".join(["0"] + ["_"] * len(sv))
        pats1 = ", ".join(["fuel + 1"] + sv)
        d = [f"/-- `while` loop of `{self.name}`: fuel, then {', '.join(state) if state else 'no state'}; "
             f"out of fuel is `outsideModel` -/",
             f"def {name}{sig} : {tys}",
             f"  | {pats0} => .error .outsideModel",
             f"  | {pats1} => do"] + indent(pre + [f"if {c} then"] + indent(body) + ["else"] + indent(result(None)), 4)
        self.aux.append(d)
        out = [f"let {tuple_text(sv) if sv else '_'} ← {call('fuel', sv)}"]
        return out + k(dict(env))

    # ---- whole function
    def translate(self):
        env = {p: t for p, t in self.params}

        def end(_env):
            raise Unsupported(f"`{self.name}` can reach its end without a return (would return None)", self.body[-1],
                              self.mod.src)

        body = self.block(self.body, env, end)
        if self.ret_type is None:
            raise Unsupported(f"`{self.name}` never returns a value", self.body[0], self.mod.src)
        if len(body) > MAX_LINES:
            raise Unsupported(f"the translation of `{self.name}` is too large", self.body[0], self.mod.src)
        sig = " (fuel : Nat)" if self.needs_fuel else ""
        for p, t in self.params:
            dflt = self.defaults.get(p)
            sig += f" ({ident(p)} : {lean_ty(t)}" + (f" := {dflt}" if dflt is not None else "") + ")"
        out = []
        for d in self.aux:
            out += d + [""]
        out += [f"/-- {self.doc} -/", f"def {self.name}{sig} : Py {atom(lean_ty(self.ret_type))} := do"] + indent(body)

        def fill(m):
            t = self.resolve(("elt", m.group(1)))
            if isinstance(t, tuple) and t[0] == "elt":
                raise Unsupported(f"nothing is ever appended to the list `{m.group(1)}`: its element type is unknown",
                                  self.body[0], self.mod.src)
            return lean_ty(t)

        out = [re.sub(r"@@ELT:([A-Za-z_0-9]+)@@", fill, ln) for ln in out]
        if self.record_fields is not None:
            self.record_fields = [(n, self.resolve(t)) for n, t in self.record_fields]
        return out


# ------------------------------------------------------------------------------------------------ plain functions
def translate_function(spec, repo, consts):
    mod = Module(spec["file"], repo)
    fn = mod.function(spec["name"])
    a = fn.args
    if a.vararg or a.kwarg or a.kwonlyargs or a.posonlyargs:
        raise Unsupported("parameter list with * / ** / keyword-only parameters", fn, mod.src)
    names = [x.arg for x in a.args]
    want = [p for p, _ in spec["params"]]
    if len(names) != len(want):
        raise Unsupported(f"parameters of `{spec['name']}` are {names}, the translator is configured for {want}", fn,
                          mod.src)
    # the configured names only document the positions: a renamed parameter keeps its position and type
    params = [(n, t) for n, (_w, t) in zip(names, spec["params"])]
    defaults = {}
    for arg, d in zip(a.args[len(a.args) - len(a.defaults):], a.defaults):
        if isinstance(d, ast.Constant) and isinstance(d.value, int) and not isinstance(d.value, bool):
            defaults[arg.arg] = str(d.value) if d.value >= 0 else f"({d.value})"
        else:
            raise Unsupported("default value that is not an integer literal", fn, mod.src)
    tr = FnTranslator(mod, spec["name"], params, fn.body, consts, defaults,
                      doc=f"`{spec['name']}` of {spec['file']}", ret=spec.get("ret"))
    return tr.translate()


# ------------------------------------------------------------------------------------------------ header constructors
def _module_file(repo, module):
    return os.path.join(*module.split(".")) + ".py"


def _super_assigns_only_none(mod, cls_node, repo):
    """the attributes `super().__init__()` sets, provided the base constructor consists of `self.a = None` only"""
    if not cls_node.bases:
        return []
    if len(cls_node.bases) != 1 or not isinstance(cls_node.bases[0], ast.Name):
        raise Unsupported("class with several / computed bases", cls_node, mod.src)
    base = cls_node.bases[0].id
    if base == "object":
        return []
    if base not in mod.imported:
        raise Unsupported(f"base class `{base}` is not imported by name", cls_node, mod.src)
    bmod_name, bname = mod.imported[base]
    bmod = Module(_module_file(repo, bmod_name), repo)
    cs = [n for n in bmod.tree.body if isinstance(n, ast.ClassDef) and n.name == bname]
    if len(cs) != 1:
        raise Unsupported(f"base class `{bname}` not found in {bmod.relpath}", cls_node, mod.src)
    if cs[0].bases and not (len(cs[0].bases) == 1 and isinstance(cs[0].bases[0], ast.Name)
                            and cs[0].bases[0].id == "object"):
        raise Unsupported(f"base class `{bname}` has bases of its own", cls_node, mod.src)
    inits = [n for n in cs[0].body if isinstance(n, ast.FunctionDef) and n.name == "__init__"]
    if not inits:
        return []
    attrs = []
    for st in inits[0].body:
        if isinstance(st, ast.Expr) and isinstance(st.value, ast.Constant) and isinstance(st.value.value, str):
            continue
        if (isinstance(st, ast.Assign) and len(st.targets) == 1 and _self_attr(st.targets[0]) is not None
                and isinstance(st.value, ast.Constant) and st.value.value is None):
            attrs.append(_self_attr(st.targets[0]))
            continue
        raise Unsupported(f"`{bname}.__init__` ({bmod.relpath}:{st.lineno}) does more than `self.a = None`",
                          cls_node, mod.src)
    return attrs


def _translated_base(mod, cls_node):
    """the entry of KNOWN_CLASSES for the base class when it is a class of the same module translated earlier"""
    if len(cls_node.bases) == 1 and isinstance(cls_node.bases[0], ast.Name):
        key = (mod.relpath[:-3].replace("/", "."), cls_node.bases[0].id)
        if cls_node.bases[0].id in mod.module_defs and key in KNOWN_CLASSES:
            return KNOWN_CLASSES[key]
    return None


def translate_class(spec, repo, consts, register=False):
    import copy
    mod = Module(spec["file"], repo)
    cs = [n for n in mod.tree.body if isinstance(n, ast.ClassDef) and n.name == spec["cls"]]
    if len(cs) != 1:
        raise Unsupported(f"expected exactly one class `{spec['cls']}`, found {len(cs)}")
    init = mod.method(spec["cls"], "__init__")
    want = spec["params"] if "params" in spec else [(spec["param"], "buf")]
    a = init.args
    if a.vararg or a.kwarg or a.kwonlyargs or a.posonlyargs or a.defaults or len(a.args) != 1 + len(want) \
            or a.args[0].arg != "self":
        raise Unsupported(f"parameters of `{spec['cls']}.__init__` are {[x.arg for x in a.args]}, the translator is "
                          f"configured for {['self'] + [w for w, _ in want]}", init, mod.src)
    params = [(x.arg, t) for x, (_w, t) in zip(a.args[1:], want)]   # the configured names only document the positions
    opaque = {p_ for p_, t in params if t is None}       # may only be handed to the dropped `super().__init__(..)`
    params = [(p_, t) for p_, t in params if t is not None]
    drop_super = bool(spec.get("drop_super"))
    inputs = list(spec.get("inputs", []))                # attributes the dropped base constructor leaves behind
    init = copy.deepcopy(init)
    if drop_super:
        for x in ast.walk(init):
            if isinstance(x, ast.Name) and x.id in opaque and isinstance(x.ctx, ast.Load):
                par = [y for y in ast.walk(init) if isinstance(y, ast.Call) and x in y.args
                       and isinstance(y.func, ast.Attribute) and y.func.attr == "__init__"]
                if not par:
                    raise Unsupported(f"the parameter `{x.id}` is used other than as an argument of "
                                      f"`super().__init__(..)`", x, mod.src)
    elif opaque or inputs or spec.get("externals"):
        raise Unsupported("internal: opaque parameters / inputs / externals need drop_super")
    for text, pname, pty in spec.get("externals", []):
        wanted = _dump(ast.parse(text, mode="eval").body)
        hits = [x for x in ast.walk(init) if isinstance(x, ast.Call) and _dump(x) == wanted]
        if len(hits) != 1:
            raise Unsupported(f"expected exactly one call `{text}`, found {len(hits)}", init, mod.src)
        h = hits[0]
        h.func = ast.copy_location(ast.Name(id="__extern__", ctx=ast.Load()), h)
        h.args = [ast.copy_location(ast.Name(id=pname, ctx=ast.Load()), h)]
        h.keywords = []
        params.append((pname, pty))
    base = None if drop_super else _translated_base(mod, cs[0])
    if not drop_super and base is None and len(cs[0].bases) == 1 and isinstance(cs[0].bases[0], ast.Name) \
            and cs[0].bases[0].id in mod.module_defs and cs[0].bases[0].id != "object":
        raise Unsupported(f"the constructor of the base class `{cs[0].bases[0].id}` (same module) could not be "
                          f"translated, so this one cannot be either", cs[0], mod.src)
    base_attrs = _super_assigns_only_none(mod, cs[0], repo) if base is None and not drop_super else []
    if base is not None:
        n_super = 0
        for x in ast.walk(init):
            if isinstance(x, ast.Call) and isinstance(x.func, ast.Attribute) and x.func.attr == "__init__":
                n_super += 1
        if n_super != 1 or not any(isinstance(st, ast.Expr) and isinstance(st.value, ast.Call)
                                   and isinstance(st.value.func, ast.Attribute) and st.value.func.attr == "__init__"
                                   for st in init.body):
            raise Unsupported(f"`{spec['cls']}.__init__` must call `super().__init__(..)` exactly once, as a statement "
                              f"of its own at the top level", init, mod.src)
    # every use of `self` must be `self.<attr>`
    attr_nodes = {id(x.value) for x in ast.walk(init) if _self_attr(x) is not None}
    for x in ast.walk(init):
        if isinstance(x, ast.Name) and x.id == "self" and id(x) not in attr_nodes:
            raise Unsupported("`self` used other than as `self.<attribute>`", x, mod.src)
    stores = []
    for x in ast.walk(init):
        if isinstance(x, (ast.Assign, ast.AugAssign)):
            for t in (x.targets if isinstance(x, ast.Assign) else [x.target]):
                for y in ast.walk(t):
                    at = _self_attr(y)
                    if at is not None:
                        stores.append((y.lineno, y.col_offset, at))
    attrs = [n for n, _t in base["fields"]] if base is not None else []
    for _l, _c, at in sorted(stores):
        if at not in attrs:
            attrs.append(at)
    if not attrs:
        raise Unsupported(f"`{spec['cls']}.__init__` assigns no attribute", init, mod.src)
    for n, _t in inputs:
        if n in attrs:
            raise Unsupported(f"`self.{n}`, configured as left behind by the base constructor, is assigned here", init,
                              mod.src)
    # a parameter / local with the name of an attribute (`self.index = index`) gets a name of its own
    local_names = set(assigned_names(init.body)) | {p for p, _ in params}
    every = set(local_names) | set(attrs) | {x.id for x in ast.walk(init) if isinstance(x, ast.Name)}
    every |= {n for n, _t in inputs}
    rename = {}
    for n in sorted(local_names & (set(attrs) | {n for n, _t in inputs})):
        new = n + "_arg" if n in {p for p, _ in params} else n + "_local"
        while new in every:
            new += "_"
        every.add(new)
        rename[n] = new
    params = [(rename.get(p_, p_), t) for p_, t in params] + inputs
    known_attrs = set(attrs) | {n for n, _t in inputs}
    missing = [b for b in base_attrs if b not in attrs]
    if missing:
        raise Unsupported(f"attribute(s) {missing} are left at None by `{spec['cls']}.__init__`", init, mod.src)

    class RnLocal(ast.NodeTransformer):
        def visit_Name(self, node):
            if node.id in rename:
                return ast.copy_location(ast.Name(id=rename[node.id], ctx=node.ctx), node)
            return node

    class Rn(ast.NodeTransformer):
        def visit_Attribute(self, node):
            at = _self_attr(node)
            if at is not None and at in known_attrs:
                return ast.copy_location(ast.Name(id=at, ctx=node.ctx), node)
            if at in ("_logger", "logger"):
                return node                      # receiver of a logging call (dropped with the call)
            if at is not None:
                # an attribute no path assigns: an AttributeError, or left behind by an untranslated base constructor;
                # an error as soon as it is evaluated (it may occur in dropped log messages)
                return ast.copy_location(ast.Name(id="__unassigned_attr_" + at, ctx=node.ctx), node)
            return self.generic_visit(node)

    body = [Rn().visit(RnLocal().visit(copy.deepcopy(st))) for st in init.body]
    last = init.body[-1]
    ret = ast.Return(value=ast.Call(func=ast.Name(id="__record__", ctx=ast.Load()),
                                    args=[ast.Name(id=at, ctx=ast.Load()) for at in attrs], keywords=[]))
    for n in ast.walk(ret):
        ast.copy_location(n, last)
        n.lineno = n.end_lineno = (getattr(last, "end_lineno", None) or last.lineno) + 1
    body.append(ret)
    doc = f"`{spec['cls']}.__init__` of {spec['file']}: the attributes it assigns, or the exception class it raises"
    if drop_super:
        doc += ("; `super().__init__(..)` is NOT translated: " + ", ".join(f"`self.{n}`" for n, _t in inputs)
                + " (left behind by it) " + ("are parameters" if len(inputs) != 1 else "is a parameter")
                + "".join(f", `{text}` is the parameter `{pname}` (its result or the exception it raises)"
                          for text, pname, _t in spec.get("externals", [])))
    tr = FnTranslator(mod, spec["cls"] + ".init", params, body, consts, doc=doc, super_ok=base is None)
    tr.record_name = spec["cls"]
    tr.base_info = base
    tr.super_any = drop_super
    lines = tr.translate()
    fields = tr.record_fields
    struct = [f"/-- the attributes of a `{spec['cls']}` ({spec['file']}) in the order of their first assignment"
              + (" (those of the base class first)" if base is not None else "") + " -/",
              f"structure {spec['cls']} where"]
    struct += [f"  {ident(n)} : {lean_ty(t)}" for n, t in fields]
    struct += ["  deriving Repr, DecidableEq", ""]
    if register:
        KNOWN_CLASSES[(mod.relpath[:-3].replace("/", "."), spec["cls"])] = dict(
            lean=spec["cls"] + ".init", record=spec["cls"], params=[t for _p, t in params], fields=fields)
    return struct + lines


# ------------------------------------------------------------------------------------------------ cell constructors
def _self_attr(node):
    if isinstance(node, ast.Attribute) and isinstance(node.value, ast.Name) and node.value.id == "self":
        return node.attr
    return None


def _targets(st):
    """assignment targets as ('self', attr) / ('local', name); None if a target has another form"""
    ts = st.targets if isinstance(st, ast.Assign) else [st.target]
    out = []
    for t in ts:
        a = _self_attr(t)
        if a is not None:
            out.append(("self", a))
        elif isinstance(t, ast.Name):
            out.append(("local", t.id))
        else:
            return None
    return out


def _reads(node):
    """variables read by an expression: ('self', attr) and ('local', name)"""
    out = set()
    skip = set()
    for x in ast.walk(node):
        a = _self_attr(x)
        if a is not None and isinstance(x.ctx, ast.Load):
            out.add(("self", a))
            skip.add(id(x.value))
        if isinstance(x, ast.Call) and isinstance(x.func, ast.Name):
            skip.add(id(x.func))      # the callee is not a variable of the slice (calls are whitelisted separately)
    for x in ast.walk(node):
        if isinstance(x, ast.Name) and isinstance(x.ctx, ast.Load) and id(x) not in skip:
            out.add(("local", x.id))
    return out


def _called(node):
    out = set()
    for x in ast.walk(node):
        if isinstance(x, ast.Call):
            f = x.func
            out.add(f.id if isinstance(f, ast.Name) else (f.attr if isinstance(f, ast.Attribute) else "?"))
    return out


class CellSlicer:
    def __init__(self, mod, cls):
        self.mod = mod
        self.cls = cls
        self.init = mod.method(cls, "__init__")

    def bad(self, msg, node):
        raise Unsupported(f"{self.cls}.__init__: {msg}", node, self.mod.src)

    def region(self):
        body = self.init.body
        start = end = None
        for i, st in enumerate(body):
            if start is None and isinstance(st, ast.Assign) and _targets(st) == [("self", "has_overflow")]:
                start = i
            if start is not None and isinstance(st, ast.If):
                tg = set()
                for x in ast.walk(st):
                    if isinstance(x, (ast.Assign, ast.AugAssign)):
                        tg |= set(_targets(x) or [])
                if ("self", "bytes_on_first_page") in tg:
                    end = i
                    break
        if start is None or end is None:
            self.bad("cannot locate the local-payload computation (first `self.has_overflow = ..` up to the `if` "
                     "assigning `self.bytes_on_first_page`)", self.init)
        return body[start:end + 1]

    def slice_stmts(self, stmts, relevant, reads):
        """keep what assigns a relevant variable, every raise, and the ifs around those"""
        kept = []
        for st in stmts:
            if isinstance(st, ast.Expr) and isinstance(st.value, ast.Constant) and isinstance(st.value.value, str):
                continue
            if isinstance(st, ast.Expr) and is_logging_call(st.value):
                continue
            if isinstance(st, (ast.Assign, ast.AugAssign)):
                tg = _targets(st)
                if tg is None:
                    self.bad("assignment target that is neither a name nor self.<attr>", st)
                hit = [t for t in tg if t in relevant]
                if hit:
                    if len(hit) != len(tg):
                        self.bad("assignment mixing sliced and unsliced targets", st)
                    kept.append(st)
                    reads |= _reads(st.value)
                    if isinstance(st, ast.AugAssign):
                        reads |= set(tg)
                else:
                    calls = _called(st.value) - SLICE_DROPPED_CALLS
                    if calls:
                        self.bad(f"statement outside the slice calls {sorted(calls)} (only "
                                 f"{sorted(SLICE_DROPPED_CALLS)} are known not to touch the sliced variables)", st)
                continue
            if isinstance(st, ast.If):
                b = self.slice_stmts(st.body, relevant, reads)
                o = self.slice_stmts(st.orelse, relevant, reads)
                if b or o:
                    if not b:
                        b = [ast.copy_location(ast.Pass(), st)]
                    n = ast.If(test=st.test, body=b, orelse=o)
                    ast.copy_location(n, st)
                    kept.append(n)
                    reads |= _reads(st.test)
                continue
            if isinstance(st, ast.Raise):
                kept.append(st)
                continue
            self.bad(f"statement {type(st).__name__} inside the local-payload region is outside the subset", st)
        return kept

    def sliced(self):
        region = self.region()
        relevant = {("self", s) for s in SLICE_SEEDS}
        while True:
            reads = set()
            kept = self.slice_stmts(region, relevant, reads)
            assigned = set()
            for st in kept:
                for x in ast.walk(st):
                    if isinstance(x, (ast.Assign, ast.AugAssign)):
                        assigned |= set(_targets(x))
            new = {r for r in reads if r not in relevant}
            # a variable that is read but assigned nowhere in the region is an input, not a sliced variable
            grow = set()
            for r in new:
                for st in region:
                    for x in ast.walk(st):
                        if isinstance(x, (ast.Assign, ast.AugAssign)) and r in (_targets(x) or []):
                            grow.add(r)
            if not grow:
                break
            relevant |= grow
        inputs = sorted(r for r in reads if r not in assigned)
        want = sorted(("self", a) for a in SLICE_INPUTS)
        if inputs != want:
            self.bad(f"the local-payload computation reads {inputs} from outside, expected exactly {want}", self.init)
        return kept, relevant

    def function(self, lean_name, consts):
        kept, relevant = self.sliced()
        locals_ = {n for k_, n in relevant if k_ == "local"}
        attrs = {n for k_, n in relevant if k_ == "self"} | set(SLICE_INPUTS)
        clash = locals_ & ({SLICE_INPUTS.get(a, a) for a in attrs})
        if clash:
            self.bad(f"local variable(s) {sorted(clash)} collide with attribute names of the slice", self.init)

        class Rn(ast.NodeTransformer):
            def visit_Attribute(self, node):
                a = _self_attr(node)
                if a is not None:
                    n = ast.Name(id=SLICE_INPUTS.get(a, a), ctx=node.ctx)
                    return ast.copy_location(n, node)
                return self.generic_visit(node)

        import copy
        body = [Rn().visit(copy.deepcopy(st)) for st in kept]
        ret = ast.Return(value=ast.Tuple(elts=[ast.Name(id=s, ctx=ast.Load()) for s in SLICE_SEEDS], ctx=ast.Load()))
        for n in ast.walk(ret):
            ast.copy_location(n, kept[-1])
            n.lineno = getattr(kept[-1], "end_lineno", kept[-1].lineno)
        body.append(ret)
        params = [(SLICE_INPUTS[a], "int") for a in sorted(SLICE_INPUTS)]
        tr = FnTranslator(self.mod, lean_name, params, body, consts,
                          doc=f"local-payload arithmetic of `{self.cls}.__init__` ({self.mod.relpath}): "
                              f"(bytes_on_first_page, has_overflow) from (page_size, payload_byte_size)")
        return tr.translate()


# ------------------------------------------------------------------------------------------------ rendering
def header(namespace, sources):
    return [
        f"/- GENERATED by harness/translate/pyfun.py from {sources}",
        "   — do not edit.  Meaning of the `py*` operations: PyPrelude.lean. -/",
        "import SqliteDissect.Py",
        "import SqliteDissect.Bytes",
        "import SqliteDissect.Generated.Constants",
        "import SqliteDissect.PyPrelude",
        "",
        "set_option linter.unusedVariables false",
        "",
        f"namespace SqliteDissect.Generated.{namespace}",
        "open SqliteDissect",
        "",
    ]


def failing(name, message):
    """a declaration that cannot be elaborated; the reason is in the goal Lean prints (and contains the word `error`
    so that the harness' one-line digest of the build log shows it)"""
    msg = message.replace("\n", " ")
    return [f"-- translator: `{name}` could not be produced: {msg.replace('-/', '- /')}",
            f"example : TranslatorFailed {json.dumps('translator error: ' + name + ': ' + msg, ensure_ascii=True)} := "
            f"by assumption", ""]


def _each(items, name_of, file_of, fn, failures, lines):
    for spec in items:
        nm = name_of(spec)
        try:
            lines += fn(spec) + [""]
        except Unsupported as e:
            m = e.text(file_of(spec))
            failures.append(f"{nm}: {m}")
            lines += failing(nm, m)
        except (OSError, SyntaxError) as e:
            failures.append(f"{nm}: {file_of(spec)}: {e}")
            lines += failing(nm, f"{file_of(spec)}: {e}")


def render(repo=None):
    """({file: text}, list of failure messages)"""
    repo = repo or os.environ.get("VERIF_REPO", "/repo")
    failures = []
    try:
        consts = _consts(repo)
    except Exception as e:  # constants.py unreadable: nothing can be translated
        consts = {}
        failures.append(f"constants: {e}")
    lines = header("PyFun", "sqlite_dissect/utilities.py, sqlite_dissect/carving/utilities.py\n"
                            "   and sqlite_dissect/file/database/page.py")
    _each(FUNCTIONS, lambda sp: sp["name"], lambda sp: sp["file"], lambda sp: translate_function(sp, repo, consts),
          failures, lines)
    _each(CELLS, lambda sp: sp["lean"], lambda sp: sp["file"],
          lambda sp: CellSlicer(Module(sp["file"], repo), sp["cls"]).function(sp["lean"], consts), failures, lines)
    lines += ["end SqliteDissect.Generated.PyFun", ""]
    hlines = header("PyHeader", "sqlite_dissect/file/database/header.py, sqlite_dissect/file/wal/header.py\n"
                                "   and sqlite_dissect/file/journal/header.py")
    _each(CLASSES, lambda sp: sp["cls"], lambda sp: sp["file"], lambda sp: translate_class(sp, repo, consts),
          failures, hlines)
    hlines += ["end SqliteDissect.Generated.PyHeader", ""]
    plines = header("PyPage", "sqlite_dissect/file/database/header.py (b-tree page headers)\n"
                              "   and sqlite_dissect/file/wal_index/header.py")
    KNOWN_CLASSES.clear()
    _each(PAGE_CLASSES, lambda sp: sp["cls"], lambda sp: sp["file"],
          lambda sp: translate_class(sp, repo, consts, register=True), failures, plines)
    KNOWN_CLASSES.clear()
    plines += ["end SqliteDissect.Generated.PyPage", ""]
    return {OUT: "\n".join(lines), OUT_HEADER: "\n".join(hlines), OUT_PAGE: "\n".join(plines)}, failures


ENUM_GETATTR = "Return(value=Subscript(value=Attribute(value=Name(id='self'), attr='_store'), slice=Name(id='key')))"
ENUM_LIST_INIT = ("Assign(targets=[Attribute(value=Name(id='self'), attr='_store')], value=DictComp(key=Name(id='value'), "
                  "value=Name(id='value'), generators=[comprehension(target=Name(id='value'), iter=Name(id='data'), "
                  "is_async=0)]))")


def _dump(node):
    return re.sub(r", \w+=\[\]", "", re.sub(r", ctx=(Load|Store)\(\)", "", ast.dump(node)))


def _enums(repo):
    """`X = Enum(["A", "B"])` tables of constants.py: {X: {member: the string `X.member` evaluates to}}.  Only when the
    `Enum` class of that file still answers `X.A` with `self._store["A"]` and builds `_store` from a list as
    `{value: value}` (the reading of the class that is trusted here); otherwise no enumeration is known and every use
    is outside the subset."""
    src = open(os.path.join(repo, "sqlite_dissect", "constants.py"), encoding="utf-8").read()
    tree = ast.parse(src)
    cls = [n for n in tree.body if isinstance(n, ast.ClassDef) and n.name == "Enum"]
    if len(cls) != 1:
        return {}
    meth = {n.name: n for n in cls[0].body if isinstance(n, ast.FunctionDef)}
    ga, init = meth.get("__getattr__"), meth.get("__init__")
    if ga is None or init is None or len(ga.body) != 1 or _dump(ga.body[0]) != ENUM_GETATTR:
        return {}
    first = init.body[0] if init.body else None
    if not (isinstance(first, ast.If) and _dump(first.test) == "Call(func=Name(id='isinstance'), args=[Name(id='data'), "
            "Name(id='list')])" and len(first.body) == 1 and _dump(first.body[0]) == ENUM_LIST_INIT):
        return {}
    if any(n in meth for n in ("__getattribute__", "__new__")):
        return {}
    out = {}
    assigned = {}
    for st in tree.body:
        if isinstance(st, ast.Assign):
            for t in st.targets:
                for x in ast.walk(t):
                    if isinstance(x, ast.Name):
                        assigned[x.id] = assigned.get(x.id, 0) + 1
    for st in tree.body:
        if (isinstance(st, ast.Assign) and len(st.targets) == 1 and isinstance(st.targets[0], ast.Name)
                and isinstance(st.value, ast.Call) and isinstance(st.value.func, ast.Name)
                and st.value.func.id == "Enum" and len(st.value.args) == 1 and not st.value.keywords
                and isinstance(st.value.args[0], ast.List) and assigned.get(st.targets[0].id) == 1
                and all(isinstance(e, ast.Constant) and isinstance(e.value, str) for e in st.value.args[0].elts)):
            out[st.targets[0].id] = {e.value: e.value for e in st.value.args[0].elts}
    return out


def _consts(repo):
    old = tr_constants.REPO
    tr_constants.REPO = repo
    try:
        env = tr_constants.extract()
    finally:
        tr_constants.REPO = old
    env["__enums__"] = _enums(repo)
    return env


def regenerate():
    texts, failures = render()
    for f in failures:
        print(f"[translate.pyfun] generated model could not be produced: {f}", file=sys.stderr, flush=True)
    changed = False
    for path, text in texts.items():
        old = open(path, encoding="utf-8").read() if os.path.exists(path) else None
        if old != text:
            os.makedirs(os.path.dirname(path), exist_ok=True)
            with open(path, "w", encoding="utf-8") as fh:
                fh.write(text)
            changed = True
    return changed


# ------------------------------------------------------------------------------------------------ self test
def _py_sliced_function(spec, repo, consts):
    """the sliced statements of a cell constructor compiled as a Python function (page_size, payload_byte_size)"""
    import copy
    mod = Module(spec["file"], repo)
    sl = CellSlicer(mod, spec["cls"])
    kept, _rel = sl.sliced()

    class Rn(ast.NodeTransformer):
        def visit_Attribute(self, node):
            a = _self_attr(node)
            if a is not None:
                return ast.copy_location(ast.Name(id=SLICE_INPUTS.get(a, a), ctx=node.ctx), node)
            return self.generic_visit(node)

        def visit_Raise(self, node):   # the message was built by dropped statements
            cls = node.exc.func if isinstance(node.exc, ast.Call) else node.exc
            return ast.copy_location(ast.Raise(exc=ast.Call(func=cls, args=[], keywords=[]), cause=None), node)

    body = [Rn().visit(copy.deepcopy(st)) for st in kept]
    body.append(ast.Return(value=ast.Tuple(elts=[ast.Name(id=s_, ctx=ast.Load()) for s_ in SLICE_SEEDS],
                                           ctx=ast.Load())))
    fn = ast.FunctionDef(name="f", args=ast.arguments(posonlyargs=[], args=[ast.arg(arg=SLICE_INPUTS[a]) for a in
                                                                             sorted(SLICE_INPUTS)],
                                                      kwonlyargs=[], kw_defaults=[], defaults=[]),
                         body=body, decorator_list=[], type_params=[])
    m = ast.Module(body=[fn], type_ignores=[])
    ast.fix_missing_locations(m)
    import importlib
    if repo not in sys.path:
        sys.path.insert(0, repo)
    exc = importlib.import_module("sqlite_dissect.exception")
    g = {"CellParsingError": exc.CellParsingError}
    g.update({k: v for k, v in vars(exc).items() if isinstance(v, type)})
    exec(compile(m, "<slice>", "exec"), g)
    return g["f"]


def selftest(seed=0, verbose=True):
    """Run the prelude operations and every generated function next to the interpreter on a grid of inputs.
    Not part of the proof: it validates the two things the equality theorems cannot see (the prelude's reading of
    Python and the translator's emission).  Returns the number of differences."""
    import importlib
    import random
    import logging
    repo = os.environ.get("VERIF_REPO", "/repo")
    if repo not in sys.path:
        sys.path.insert(0, repo)
    logging.getLogger("sqlite_dissect").setLevel(logging.CRITICAL + 1)
    from ..impl.canon import classify
    U = importlib.import_module("sqlite_dissect.utilities")
    CU = importlib.import_module("sqlite_dissect.carving.utilities")
    rng = random.Random(seed)
    lean, want = [], []

    def E(f):
        try:
            return "ok " + f()
        except Exception as e:  # noqa
            return "err " + classify(e)

    def L(l):
        return "[" + ", ".join(str(x) for x in l) + "]"

    def I(i):
        return f"({i} : Int)"

    def add(lean_expr, py_result):
        lean.append(f"  IO.println ({lean_expr})")
        want.append(py_result)

    # --- prelude: integer operations
    grid = list(range(-9, 10)) + [127, 128, 255, 256, -128, -129, -256, 2**63 - 1, 2**63, -2**63, 2**64, -2**64 - 1,
                                  rng.getrandbits(70), -rng.getrandbits(70)]
    for a in grid:
        for b in grid:
            add(f"sI (pyAnd {I(a)} {I(b)}) ++ \" \" ++ sI (pyOr {I(a)} {I(b)}) ++ \" \" ++ sP sI (pyFloorDiv {I(a)} {I(b)})"
                f" ++ \" \" ++ sP sI (pyMod {I(a)} {I(b)}) ++ \" \" ++ sP sI ((pyTrueDiv {I(a)} {I(b)}).map pyIntOfRat)",
                f"{a & b} {a | b} " + E(lambda: str(a // b)) + " " + E(lambda: str(a % b)) + " "
                + E(lambda: str(int(__import__('fractions').Fraction(a, b).__trunc__()))))
        for k in (-2, -1, 0, 1, 7, 8, 64):
            add(f"sP sI (pyShl {I(a)} {I(k)}) ++ \" \" ++ sP sI (pyShr {I(a)} {I(k)})",
                E(lambda: str(a << k)) + " " + E(lambda: str(a >> k)))
        add(f"String.ofList (pyStrInt {I(a)})", str(a))
    # --- prelude: slices
    for n in range(0, 4):
        b = bytes(rng.randrange(256) for _ in range(n))
        for lo in range(-5, 6):
            for hi in range(-5, 6):
                add(f"sP sI (pyOrdSlice (Buf.ofList {L(b)}) {I(lo)} {I(hi)})", E(lambda: str(ord(b[lo:hi]))))
    for s_ in ["00", "0a", "0A", "ff", "0", "0g", "-1", "010", "0102", ""]:
        chars = "[" + ", ".join(f"'{c}'" for c in s_) + "]"
        add(f"sP sL (pyUnhexlify ({chars} : List Char))", E(lambda: L(__import__('binascii').unhexlify(s_))))
    # --- generated functions
    fuel = 100
    bufs = [bytes([a]) for a in range(0, 256, 17)] + [bytes([a, b]) for a in (0x80, 0x81, 0xFF, 0x7F) for b in
                                                      (0, 1, 0x7F, 0x80, 0xFF)]
    for _ in range(40):
        n = rng.choice([0, 1, 2, 3, 8, 9, 10, 12])
        bufs.append(bytes(rng.choice([rng.randrange(256), 0x80 | rng.randrange(128)]) for _ in range(n)))
    bufs.append(b"\xff" * 9)
    bufs.append(b"\xff" * 12)
    bufs.append(b"\x80" * 8 + b"\x01")
    for b in bufs:
        for off in (0, 1, 2, len(b), len(b) + 1, -1, -2, -len(b) - 1):
            add(f"sP (fun (a, b) => sI a ++ \" \" ++ sI b) (decode_varint (Buf.ofList {L(b)}) {I(off)})",
                E(lambda: "%d %d" % U.decode_varint(b, off)))
            for mx in (9, 5, 0):
                def rev():
                    r = CU.decode_varint_in_reverse(bytearray(b), off, mx)
                    return "%d %d" % r
                add(f"sP (fun (a, b) => sI a ++ \" \" ++ sI b) (decode_varint_in_reverse {fuel} (Buf.ofList {L(b)}) "
                    f"{I(off)} {I(mx)})", E(rev))
    ints = list(range(-5, 40)) + [2**k + d for k in (6, 7, 8, 13, 14, 20, 21, 27, 28, 31, 32, 35, 42, 49, 55, 56, 57, 62,
                                                      63, 64) for d in (-1, 0, 1)]
    ints += [-x for x in ints] + [rng.getrandbits(64) - 2**63 for _ in range(50)]
    for v in ints:
        add(f"sP sL (encode_varint {fuel} {I(v)})", E(lambda: L(U.encode_varint(v))))
        add(f"sP sI (get_serial_type_signature {I(v)})", E(lambda: str(U.get_serial_type_signature(v))))

        def size():
            r = CU.get_content_size(v)
            if isinstance(r, float):
                if r != int(r):
                    raise RuntimeError("non-integral float")
                r = int(r)
            return str(r)
        if abs(v) < 2 ** 53:   # beyond that the float quotient is rounded (the trusted exactness assumption)
            add(f"sP sI (get_content_size {I(v)})", E(size))
        add(f"sP sL (generate_regex_for_simplified_serial_type {I(v)})",
            E(lambda: L(CU.generate_regex_for_simplified_serial_type(v))))
    for ps in (-3, 0, 1, 3, 4, 5, 6, 7, 12, 100, 512, 1024, 4096, 65536):
        for n in (-5, -1, 0, 1, 2, 3, 4, 5, 507, 508, 509, 1016, 1017, 4091, 4092, 4093, 10**6, 2**40 + 3):
            add(f"sP (fun (a, b) => sI a ++ \" \" ++ sI b) (calculate_expected_overflow {I(n)} {I(ps)})",
                E(lambda: "%d %d" % U.calculate_expected_overflow(n, ps)))
    # --- get_record_content / calculate_body_content_size
    import struct
    import warnings
    warnings.simplefilter("ignore")

    def show_val(v):
        if v is None:
            return "none"
        if isinstance(v, bool):
            raise RuntimeError("bool")
        if isinstance(v, int):
            return f"int:{v}"
        if isinstance(v, float):
            return "f64:%d" % struct.unpack(">Q", struct.pack(">d", v))[0]
        return "bytes:" + L(bytes(v))

    bodies = [b"", b"\x80", b"\xff\x7f", b"\x80\x00\x00", b"\x7f\xff\xff\xff", b"\xff" * 6, b"\x80" + b"\x00" * 7,
              bytes(range(1, 12)), b"\x40\x09\x21\xfb\x54\x44\x2d\x18", b"\x7f\xf8" + b"\x00" * 6]
    bodies += [bytes(rng.randrange(256) for _ in range(rng.choice([1, 2, 3, 4, 6, 8, 9, 16]))) for _ in range(12)]
    for st in list(range(-2, 30)) + [101, 102, 1000, 1001]:
        for body in bodies:
            for off in (0, 1, 3, len(body), -1, -3):
                add(f"sP (fun (a, v) => sI a ++ \" \" ++ sV v) (get_record_content {I(st)} (Buf.ofList {L(body)}) {I(off)})",
                    E(lambda: (lambda r: "%d %s" % (r[0], show_val(r[1])))(U.get_record_content(st, body, off))))
    hdrs = [b"", b"\x00", b"\x01\x02\x0c\x0d\x17", b"\x81", b"\x81\x00\x0a", b"\x0a", b"\xff" * 9 + b"\x01", b"\x0c" * 20,
            b"\x80\x80\x80"]
    hdrs += [bytes(rng.choice([rng.randrange(128), rng.randrange(256)]) for _ in range(rng.randrange(1, 12)))
             for _ in range(40)]
    for hb in hdrs:
        for fl in (len(hb) + 1, len(hb)):

            def cbcs():
                r = CU.calculate_body_content_size(hb)
                if isinstance(r, float):
                    if r != int(r):
                        raise RuntimeError("non-integral float")
                    r = int(r)
                return str(r)
            if fl == len(hb) + 1:
                add(f"sP sI (calculate_body_content_size {fl} (Buf.ofList {L(hb)}))", E(cbcs))
    # --- header constructors
    DH = importlib.import_module("sqlite_dissect.file.database.header")
    WH = importlib.import_module("sqlite_dissect.file.wal.header")
    JH = importlib.import_module("sqlite_dissect.file.journal.header")

    def fields(obj, names):
        out = []
        for n in names:
            v = getattr(obj, n)
            out.append(L(bytes(v)) if isinstance(v, (bytes, bytearray)) else str(v))
        return " ".join(out)

    def valid_db_header():
        import sqlite3
        import tempfile
        d = tempfile.mkdtemp()
        pth = os.path.join(d, "t.db")
        c = sqlite3.connect(pth)
        c.execute("create table t(a)")
        c.commit()
        c.close()
        return open(pth, "rb").read(100)

    base = valid_db_header()
    dbs = [base, b"", base[:99], base + b"\x00"]
    for pos, vals in [(0, [0]), (16, [0, 1, 2, 3, 0x80]), (17, [1, 0xFF]), (18, [0, 3]), (19, [0, 3]), (20, [1]), (21, [0]),
                      (22, [0]), (23, [0]), (47, [0, 5]), (59, [0, 4]), (55, [0, 1]), (67, [1]), (72, [1]), (91, [9]),
                      (31, [7]), (95, [3])]:
        for v in vals:
            h = bytearray(base)
            h[pos] = v
            dbs.append(bytes(h))
    h = bytearray(base); h[16:18] = b"\x00\x01"; dbs.append(bytes(h))
    h = bytearray(base); h[44:48] = b"\0" * 4; h[56:60] = b"\0" * 4; dbs.append(bytes(h))
    h = bytearray(base); h[52:56] = b"\0" * 4; h[64:68] = b"\0\0\0\1"; dbs.append(bytes(h))
    for _ in range(25):
        h = bytearray(base)
        for _k in range(rng.randrange(1, 3)):
            h[rng.randrange(100)] = rng.randrange(256)
        dbs.append(bytes(h))
    specs_by_cls = {}
    texts, _f = render(repo)
    for cls, names_re in [("DatabaseHeader", None), ("WriteAheadLogHeader", None), ("WriteAheadLogFrameHeader", None),
                          ("RollbackJournalHeader", None)]:
        m = re.search(r"structure %s where\n((?:  \S+ : .*\n)+)" % cls, texts[OUT_HEADER])
        specs_by_cls[cls] = [ln.split(":")[0].strip() for ln in m.group(1).strip().split("\n")]

    def lean_show(cls):
        names = [n for n in specs_by_cls[cls] if n != "md5_hex_digest"]
        parts = []
        for n in names:
            parts.append(f"sF r.{ident(n)}")
        return "(fun r => " + " ++ \" \" ++ ".join(parts) + ")"

    def run_cls(cls, pyc, data):
        names = [n for n in specs_by_cls[cls] if n != "md5_hex_digest"]
        add(f"sP {lean_show(cls)} (PyHeader.{cls}.init (Buf.ofList {L(data)}))", E(lambda: fields(pyc(data), names)))

    for d_ in dbs:
        run_cls("DatabaseHeader", DH.DatabaseHeader, d_)
    walh = struct.pack(">8I", 0x377F0682, 3007000, 4096, 0, 1, 2, 3, 4)
    wals = [walh, b"", walh[:31], walh + b"\0", struct.pack(">8I", 0x377F0683, 3007000, 512, 7, 1, 2, 3, 4),
            struct.pack(">8I", 0x377F0684, 3007000, 512, 7, 1, 2, 3, 4), struct.pack(">8I", 0x377F0682, 3007001, 512, 0, 1, 2, 3, 4)]
    wals += [bytes(rng.randrange(256) for _ in range(32)) for _ in range(5)]
    for d_ in wals:
        run_cls("WriteAheadLogHeader", WH.WriteAheadLogHeader, d_)
    frs = [struct.pack(">6I", 5, 9, 1, 2, 3, 4), b"", b"\0" * 23, b"\xff" * 24, b"\0" * 25]
    frs += [bytes(rng.randrange(256) for _ in range(24)) for _ in range(5)]
    for d_ in frs:
        run_cls("WriteAheadLogFrameHeader", WH.WriteAheadLogFrameHeader, d_)
    jh = bytes([0xD9, 0xD5, 0x05, 0xF9, 0x20, 0xA1, 0x63, 0xD7]) + struct.pack(">5I", 3, 77, 10, 512, 1024)
    jhs = [jh, b"", jh[:27], jh + b"\0", jh[:8] + b"\xff" * 4 + jh[12:], b"\0" * 8 + jh[8:]]
    jhs += [bytes(rng.randrange(256) for _ in range(28)) for _ in range(5)]
    for d_ in jhs:
        run_cls("RollbackJournalHeader", JH.RollbackJournalHeader, d_)
    # --- prelude: little-endian unpack, list index
    for data in [b"", b"\x01", b"\x01\x02", b"\xff\x7f", b"\x00\x80", b"\x01\x02\x03", b"\x01\x02\x03\x04",
                 b"\xff\xff\xff\x7f", b"\x00\x00\x00\x80", b"\x98\xe2\x2d\x00", b"\x01\x02\x03\x04\x05"]:
        for fmt, (sg, n) in sorted(UNPACK_FORMATS_LE.items()):
            if n <= 4:
                add(f"sP sI (pyUnpackLE {'true' if sg else 'false'} {n} {L(data)})",
                    E(lambda: str(struct.unpack(fmt, data)[0])))
    for l_ in ([], [5], [5, 6]):
        for k_ in (0, 1, 2):
            add(f"sP sI (pyListGet ({L(l_)} : List Int) {k_})", E(lambda: str(l_[k_])))
    # --- b-tree page header and WAL-index header constructors (Generated/PyPage.lean); md5 is the identity on both
    #     sides here, so that what is hashed is compared too
    WIH = importlib.import_module("sqlite_dissect.file.wal_index.header")
    page_structs = {}
    for m in re.finditer(r"structure (\w+) where\n((?:  \S+ : .*\n)+)", texts[OUT_PAGE]):
        page_structs[m.group(1)] = [(ln.split(" : ")[0].strip(), ln.split(" : ")[1].strip())
                                    for ln in m.group(2).strip().split("\n")]

    def py_show(v):
        if v is None:
            return "None"
        if isinstance(v, bool):
            return "True" if v else "False"
        if isinstance(v, (bytes, bytearray)):
            return L(bytes(v))
        if isinstance(v, (int, str)):
            return str(v)
        if isinstance(v, list) and all(isinstance(x, int) for x in v):
            return L(v)
        if isinstance(v, list):
            return "[" + "; ".join(py_show(x) for x in v) + "]"
        return "{" + " ".join(py_show(getattr(v, n)) for n, _t in page_structs[type(v).__name__]) + "}"

    inst = []
    for cls, flds in page_structs.items():
        inst.append(f"instance : SF PyPage.{cls} := ⟨fun r => \"{{\" ++ " + " ++ \" \" ++ ".join(
            f"sF r.{ident(n)}" for n, _t in flds) + " ++ \"}\"⟩")
        inst.append(f"instance : SF (List PyPage.{cls}) := ⟨fun l => \"[\" ++ \"; \".intercalate (l.map sF) ++ \"]\"⟩")

    def run_page(cls, pyc, lean_args, py_args):
        add(f"sP sF (PyPage.{cls}.init {lean_args})", E(lambda: py_show(pyc(*py_args))))

    def B(d):
        return f"(Buf.ofList {L(d)})"

    def S(x):
        return "([" + ", ".join(f"'{c}'" for c in x) + "] : List Char)"

    saved_md5 = (DH.get_md5_hash, WIH.get_md5_hash)
    DH.get_md5_hash = WIH.get_md5_hash = lambda b: bytes(b)
    try:
        hdr8 = bytes([0x0D, 0, 0, 0, 3, 0x0F, 0xF0, 2])
        pages = [b"", b"\x53", b"\x0d", b"\x05", hdr8[:7], hdr8, hdr8 + b"\x09", hdr8 + b"\0\0\1", hdr8 + b"\0\0\1\7",
                 hdr8 + b"\0\0\1\7\xaa", bytes([0x0D, 0xFF, 0xFF, 0xFF, 0xFF, 0, 0, 0xFF]),
                 bytes([0x05, 0, 0, 0, 1, 0, 0, 0, 0xFF, 0xFF, 0xFF, 0xFF]), b"\x53" * 3, b"\x53" + hdr8]
        for tail in (b"", hdr8[:1], hdr8[:3], hdr8[:7], hdr8, hdr8 + b"\0\0\1", hdr8 + b"\0\0\1\7", hdr8 + b"\0\0\1\7\xbb",
                     bytes([0x05, 0, 0, 0, 0, 0, 0, 0, 0x12, 0x34, 0x56, 0x78, 1, 2])):
            pages.append(base + tail)
            pages.append(base[:99] + tail)
        pages += [bytes(rng.choice([0x53, 0x0D, 0x05, rng.randrange(256)]) for _ in range(n_))
                  for n_ in (1, 2, 8, 12, 13, 101, 108, 112, 120) for _ in range(2)]
        for pg in pages:
            for hl in (8, 12, 0, -1, 104):
                run_page("BTreePageHeader", DH.BTreePageHeader, f"{B(pg)} {I(hl)}", (pg, hl))
            run_page("LeafPageHeader", DH.LeafPageHeader, B(pg), (pg,))
            run_page("InteriorPageHeader", DH.InteriorPageHeader, B(pg), (pg,))
        sub = struct.pack("<IIIBBHIIIIIIII", 3007000, 0, 7, 1, 0, 4096, 12, 5, 1, 2, 3, 4, 5, 6)
        subs = [sub, b"", sub[:47], sub + b"\0", struct.pack(">I", 3007000) + sub[4:], b"\0" * 48, b"\xff" * 48,
                struct.pack("<I", 3007001) + sub[4:]]
        subs += [sub[:4] + bytes(rng.randrange(256) for _ in range(44)) for _ in range(4)]
        for d_ in subs:
            for ix in (0, 1, 2, 3, -1):
                run_page("WriteAheadLogIndexSubHeader", WIH.WriteAheadLogIndexSubHeader, f"{I(ix)} {B(d_)}", (ix, d_))
        ck = struct.pack("<6I", 9, 0, 0xFFFFFFFF, 3, 4, 0x80000000)
        cks = [ck, b"", ck[:23], ck + b"\0", b"\xff" * 24] + [bytes(rng.randrange(256) for _ in range(24)) for _ in range(4)]
        for d_ in cks:
            for en in ("LITTLE_ENDIAN", "BIG_ENDIAN", ""):
                run_page("WriteAheadLogIndexCheckpointInfo", WIH.WriteAheadLogIndexCheckpointInfo, f"{B(d_)} {S(en)}",
                         (d_, en))
        whole = sub + sub + ck + bytes(range(16))
        sub_be = struct.pack(">I", 3007000) + sub[4:]
        wholes = [whole, b"", whole[:135], whole + b"\0", sub_be + sub + ck + b"\0" * 16, sub + sub_be + ck + b"\0" * 16,
                  b"\0" * 48 + whole[48:], sub + b"\0" * 48 + whole[96:], sub + sub[:4] + b"\x11" * 44 + ck + b"\x22" * 16]
        wholes += [sub + sub[:4] + bytes(rng.randrange(256) for _ in range(132 - 48)) for _ in range(3)]
        wholes += [bytes(rng.randrange(256) for _ in range(136))]
        for d_ in wholes:
            run_page("WriteAheadLogIndexHeader", WIH.WriteAheadLogIndexHeader, B(d_), (d_,))
        # OverflowPage: the real constructor on a stub version interface; `self.size` and the outcome of
        # `get_page_data` are the parameters of the generated function
        PG = importlib.import_module("sqlite_dissect.file.database.page")
        from ..impl.stubs import StubVersion
        saved_pg_md5 = PG.get_md5_hash
        PG.get_md5_hash = lambda b: bytes(b)
        try:
            for ps_, content in [(8, b"\0\0\0\0abcd"), (8, b"\0\0\0\7abcd"), (16, b"\0\0\1\0" + b"x" * 12), (8, b"\0\0\0"),
                                 (8, b""), (8, None), (12, b"\xff\xff\xff\xff" + b"y" * 8)]:
                for rem in (-1, 0, 1, ps_ - 5, ps_ - 4, ps_ - 3, ps_, 1000):
                    stub = StubVersion(ps_, pages=({7: content} if content is not None else {}))
                    data_arg = ("(.ok " + B(content) + ")") if content is not None else "(.error .valueError)"

                    def mk(stub=stub, rem=rem):
                        o = PG.OverflowPage(stub, 7, 3, 5, 2, rem)
                        assert o.size == stub.page_size
                        return o
                    add(f"sP sF (PyPage.OverflowPage.init 3 5 2 {I(rem)} {data_arg} {I(ps_)})", E(lambda: py_show(mk())))
        finally:
            PG.get_md5_hash = saved_pg_md5
    finally:
        DH.get_md5_hash, WIH.get_md5_hash = saved_md5
    consts = _consts(repo)
    for spec in CELLS:
        f = _py_sliced_function(spec, repo, consts)
        for u in (-20, 0, 1, 3, 4, 5, 12, 13, 50, 100, 195, 196, 197, 255, 267, 512, 1024, 4096, 32768, 65536):
            ps = {0, 1, u - 36, u - 35, u - 34, u, 2 * u, 10 * u + 7, 10**7, -3}
            ps |= {((u - 12) * 64) // 255 - 23 + d for d in (-1, 0, 1, 2)}
            ps |= {rng.randrange(0, 8 * abs(u) + 10) for _ in range(12)}
            for p in sorted(ps):
                add(f"sP (fun (a, b) => sI a ++ \" \" ++ toString b) ({spec['lean']} {I(u)} {I(p)})",
                    E(lambda: "%d %s" % ((lambda r: (r[0], "true" if r[1] else "false"))(f(u, p)))))
    src = "\n".join([
        "import SqliteDissect.Generated.PyFun",
        "import SqliteDissect.Generated.PyHeader",
        "import SqliteDissect.Generated.PyPage",
        "open SqliteDissect SqliteDissect.Generated SqliteDissect.Generated.PyFun",
        "def sI (i : Int) : String := toString i",
        "def sL (l : List Nat) : String := \"[\" ++ \", \".intercalate (l.map toString) ++ \"]\"",
        "def sV : PyVal → String",
        "  | .none => \"none\"",
        "  | .int i => \"int:\" ++ toString i",
        "  | .float64 b => \"f64:\" ++ toString b",
        "  | .bytes l => \"bytes:\" ++ sL l",
        "class SF (α : Type) where sF : α → String",
        "instance : SF Int := ⟨sI⟩",
        "instance : SF (List Nat) := ⟨sL⟩",
        "instance : SF Bool := ⟨fun b => if b then \"True\" else \"False\"⟩",
        "instance : SF (List Char) := ⟨String.ofList⟩",
        "instance : SF (List Int) := ⟨fun l => \"[\" ++ \", \".intercalate (l.map toString) ++ \"]\"⟩",
        "instance : SF (Option (List Nat)) := ⟨fun o => match o with | none => \"None\" | some l => sL l⟩",
        "def sF {α : Type} [SF α] (a : α) : String := SF.sF a",
    ] + inst + [
        "def sP {α : Type} (f : α → String) : Py α → String",
        "  | .ok a => \"ok \" ++ f a",
        "  | .error e => \"err \" ++ e.name",
    ] + [ln for k in range(0, len(lean), 100) for ln in [f"def part{k // 100} : IO Unit := do"] + lean[k:k + 100]]
      + ["def main : IO Unit := do"] + [f"  part{k // 100}" for k in range(0, len(lean), 100)]) + "\n"
    tmp = os.path.join(LEAN, ".lake", f"pyfun_selftest_{os.getpid()}.lean")
    os.makedirs(os.path.dirname(tmp), exist_ok=True)
    with open(tmp, "w", encoding="utf-8") as fh:
        fh.write(src)
    try:
        subprocess.run(["lake", "build", "SqliteDissect.Generated.PyFun", "SqliteDissect.Generated.PyHeader",
                        "SqliteDissect.Generated.PyPage"], cwd=LEAN,
                       check=True,
                       stdout=subprocess.PIPE, stderr=subprocess.STDOUT)
        p = subprocess.run(["lake", "env", "lean", "--run", tmp], cwd=LEAN, stdout=subprocess.PIPE,
                           stderr=subprocess.STDOUT, text=True, timeout=3600)
    finally:
        try:
            os.unlink(tmp)
        except OSError:
            pass
    got = p.stdout.split("\n")
    if got and got[-1] == "":
        got.pop()
    bad = 0
    if len(got) != len(want):
        print(f"selftest: {len(got)} lines from Lean, {len(want)} expected; tail: {got[-5:]}")
        bad += 1
    for i, (g, w) in enumerate(zip(got, want)):
        if g != w:
            bad += 1
            if verbose and bad <= 20:
                print(f"selftest DIFFERENCE at {lean[i].strip()}\n   lean:   {g}\n   python: {w}")
    print(f"selftest: {len(want)} evaluations, {bad} differences")
    return bad


if __name__ == "__main__":
    if "--selftest" in sys.argv:
        sys.exit(1 if selftest() else 0)
    elif "--print" in sys.argv:
        ts, fs = render()
        for t in ts.values():
            sys.stdout.write(t)
        for f in fs:
            print("FAILED:", f, file=sys.stderr)
    else:
        print(regenerate())
