"""Translator 3: small pure Python functions -> lean/SqliteDissect/Generated/PyFun.lean

The functions at the bottom of the parsers (varint codec, serial-type sizes, the local-payload arithmetic of the
three payload-bearing cell constructors, the overflow closed form, the per-column regex table) are re-translated
from the *current* source on every run.  `Properties/GenFun.lean` proves each generated function equal to the
hand-written model function the property theorems are about, so a semantic change of the source breaks a proof
obligation on the next run.

Subset (whitelist).  Statements: assignment to a name, augmented assignment, if/elif/else, `while` (fuelled),
`for v in range(..)`, break, continue, return, raise of a project exception class / ValueError / TypeError, pass,
`bytearray.insert(0, e)`; logging calls, docstrings and assignments of message strings / `.format(..)` are dropped as
effect-free.  Expressions: integer literals, names, imported integer constants, + - * // % / (float as exact
fraction, only under int()/return), << >> & |, unary -, comparisons (chains), and/or/not, conditional expression,
tuples of those in `return`, `ord(b[lo:hi])`, `len(..)`, `int(..)`, byte string constants, `bytearray()`,
`bytearray(b"..")`, `b[:-1]`, `b[-1]`, `pack("B", e)`, `unhexlify(f"..{i}")`.  Anything else raises `Unsupported`
with the source line: the generated file then contains a deliberately failing declaration for that function and
the proof stage is red ("generated model could not be produced"), never a stale model.

Shape of the output.  One Lean `def` per Python function, in `do` notation over `Py = Except PyErr`; a Python
variable is a (shadowed) `let`; an `if` none of whose branches raises/returns/breaks and whose branches are pure is
a joined `let x := if c then .. else ..`, any other `if` gets the rest of the block inlined into its branches.
A loop becomes an auxiliary structurally recursive function `<fn>_loop<k>` over a fuel argument whose other
arguments are the variables the body reads and (after them) the loop variable and the variables the body assigns
that exist before the loop; it returns their final values.  `for v in range(a, b)` passes the exact fuel
`(b - a).toNat`.  A `while` loop has no bound the translator could know: the generated function takes an extra first
argument `fuel : Nat`, hands it to every `while` loop, and running out of fuel is `.error .outsideModel`; the equality
theorems quantify over every fuel above an explicit bound.

The cell constructors are not functions of their own: from `<Cell>.__init__` the statements between the first
assignment of `self.has_overflow` and the `if` that assigns `self.bytes_on_first_page` are sliced backwards from
{self.bytes_on_first_page, self.has_overflow} (plus every `raise` and what its guard reads); statements assigning only
other targets are dropped after checking that they call nothing but `unpack`/`int`/`.format`.  The slice must read
exactly `self._page_size` and `self.payload_byte_size` from outside; the result is a function of those two returning
`(bytes_on_first_page, has_overflow)`."""
import ast
import json
import os
import re
import subprocess
import sys

from ..leanio.build import LEAN
from . import constants as tr_constants

REPO = os.environ.get("VERIF_REPO", "/repo")
OUT = os.path.join(LEAN, "SqliteDissect", "Generated", "PyFun.lean")

TRUSTED = ("translator harness/translate/pyfun.py + lean/SqliteDissect/PyPrelude.lean (Python source of the small pure "
           "functions -> Generated/PyFun.lean, proved equal to the hand-written model functions in Properties/GenFun.lean); "
           "trusted: the prelude's reading of Python int / slice / float operations (floats as exact fractions) and the "
           "translator itself, both exercised against the interpreter by `python -m harness.translate.pyfun --selftest`")

MAX_LINES = 400  # per function: inlining the continuation into branches must not explode


class Unsupported(Exception):
    def __init__(self, msg, node=None, src=None):
        self.msg = msg
        self.lineno = getattr(node, "lineno", None)
        self.src = src
        super().__init__(msg)

    def text(self, path=""):
        where = f"{path}:{self.lineno}" if self.lineno else path
        line = ""
        if self.src is not None and self.lineno:
            try:
                line = " `" + self.src.split("\n")[self.lineno - 1].strip() + "`"
            except IndexError:
                pass
        return f"{where}: {self.msg}{line}"


class NotPure(Exception):
    pass


# ------------------------------------------------------------------------------------------------ what to translate
UTIL = "sqlite_dissect/utilities.py"
CARVE = "sqlite_dissect/carving/utilities.py"
PAGE = "sqlite_dissect/file/database/page.py"

FUNCTIONS = [
    dict(file=UTIL, name="calculate_expected_overflow", params=[("overflow_byte_size", "int"), ("page_size", "int")]),
    dict(file=UTIL, name="decode_varint", params=[("byte_array", "buf"), ("offset", "int")]),
    dict(file=UTIL, name="encode_varint", params=[("value", "int")]),
    dict(file=UTIL, name="get_serial_type_signature", params=[("serial_type", "int")]),
    dict(file=CARVE, name="get_content_size", params=[("serial_type", "int")]),
    dict(file=CARVE, name="decode_varint_in_reverse",
         params=[("byte_array", "buf"), ("offset", "int"), ("max_varint_length", "int")]),
    dict(file=CARVE, name="generate_regex_for_simplified_serial_type", params=[("simplified_serial_type", "int")]),
]
CELLS = [
    dict(file=PAGE, cls="TableLeafCell", lean="tableLeafLocal"),
    dict(file=PAGE, cls="IndexLeafCell", lean="indexLeafLocal"),
    dict(file=PAGE, cls="IndexInteriorCell", lean="indexInteriorLocal"),
]
SLICE_SEEDS = ("bytes_on_first_page", "has_overflow")
SLICE_INPUTS = {"_page_size": "page_size", "payload_byte_size": "payload_byte_size"}
SLICE_DROPPED_CALLS = {"unpack", "int", "format"}

LEAN_TYPE = {"int": "Int", "bool": "Bool", "buf": "Buf", "bytes": "List Nat", "rat": "PyRat", "str": "List Char",
             "unit": "Unit"}
LEAN_KEYWORDS = {
    "end", "from", "at", "have", "show", "fun", "match", "open", "then", "do", "in", "let", "if", "else", "by",
    "instance", "structure", "namespace", "section", "variable", "universe", "theorem", "def", "import", "export",
    "local", "where", "with", "deriving", "mutual", "macro", "syntax", "infix", "notation", "Type", "Prop", "Sort",
    "class", "inductive", "example", "axiom", "abbrev", "opaque", "private", "protected", "partial", "unsafe",
    "return", "for", "while", "break", "continue", "try", "catch", "finally", "mut", "unless", "using", "calc",
    "suffices", "obtain", "nomatch", "nofun", "fuel", "pure", "bind", "true", "false", "some", "none", "ok", "error",
}
LOG_METHODS = {"debug", "info", "warning", "warn", "error", "critical", "exception", "log"}
BUILTIN_ERRORS = {"ValueError": "valueError", "TypeError": "typeError", "IndexError": "indexError",
                  "KeyError": "keyError", "NotImplementedError": "notImplemented", "OverflowError": "overflowError",
                  "ZeroDivisionError": "zeroDivision", "RuntimeError": "runtimeError", "EOFError": "eofError"}


def lean_ty(t):
    if isinstance(t, tuple):
        return "(" + " × ".join(lean_ty(x) for x in t[1]) + ")"
    return LEAN_TYPE[t]


def ident(name):
    if name == "_":
        return "_u"
    if name in LEAN_KEYWORDS or not re.fullmatch(r"[A-Za-z_][A-Za-z0-9_]*", name):
        return name + "_"
    return name


def atom(s):
    """parenthesise unless syntactically atomic"""
    if re.fullmatch(r"[A-Za-z_][A-Za-z0-9_.']*|[0-9]+|0x[0-9A-Fa-f]+", s):
        return s
    if s.startswith("(") and s.endswith(")"):
        depth = 0
        for i, ch in enumerate(s):
            if ch == "(":
                depth += 1
            elif ch == ")":
                depth -= 1
                if depth == 0 and i != len(s) - 1:
                    break
        else:
            return s
    if s.startswith("[") and s.endswith("]") and s.count("[") == 1:
        return s
    return "(" + s + ")"


def tuple_text(parts):
    if not parts:
        return "()"
    if len(parts) == 1:
        return parts[0]
    return "(" + ", ".join(parts) + ")"


def tuple_type(types):
    if not types:
        return "Unit"
    if len(types) == 1:
        return lean_ty(types[0])
    return "(" + " × ".join(lean_ty(t) for t in types) + ")"


def indent(lines, n=2):
    pad = " " * n
    return [pad + l for l in lines]


# ------------------------------------------------------------------------------------------------ module context
class Module:
    def __init__(self, relpath, repo):
        self.relpath = relpath
        self.path = os.path.join(repo, relpath)
        self.src = open(self.path, encoding="utf-8").read()
        self.tree = ast.parse(self.src)
        self.const_names = set()      # names imported from sqlite_dissect.constants
        self.exc_names = set()        # names imported from sqlite_dissect.exception
        self.imported = {}            # name -> (module, original name)
        self.module_defs = set()      # names bound at module level by def / class / assignment / plain import
        for st in self.tree.body:
            if isinstance(st, ast.ImportFrom) and st.module:
                for a in st.names:
                    nm = a.asname or a.name
                    self.imported[nm] = (st.module, a.name)
                    if st.module == "sqlite_dissect.constants" and a.asname is None:
                        self.const_names.add(a.name)
                    if st.module == "sqlite_dissect.exception" and a.asname is None:
                        self.exc_names.add(a.name)
            elif isinstance(st, (ast.FunctionDef, ast.AsyncFunctionDef, ast.ClassDef)):
                self.module_defs.add(st.name)
            elif isinstance(st, ast.Import):
                for a in st.names:
                    self.module_defs.add((a.asname or a.name).split(".")[0])
            elif isinstance(st, (ast.Assign, ast.AugAssign, ast.AnnAssign)):
                for t in (st.targets if isinstance(st, ast.Assign) else [st.target]):
                    for x in ast.walk(t):
                        if isinstance(x, ast.Name):
                            self.module_defs.add(x.id)

    def function(self, name):
        hits = [n for n in self.tree.body if isinstance(n, ast.FunctionDef) and n.name == name]
        if len(hits) != 1:
            raise Unsupported(f"expected exactly one module-level function `{name}`, found {len(hits)}")
        return hits[0]

    def method(self, cls, name):
        cs = [n for n in self.tree.body if isinstance(n, ast.ClassDef) and n.name == cls]
        if len(cs) != 1:
            raise Unsupported(f"expected exactly one class `{cls}`, found {len(cs)}")
        ms = [n for n in cs[0].body if isinstance(n, ast.FunctionDef) and n.name == name]
        if len(ms) != 1:
            raise Unsupported(f"expected exactly one method `{cls}.{name}`, found {len(ms)}")
        return ms[0]


# ------------------------------------------------------------------------------------------------ helpers on the AST
def assigned_names(stmts):
    """names assigned anywhere in the statements (Name targets, loop variables, `x.insert`)"""
    out = []

    def add(n):
        if n not in out:
            out.append(n)

    for st in stmts:
        for node in ast.walk(st):
            if isinstance(node, (ast.Assign,)):
                for t in node.targets:
                    for x in ast.walk(t):
                        if isinstance(x, ast.Name):
                            add(x.id)
            elif isinstance(node, (ast.AugAssign, ast.AnnAssign)):
                for x in ast.walk(node.target):
                    if isinstance(x, ast.Name):
                        add(x.id)
            elif isinstance(node, ast.For):
                for x in ast.walk(node.target):
                    if isinstance(x, ast.Name):
                        add(x.id)
            elif isinstance(node, ast.Expr) and _is_insert(node.value):
                add(node.value.func.value.id)
            elif isinstance(node, (ast.NamedExpr,)):
                add(node.target.id)
    return out


def read_names(node_or_list):
    nodes = node_or_list if isinstance(node_or_list, list) else [node_or_list]
    out = []
    for n in nodes:
        for x in ast.walk(n):
            if isinstance(x, ast.Name) and x.id not in out:
                out.append(x.id)
    return out


def _is_insert(call):
    return (isinstance(call, ast.Call) and isinstance(call.func, ast.Attribute) and call.func.attr == "insert"
            and isinstance(call.func.value, ast.Name))


def has_abrupt(stmts):
    for st in stmts:
        for node in ast.walk(st):
            if isinstance(node, (ast.Return, ast.Raise, ast.Break, ast.Continue)):
                return True
    return False


def is_logging_call(node):
    """getLogger(..).error(..) / self._logger.error(..) / logger.error(..) / logging.error(..)"""
    if not (isinstance(node, ast.Call) and isinstance(node.func, ast.Attribute) and node.func.attr in LOG_METHODS):
        return False
    recv = node.func.value
    if isinstance(recv, ast.Call) and isinstance(recv.func, ast.Name) and recv.func.id == "getLogger":
        return True
    if isinstance(recv, ast.Call) and isinstance(recv.func, ast.Attribute) and recv.func.attr == "getLogger":
        return True
    if isinstance(recv, ast.Name) and recv.id in ("logger", "logging", "_logger", "log"):
        return True
    if isinstance(recv, ast.Attribute) and recv.attr in ("logger", "_logger"):
        return True
    return False


# ------------------------------------------------------------------------------------------------ one function
class FnTranslator:
    def __init__(self, mod, lean_name, params, body, consts, defaults=None, doc=""):
        self.mod = mod
        self.name = lean_name
        self.params = params                   # [(python name, type)]
        self.body = body
        self.consts = consts                   # constants.py environment (name -> value)
        self.defaults = defaults or {}
        self.doc = doc
        self.aux = []                          # auxiliary loop definitions (lists of lines)
        self.ret_type = None
        self.tmp = 0
        self.nloops = 0
        self.loops = []                        # stack of dict(brk=, cont=)
        self.needs_fuel = any(isinstance(n, ast.While) for st in body for n in ast.walk(st))
        self.all_names = set(assigned_names(body)) | {p for p, _ in params}

    # ---- errors
    def bad(self, msg, node):
        raise Unsupported(msg, node, self.mod.src)

    def fresh(self):
        while True:
            self.tmp += 1
            nm = f"t{self.tmp}"
            if nm not in self.all_names:
                return nm

    def seg(self, node):
        return ast.get_source_segment(self.mod.src, node) or ""

    # ---- expressions: returns (text, type); monadic sub-computations are appended to `pre`
    def expr(self, node, env, pre):
        if isinstance(node, ast.Constant):
            v = node.value
            if isinstance(v, bool):
                return ("true" if v else "false"), "bool"
            if isinstance(v, int):
                s = self.seg(node)
                if re.fullmatch(r"0[xX][0-9A-Fa-f]+", s):
                    return "0x" + s[2:].upper(), "int"
                return (str(v) if v >= 0 else f"({v})"), "int"
            if isinstance(v, bytes):
                return "[" + ", ".join(str(b) for b in v) + "]", "bytes"
            if isinstance(v, str):
                return self.str_lit(v, node), "str"
            self.bad(f"constant of type {type(v).__name__} is outside the subset", node)
        if isinstance(node, ast.Name):
            if node.id in env:
                t = env[node.id]
                if t == "msg":
                    self.bad(f"message string `{node.id}` used as a value", node)
                return ident(node.id), t
            if node.id in self.all_names:
                self.bad(f"variable `{node.id}` may be unbound here (assigned only on some paths / inside a loop)",
                         node)
            if node.id in self.mod.const_names:
                v = self.consts.get(node.id)
                if isinstance(v, int) and not isinstance(v, bool):
                    return f"(Generated.{node.id} : Int)", "int"
                self.bad(f"imported constant `{node.id}` is not an integer known to Generated.Constants", node)
            self.bad(f"unknown name `{node.id}`", node)
        if isinstance(node, ast.UnaryOp):
            if isinstance(node.op, ast.USub):
                a, t = self.expr(node.operand, env, pre)
                if t != "int":
                    self.bad("unary minus on a non-integer", node)
                return f"-{atom(a)}", "int"
            if isinstance(node.op, ast.Not):
                return f"decide (¬ {atom(self.cond(node.operand, env, pre))})", "bool"
            self.bad(f"unary operator {type(node.op).__name__} is outside the subset", node)
        if isinstance(node, ast.BinOp):
            return self.binop(node, env, pre)
        if isinstance(node, (ast.Compare, ast.BoolOp)):
            return f"decide ({self.cond(node, env, pre)})", "bool"
        if isinstance(node, ast.IfExp):
            inner = []
            c = self.cond(node.test, env, inner)
            a, ta = self.expr(node.body, env, inner)
            b, tb = self.expr(node.orelse, env, inner)
            if inner:
                self.bad("conditional expression with an operand that can raise is outside the subset", node)
            if ta != tb:
                self.bad(f"conditional expression with branches of different types ({ta}, {tb})", node)
            return f"if {c} then {a} else {b}", ta
        if isinstance(node, ast.Tuple):
            parts = [self.expr(e, env, pre) for e in node.elts]
            return tuple_text([p for p, _ in parts]), ("tuple", [t for _, t in parts])
        if isinstance(node, ast.Call):
            return self.call(node, env, pre)
        if isinstance(node, ast.Subscript):
            return self.subscript(node, env, pre)
        if isinstance(node, ast.JoinedStr):
            parts = []
            for v in node.values:
                if isinstance(v, ast.Constant) and isinstance(v.value, str):
                    parts.append(self.str_lit(v.value, node))
                elif isinstance(v, ast.FormattedValue) and v.conversion == -1 and v.format_spec is None:
                    a, t = self.expr(v.value, env, pre)
                    if t != "int":
                        self.bad("f-string field that is not an integer", node)
                    parts.append(f"pyStrInt {atom(a)}")
                else:
                    self.bad("f-string with conversion or format spec is outside the subset", node)
            return " ++ ".join(parts) if parts else "([] : List Char)", "str"
        self.bad(f"expression {type(node).__name__} is outside the subset", node)

    def str_lit(self, s, node):
        if not all(32 <= ord(c) < 127 and c not in "'\\" for c in s):
            self.bad("string literal with characters outside printable ASCII", node)
        return "[" + ", ".join(f"'{c}'" for c in s) + "]"

    def int_literal(self, node):
        """value of an integer literal (possibly negated), else None"""
        if isinstance(node, ast.Constant) and isinstance(node.value, int) and not isinstance(node.value, bool):
            return node.value
        if isinstance(node, ast.UnaryOp) and isinstance(node.op, ast.USub):
            v = self.int_literal(node.operand)
            return None if v is None else -v
        return None

    def binop(self, node, env, pre):
        a, ta = self.expr(node.left, env, pre)
        b, tb = self.expr(node.right, env, pre)
        op = node.op
        lit = self.int_literal(node.right)
        if ta == "bytes" and tb == "bytes" and isinstance(op, ast.Add):
            return f"{atom(a)} ++ {atom(b)}", "bytes"
        if ta == "rat" and tb == "int" and isinstance(op, (ast.Add, ast.Sub)):
            f = "addInt" if isinstance(op, ast.Add) else "subInt"
            return f"PyRat.{f} {atom(a)} {atom(b)}", "rat"
        if ta != "int" or tb != "int":
            self.bad(f"operator {type(op).__name__} on operands of type {ta}, {tb} is outside the subset", node)
        if isinstance(op, ast.Add):
            return f"{atom(a)} + {atom(b)}", "int"
        if isinstance(op, ast.Sub):
            return f"{atom(a)} - {atom(b)}", "int"
        if isinstance(op, ast.Mult):
            return f"{atom(a)} * {atom(b)}", "int"
        if isinstance(op, (ast.FloorDiv, ast.Mod)):
            pure, mon = ("Int.fdiv", "pyFloorDiv") if isinstance(op, ast.FloorDiv) else ("Int.fmod", "pyMod")
            if lit is not None and lit != 0:
                return f"{pure} {atom(a)} {atom(b)}", "int"
            t = self.fresh()
            pre.append(f"let {t} ← {mon} {atom(a)} {atom(b)}")
            return t, "int"
        if isinstance(op, ast.Div):
            if lit is not None and lit != 0:
                return f"pyTrueDivLit {atom(a)} {atom(b)}", "rat"
            t = self.fresh()
            pre.append(f"let {t} ← pyTrueDiv {atom(a)} {atom(b)}")
            return t, "rat"
        if isinstance(op, (ast.LShift, ast.RShift)):
            pure, mon = ("pyShlNat", "pyShl") if isinstance(op, ast.LShift) else ("pyShrNat", "pyShr")
            if lit is not None and lit >= 0:
                return f"{pure} {atom(a)} {lit}", "int"
            t = self.fresh()
            pre.append(f"let {t} ← {mon} {atom(a)} {atom(b)}")
            return t, "int"
        if isinstance(op, ast.BitAnd):
            return f"pyAnd {atom(a)} {atom(b)}", "int"
        if isinstance(op, ast.BitOr):
            return f"pyOr {atom(a)} {atom(b)}", "int"
        self.bad(f"operator {type(op).__name__} is outside the subset", node)

    def call(self, node, env, pre):
        f = node.func
        if node.keywords:
            self.bad("call with keyword arguments is outside the subset", node)
        if isinstance(f, ast.Name):
            if f.id in env or f.id in self.all_names:
                self.bad(f"call of a local `{f.id}`", node)
            if f.id in ("ord", "len", "int", "bytearray", "range") and (f.id in self.mod.imported
                                                                         or f.id in self.mod.module_defs):
                self.bad(f"the builtin `{f.id}` is rebound in this module", node)
            if f.id == "ord" and len(node.args) == 1:
                a = node.args[0]
                if (isinstance(a, ast.Subscript) and isinstance(a.slice, ast.Slice) and a.slice.step is None
                        and a.slice.lower is not None and a.slice.upper is not None
                        and isinstance(a.value, ast.Name)):
                    bt = self.expr(a.value, env, pre)
                    if bt[1] != "buf":
                        self.bad("ord() of a slice of something that is not a read-only byte buffer", node)
                    lo, tl = self.expr(a.slice.lower, env, pre)
                    hi, th = self.expr(a.slice.upper, env, pre)
                    if tl != "int" or th != "int":
                        self.bad("slice bound that is not an integer", node)
                    t = self.fresh()
                    pre.append(f"let {t} ← pyOrdSlice {bt[0]} {atom(lo)} {atom(hi)}")
                    return t, "int"
                self.bad("ord() of anything but a two-bound slice `b[lo:hi]` is outside the subset", node)
            if f.id == "len" and len(node.args) == 1:
                a, t = self.expr(node.args[0], env, pre)
                if t == "buf":
                    return f"pyLenBuf {atom(a)}", "int"
                if t == "bytes":
                    return f"pyLenBytes {atom(a)}", "int"
                self.bad(f"len() of a value of type {t}", node)
            if f.id == "int" and len(node.args) == 1:
                a, t = self.expr(node.args[0], env, pre)
                if t == "int":
                    return a, "int"
                if t == "rat":
                    return f"pyIntOfRat {atom(a)}", "int"
                self.bad(f"int() of a value of type {t}", node)
            if f.id == "bytearray":
                if not node.args:
                    return "([] : List Nat)", "bytes"
                if len(node.args) == 1 and isinstance(node.args[0], ast.Constant) \
                        and isinstance(node.args[0].value, bytes):
                    return self.expr(node.args[0], env, pre)
                self.bad("bytearray(..) of anything but a bytes literal", node)
            if f.id == "pack" and self.mod.imported.get("pack") == ("struct", "pack") and len(node.args) == 2 \
                    and isinstance(node.args[0], ast.Constant) and node.args[0].value in ("B", b"B"):
                a, t = self.expr(node.args[1], env, pre)
                if t != "int":
                    self.bad("pack('B', x) of a non-integer", node)
                tmp = self.fresh()
                pre.append(f"let {tmp} ← pyPackB {atom(a)}")
                return tmp, "bytes"
            if f.id == "unhexlify" and self.mod.imported.get("unhexlify") == ("binascii", "unhexlify") \
                    and len(node.args) == 1:
                a, t = self.expr(node.args[0], env, pre)
                if t != "str":
                    self.bad("unhexlify of a non-string", node)
                tmp = self.fresh()
                pre.append(f"let {tmp} ← pyUnhexlify {atom(a)}")
                return tmp, "bytes"
            self.bad(f"call of `{f.id}` is outside the subset", node)
        self.bad("call of this form is outside the subset", node)

    def subscript(self, node, env, pre):
        if not isinstance(node.value, ast.Name):
            self.bad("subscript of a non-name", node)
        a, t = self.expr(node.value, env, pre)
        if t != "bytes":
            self.bad(f"subscript of a value of type {t} outside ord(..) is outside the subset", node)
        s = node.slice
        if isinstance(s, ast.Slice):
            if s.lower is None and s.step is None and self.int_literal(s.upper) == -1:
                return f"pyDropLast {atom(a)}", "bytes"
            self.bad("only the slice `[:-1]` of a built bytearray is inside the subset", node)
        if self.int_literal(s) == -1:
            tmp = self.fresh()
            pre.append(f"let {tmp} ← pyLastByte {atom(a)}")
            return tmp, "int"
        self.bad("only the index `[-1]` of a built bytearray is inside the subset", node)

    # ---- conditions: a decidable Prop
    def cond(self, node, env, pre):
        if isinstance(node, ast.Compare):
            ops = {ast.Eq: "=", ast.NotEq: "≠", ast.Lt: "<", ast.LtE: "≤", ast.Gt: ">", ast.GtE: "≥"}
            operands = [node.left] + list(node.comparators)
            if len(operands) > 2:
                for mid in operands[1:-1]:
                    if not isinstance(mid, (ast.Name, ast.Constant)):
                        self.bad("comparison chain whose middle operand is not a name or literal", node)
            texts = []
            for o in operands:
                n0 = len(pre)
                a, t = self.expr(o, env, pre)
                if t != "int":
                    self.bad(f"comparison of a value of type {t}", node)
                if len(operands) > 2 and len(pre) != n0:
                    self.bad("comparison chain with an operand that can raise", node)
                texts.append(a)
            parts = []
            for i, op in enumerate(node.ops):
                if type(op) not in ops:
                    self.bad(f"comparison operator {type(op).__name__} is outside the subset", node)
                parts.append(f"{atom(texts[i])} {ops[type(op)]} {atom(texts[i + 1])}")
            return parts[0] if len(parts) == 1 else " ∧ ".join(parts)
        if isinstance(node, ast.BoolOp):
            inner = []
            parts = [atom(self.cond(v, env, inner)) for v in node.values]
            if inner:
                self.bad("and/or with an operand that can raise is outside the subset (short-circuit order)", node)
            return (" ∧ " if isinstance(node.op, ast.And) else " ∨ ").join(parts)
        if isinstance(node, ast.UnaryOp) and isinstance(node.op, ast.Not):
            return f"¬ {atom(self.cond(node.operand, env, pre))}"
        a, t = self.expr(node, env, pre)
        if t == "int":
            return f"{atom(a)} ≠ 0"
        if t == "bool":
            return f"{atom(a)} = true"
        if t == "bytes":
            return f"{atom(a)} ≠ []"
        self.bad(f"truth value of a value of type {t} is outside the subset", node)

    # ---- statements
    def dropped(self, st, env):
        """effect-free statements that are dropped; returns the new env or None"""
        if isinstance(st, ast.Pass):
            return env
        if isinstance(st, ast.Expr):
            if isinstance(st.value, ast.Constant) and isinstance(st.value.value, str):
                return env
            if is_logging_call(st.value):
                return env
            return None
        if isinstance(st, ast.Assign) and len(st.targets) == 1 and isinstance(st.targets[0], ast.Name):
            v = st.value
            if isinstance(v, ast.Constant) and isinstance(v.value, str):
                return {**env, st.targets[0].id: "msg"}
            if (isinstance(v, ast.Call) and isinstance(v.func, ast.Attribute) and v.func.attr == "format"
                    and ((isinstance(v.func.value, ast.Name) and env.get(v.func.value.id) == "msg")
                         or (isinstance(v.func.value, ast.Constant) and isinstance(v.func.value.value, str)))):
                return {**env, st.targets[0].id: "msg"}
        return None

    def as_assign(self, st, env):
        """(target name, value node) of an assignment-like statement, else None"""
        if isinstance(st, ast.Assign):
            if len(st.targets) != 1 or not isinstance(st.targets[0], ast.Name):
                self.bad("assignment to anything but a single name is outside the subset", st)
            return st.targets[0].id, st.value, None
        if isinstance(st, ast.AugAssign):
            if not isinstance(st.target, ast.Name):
                self.bad("augmented assignment to anything but a name is outside the subset", st)
            v = ast.BinOp(left=ast.Name(id=st.target.id, ctx=ast.Load()), op=st.op, right=st.value)
            ast.copy_location(v, st)
            ast.copy_location(v.left, st)
            return st.target.id, v, None
        if isinstance(st, ast.Expr) and _is_insert(st.value):
            c = st.value
            if len(c.args) != 2 or self.int_literal(c.args[0]) != 0 or c.keywords:
                self.bad("only `.insert(0, value)` is inside the subset", st)
            return c.func.value.id, c.args[1], "insert0"
        return None

    def assign_lines(self, st, env):
        """lines + new env for an assignment-like statement"""
        name, value, special = self.as_assign(st, env)
        pre = []
        if special == "insert0":
            if env.get(name) != "bytes":
                self.bad(f"`.insert` on `{name}` which is not a built bytearray", st)
            a, t = self.expr(value, env, pre)
            if t != "int":
                self.bad("insert of a non-integer", st)
            pre.append(f"let {ident(name)} ← pyInsert0 {ident(name)} {atom(a)}")
            return pre, env
        a, t = self.expr(value, env, pre)
        if isinstance(t, tuple):
            self.bad("assignment of a tuple is outside the subset", st)
        if t == "rat":
            self.bad("a float may only occur under int(..) or be returned", st)
        pre.append(f"let {ident(name)} : {lean_ty(t)} := {a}")
        return pre, {**env, name: t}

    def pure_block(self, stmts, env):
        """straight-line pure statements as a list of lets; raises NotPure otherwise"""
        lets = []
        for st in stmts:
            e2 = self.dropped(st, env)
            if e2 is not None:
                env = e2
                continue
            if isinstance(st, (ast.Assign, ast.AugAssign)):
                lines, env2 = self.assign_lines(st, env)
                if len(lines) != 1:
                    raise NotPure()
                lets.append(lines[0])
                env = env2
                continue
            if isinstance(st, ast.If):
                j = self.join_if(st, env)
                if j is None:
                    raise NotPure()
                lets.append(j[0])
                env = j[1]
                continue
            raise NotPure()
        return lets, env

    def join_if(self, st, env):
        """`let vars := if c then .. else ..` for an `if` with pure branches; None if not applicable"""
        if has_abrupt([st]):
            return None
        tmp_save = self.tmp
        try:
            pre = []
            c = self.cond(st.test, env, pre)
            if pre:
                raise NotPure()
            l1, e1 = self.pure_block(st.body, env)
            l2, e2 = self.pure_block(st.orelse, env)
        except NotPure:
            self.tmp = tmp_save
            return None
        changed = [n for n in assigned_names(st.body) + assigned_names(st.orelse)]
        vs = []
        for n in changed:
            if n in vs:
                continue
            if n in e1 and n in e2 and e1[n] != "msg" and e2[n] != "msg":
                if e1[n] != e2[n]:
                    self.bad(f"`{n}` has different types after the two branches", st)
                vs.append(n)
        env2 = dict(env)
        for n in changed:
            env2.pop(n, None)
        for n in vs:
            env2[n] = e1[n]
        if not vs:
            return None

        def branch(lets):
            res = tuple_text([ident(v) for v in vs])
            return res if not lets else "(" + "; ".join(lets + [res]) + ")"

        ty = tuple_type([e1[v] for v in vs])
        line = f"let {tuple_text([ident(v) for v in vs])} : {ty} := if {c} then {branch(l1)} else {branch(l2)}"
        return line, env2

    def block(self, stmts, env, k):
        if not stmts:
            return k(env)
        st, rest = stmts[0], stmts[1:]
        return self.stmt(st, env, lambda e: self.block(rest, e, k))

    def stmt(self, st, env, k):
        e2 = self.dropped(st, env)
        if e2 is not None:
            return k(e2)
        if isinstance(st, (ast.Assign, ast.AugAssign)) or (isinstance(st, ast.Expr) and _is_insert(st.value)):
            lines, env2 = self.assign_lines(st, env)
            return lines + k(env2)
        if isinstance(st, ast.Return):
            if self.loops:
                self.bad("return inside a loop is outside the subset", st)
            if st.value is None:
                self.bad("return without a value", st)
            pre = []
            a, t = self.expr(st.value, env, pre)
            if t == "rat":
                tmp = self.fresh()
                pre.append(f"let {tmp} ← pyFloatAsInt {atom(a)}")
                a, t = tmp, "int"
            if isinstance(t, tuple) and any(x == "rat" or isinstance(x, tuple) for x in t[1]):
                self.bad("tuple return with a float or nested tuple component", st)
            if self.ret_type is None:
                self.ret_type = t
            elif self.ret_type != t:
                self.bad(f"return values of different types ({self.ret_type} and {t})", st)
            return pre + [f".ok {atom(a)}"]
        if isinstance(st, ast.Raise):
            return [f".error .{self.exc(st)}"]
        if isinstance(st, ast.Break):
            if not self.loops:
                self.bad("break outside a loop", st)
            return self.loops[-1]["brk"](env)
        if isinstance(st, ast.Continue):
            if not self.loops:
                self.bad("continue outside a loop", st)
            return self.loops[-1]["cont"](env)
        if isinstance(st, ast.If):
            return self.if_stmt(st, env, k)
        if isinstance(st, ast.For):
            return self.for_stmt(st, env, k)
        if isinstance(st, ast.While):
            return self.while_stmt(st, env, k)
        self.bad(f"statement {type(st).__name__} is outside the subset", st)

    def exc(self, st):
        e = st.exc
        if e is None or st.cause is not None:
            self.bad("bare raise / raise .. from is outside the subset", st)
        cls = e.func if isinstance(e, ast.Call) else e
        if not isinstance(cls, ast.Name):
            self.bad("raise of something that is not a class name", st)
        if cls.id in self.mod.exc_names:
            return "parseError"
        if cls.id in BUILTIN_ERRORS and cls.id not in self.mod.imported:
            return BUILTIN_ERRORS[cls.id]
        self.bad(f"raise of `{cls.id}` which is neither a sqlite_dissect.exception class nor a known builtin", st)

    def if_stmt(self, st, env, k):
        j = self.join_if(st, env)
        if j is not None:
            return [j[0]] + k(j[1])
        pre = []
        c = self.cond(st.test, env, pre)
        then = self.block(st.body, env, k)
        out = pre + [f"if {c} then"] + indent(then)
        orelse = st.orelse
        # flatten elif chains whose tests need no monadic prefix
        while len(orelse) == 1 and isinstance(orelse[0], ast.If) and self.join_if(orelse[0], env) is None:
            inner = []
            c2 = self.cond(orelse[0].test, env, inner)
            if inner:
                break
            out += [f"else if {c2} then"] + indent(self.block(orelse[0].body, env, k))
            orelse = orelse[0].orelse
        out += ["else"] + indent(self.block(orelse, env, k))
        if len(out) > MAX_LINES:
            self.bad("the translation of this statement is too large (too many branching statements in sequence)", st)
        return out

    # ---- loops
    def loop_vars(self, body, env, loop_var=None):
        assigned = assigned_names(body)
        state = [n for n in assigned if n in env and env[n] != "msg" and n != loop_var]
        reads = [n for n in read_names(body) if n in env and env[n] != "msg" and n not in state and n != loop_var]
        return state, reads

    def for_stmt(self, st, env, k):
        if st.orelse:
            self.bad("for .. else is outside the subset", st)
        if not isinstance(st.target, ast.Name):
            self.bad("for with a target that is not a name", st)
        it = st.iter
        if not (isinstance(it, ast.Call) and isinstance(it.func, ast.Name) and it.func.id == "range"
                and not it.keywords and 1 <= len(it.args) <= 2 and "range" not in self.mod.imported
                and "range" not in self.mod.module_defs and "range" not in self.all_names):
            self.bad("for over anything but range(a, b) / range(n) is outside the subset", st)
        v = st.target.id
        if v in assigned_names(st.body):
            self.bad(f"the loop variable `{v}` is assigned inside the loop", st)
        pre = []
        if len(it.args) == 1:
            lo, tl = "0", "int"
            hi, th = self.expr(it.args[0], env, pre)
        else:
            lo, tl = self.expr(it.args[0], env, pre)
            hi, th = self.expr(it.args[1], env, pre)
        if tl != "int" or th != "int":
            self.bad("range bound that is not an integer", st)
        state, reads = self.loop_vars(st.body, env, v)
        self.nloops += 1
        name = f"{self.name}_loop{self.nloops}"
        sv = [ident(n) for n in state]
        rv = [ident(n) for n in reads]
        lv = ident(v)
        call = lambda fuel, x, svals: " ".join([name] + rv + [fuel, x] + svals)
        result = lambda e: [f".ok {atom(tuple_text([ident(n) for n in state]))}"]
        env_body = {**{n: env[n] for n in env if n in state or n in reads}, v: "int"}
        # variables of the enclosing scope that are neither read-only captures nor state are invisible in the body
        nxt = lambda e: [call("fuel", f"({lv} + 1)", [ident(n) for n in state])]
        self.loops.append(dict(brk=result, cont=nxt))
        body = self.block(st.body, env_body, nxt)
        self.loops.pop()
        rty = tuple_type([env[n] for n in state])
        sig = "".join(f" ({ident(n)} : {lean_ty(env[n])})" for n in reads)
        tys = " → ".join(["Nat", "Int"] + [lean_ty(env[n]) for n in state] + [f"Py {atom(rty)}"])
        pats0 = ", ".join(["0", "_"] + sv)
        pats1 = ", ".join(["fuel + 1", lv] + sv)
        d = [f"/-- `for {v} in range(..)` of `{self.name}`: fuel = iterations left, then `{v}`, then "
             f"{', '.join(state) if state else 'no state'} -/",
             f"def {name}{sig} : {tys}",
             f"  | {pats0} => .ok {atom(tuple_text(sv))}",
             f"  | {pats1} => do"] + indent(body, 4)
        self.aux.append(d)
        fuel = f"(Int.toNat ({atom(hi)} - {atom(lo)}))"
        out = pre + [f"let {tuple_text(sv) if sv else '_'} ← {call(fuel, atom(lo), sv)}"]
        return out + k({n: t for n, t in env.items()})

    def while_stmt(self, st, env, k):
        if st.orelse:
            self.bad("while .. else is outside the subset", st)
        state, reads = self.loop_vars(st.body, env)
        for n in read_names(st.test):
            if n in env and n not in state and n not in reads:
                reads.append(n)
        self.nloops += 1
        name = f"{self.name}_loop{self.nloops}"
        sv = [ident(n) for n in state]
        rv = [ident(n) for n in reads]
        call = lambda fuel, svals: " ".join([name] + rv + [fuel] + svals)
        result = lambda e: [f".ok {atom(tuple_text([ident(n) for n in state]))}"]
        nxt = lambda e: [call("fuel", [ident(n) for n in state])]
        env_body = {n: env[n] for n in env if n in state or n in reads}
        pre = []
        c = self.cond(st.test, env_body, pre)
        self.loops.append(dict(brk=result, cont=nxt))
        body = self.block(st.body, env_body, nxt)
        self.loops.pop()
        rty = tuple_type([env[n] for n in state])
        sig = "".join(f" ({ident(n)} : {lean_ty(env[n])})" for n in reads)
        tys = " → ".join(["Nat"] + [lean_ty(env[n]) for n in state] + [f"Py {atom(rty)}"])
        pats0 = ", ".join(["0"] + ["_"] * len(sv))
        pats1 = ", ".join(["fuel + 1"] + sv)
        d = [f"/-- `while` loop of `{self.name}`: fuel, then {', '.join(state) if state else 'no state'}; "
             f"out of fuel is `outsideModel` -/",
             f"def {name}{sig} : {tys}",
             f"  | {pats0} => .error .outsideModel",
             f"  | {pats1} => do"] + indent(pre + [f"if {c} then"] + indent(body) + ["else"] + indent(result(None)), 4)
        self.aux.append(d)
        out = [f"let {tuple_text(sv) if sv else '_'} ← {call('fuel', sv)}"]
        return out + k(dict(env))

    # ---- whole function
    def translate(self):
        env = {p: t for p, t in self.params}

        def end(_env):
            raise Unsupported(f"`{self.name}` can reach its end without a return (would return None)", self.body[-1],
                              self.mod.src)

        body = self.block(self.body, env, end)
        if self.ret_type is None:
            raise Unsupported(f"`{self.name}` never returns a value", self.body[0], self.mod.src)
        if len(body) > MAX_LINES:
            raise Unsupported(f"the translation of `{self.name}` is too large", self.body[0], self.mod.src)
        sig = " (fuel : Nat)" if self.needs_fuel else ""
        for p, t in self.params:
            dflt = self.defaults.get(p)
            sig += f" ({ident(p)} : {lean_ty(t)}" + (f" := {dflt}" if dflt is not None else "") + ")"
        out = []
        for d in self.aux:
            out += d + [""]
        out += [f"/-- {self.doc} -/", f"def {self.name}{sig} : Py {atom(lean_ty(self.ret_type))} := do"] + indent(body)
        return out


# ------------------------------------------------------------------------------------------------ plain functions
def translate_function(spec, repo, consts):
    mod = Module(spec["file"], repo)
    fn = mod.function(spec["name"])
    a = fn.args
    if a.vararg or a.kwarg or a.kwonlyargs or a.posonlyargs:
        raise Unsupported("parameter list with * / ** / keyword-only parameters", fn, mod.src)
    names = [x.arg for x in a.args]
    want = [p for p, _ in spec["params"]]
    if names != want:
        raise Unsupported(f"parameters of `{spec['name']}` are {names}, the translator is configured for {want}", fn,
                          mod.src)
    defaults = {}
    for arg, d in zip(a.args[len(a.args) - len(a.defaults):], a.defaults):
        if isinstance(d, ast.Constant) and isinstance(d.value, int) and not isinstance(d.value, bool):
            defaults[arg.arg] = str(d.value) if d.value >= 0 else f"({d.value})"
        else:
            raise Unsupported("default value that is not an integer literal", fn, mod.src)
    tr = FnTranslator(mod, spec["name"], spec["params"], fn.body, consts, defaults,
                      doc=f"`{spec['name']}` of {spec['file']}")
    return tr.translate()


# ------------------------------------------------------------------------------------------------ cell constructors
def _self_attr(node):
    if isinstance(node, ast.Attribute) and isinstance(node.value, ast.Name) and node.value.id == "self":
        return node.attr
    return None


def _targets(st):
    """assignment targets as ('self', attr) / ('local', name); None if a target has another form"""
    ts = st.targets if isinstance(st, ast.Assign) else [st.target]
    out = []
    for t in ts:
        a = _self_attr(t)
        if a is not None:
            out.append(("self", a))
        elif isinstance(t, ast.Name):
            out.append(("local", t.id))
        else:
            return None
    return out


def _reads(node):
    """variables read by an expression: ('self', attr) and ('local', name)"""
    out = set()
    skip = set()
    for x in ast.walk(node):
        a = _self_attr(x)
        if a is not None and isinstance(x.ctx, ast.Load):
            out.add(("self", a))
            skip.add(id(x.value))
        if isinstance(x, ast.Call) and isinstance(x.func, ast.Name):
            skip.add(id(x.func))      # the callee is not a variable of the slice (calls are whitelisted separately)
    for x in ast.walk(node):
        if isinstance(x, ast.Name) and isinstance(x.ctx, ast.Load) and id(x) not in skip:
            out.add(("local", x.id))
    return out


def _called(node):
    out = set()
    for x in ast.walk(node):
        if isinstance(x, ast.Call):
            f = x.func
            out.add(f.id if isinstance(f, ast.Name) else (f.attr if isinstance(f, ast.Attribute) else "?"))
    return out


class CellSlicer:
    def __init__(self, mod, cls):
        self.mod = mod
        self.cls = cls
        self.init = mod.method(cls, "__init__")

    def bad(self, msg, node):
        raise Unsupported(f"{self.cls}.__init__: {msg}", node, self.mod.src)

    def region(self):
        body = self.init.body
        start = end = None
        for i, st in enumerate(body):
            if start is None and isinstance(st, ast.Assign) and _targets(st) == [("self", "has_overflow")]:
                start = i
            if start is not None and isinstance(st, ast.If):
                tg = set()
                for x in ast.walk(st):
                    if isinstance(x, (ast.Assign, ast.AugAssign)):
                        tg |= set(_targets(x) or [])
                if ("self", "bytes_on_first_page") in tg:
                    end = i
                    break
        if start is None or end is None:
            self.bad("cannot locate the local-payload computation (first `self.has_overflow = ..` up to the `if` "
                     "assigning `self.bytes_on_first_page`)", self.init)
        return body[start:end + 1]

    def slice_stmts(self, stmts, relevant, reads):
        """keep what assigns a relevant variable, every raise, and the ifs around those"""
        kept = []
        for st in stmts:
            if isinstance(st, ast.Expr) and isinstance(st.value, ast.Constant) and isinstance(st.value.value, str):
                continue
            if isinstance(st, ast.Expr) and is_logging_call(st.value):
                continue
            if isinstance(st, (ast.Assign, ast.AugAssign)):
                tg = _targets(st)
                if tg is None:
                    self.bad("assignment target that is neither a name nor self.<attr>", st)
                hit = [t for t in tg if t in relevant]
                if hit:
                    if len(hit) != len(tg):
                        self.bad("assignment mixing sliced and unsliced targets", st)
                    kept.append(st)
                    reads |= _reads(st.value)
                    if isinstance(st, ast.AugAssign):
                        reads |= set(tg)
                else:
                    calls = _called(st.value) - SLICE_DROPPED_CALLS
                    if calls:
                        self.bad(f"statement outside the slice calls {sorted(calls)} (only "
                                 f"{sorted(SLICE_DROPPED_CALLS)} are known not to touch the sliced variables)", st)
                continue
            if isinstance(st, ast.If):
                b = self.slice_stmts(st.body, relevant, reads)
                o = self.slice_stmts(st.orelse, relevant, reads)
                if b or o:
                    if not b:
                        b = [ast.copy_location(ast.Pass(), st)]
                    n = ast.If(test=st.test, body=b, orelse=o)
                    ast.copy_location(n, st)
                    kept.append(n)
                    reads |= _reads(st.test)
                continue
            if isinstance(st, ast.Raise):
                kept.append(st)
                continue
            self.bad(f"statement {type(st).__name__} inside the local-payload region is outside the subset", st)
        return kept

    def sliced(self):
        region = self.region()
        relevant = {("self", s) for s in SLICE_SEEDS}
        while True:
            reads = set()
            kept = self.slice_stmts(region, relevant, reads)
            assigned = set()
            for st in kept:
                for x in ast.walk(st):
                    if isinstance(x, (ast.Assign, ast.AugAssign)):
                        assigned |= set(_targets(x))
            new = {r for r in reads if r not in relevant}
            # a variable that is read but assigned nowhere in the region is an input, not a sliced variable
            grow = set()
            for r in new:
                for st in region:
                    for x in ast.walk(st):
                        if isinstance(x, (ast.Assign, ast.AugAssign)) and r in (_targets(x) or []):
                            grow.add(r)
            if not grow:
                break
            relevant |= grow
        inputs = sorted(r for r in reads if r not in assigned)
        want = sorted(("self", a) for a in SLICE_INPUTS)
        if inputs != want:
            self.bad(f"the local-payload computation reads {inputs} from outside, expected exactly {want}", self.init)
        return kept, relevant

    def function(self, lean_name, consts):
        kept, relevant = self.sliced()
        locals_ = {n for k_, n in relevant if k_ == "local"}
        attrs = {n for k_, n in relevant if k_ == "self"} | set(SLICE_INPUTS)
        clash = locals_ & ({SLICE_INPUTS.get(a, a) for a in attrs})
        if clash:
            self.bad(f"local variable(s) {sorted(clash)} collide with attribute names of the slice", self.init)

        class Rn(ast.NodeTransformer):
            def visit_Attribute(self, node):
                a = _self_attr(node)
                if a is not None:
                    n = ast.Name(id=SLICE_INPUTS.get(a, a), ctx=node.ctx)
                    return ast.copy_location(n, node)
                return self.generic_visit(node)

        import copy
        body = [Rn().visit(copy.deepcopy(st)) for st in kept]
        ret = ast.Return(value=ast.Tuple(elts=[ast.Name(id=s, ctx=ast.Load()) for s in SLICE_SEEDS], ctx=ast.Load()))
        for n in ast.walk(ret):
            ast.copy_location(n, kept[-1])
            n.lineno = getattr(kept[-1], "end_lineno", kept[-1].lineno)
        body.append(ret)
        params = [(SLICE_INPUTS[a], "int") for a in sorted(SLICE_INPUTS)]
        tr = FnTranslator(self.mod, lean_name, params, body, consts,
                          doc=f"local-payload arithmetic of `{self.cls}.__init__` ({self.mod.relpath}): "
                              f"(bytes_on_first_page, has_overflow) from (page_size, payload_byte_size)")
        return tr.translate()


# ------------------------------------------------------------------------------------------------ rendering
HEADER = [
    "/- GENERATED by harness/translate/pyfun.py from sqlite_dissect/utilities.py, sqlite_dissect/carving/utilities.py",
    "   and sqlite_dissect/file/database/page.py — do not edit.  Meaning of the `py*` operations: PyPrelude.lean. -/",
    "import SqliteDissect.Py",
    "import SqliteDissect.Bytes",
    "import SqliteDissect.Generated.Constants",
    "import SqliteDissect.PyPrelude",
    "",
    "set_option linter.unusedVariables false",
    "",
    "namespace SqliteDissect.Generated.PyFun",
    "open SqliteDissect",
    "",
]


def failing(name, message):
    """a declaration that cannot be elaborated; the reason is in the goal Lean prints (and contains the word `error`
    so that the harness' one-line digest of the build log shows it)"""
    msg = message.replace("\n", " ")
    return [f"-- translator: `{name}` could not be produced: {msg.replace('-/', '- /')}",
            f"example : TranslatorFailed {json.dumps('translator error: ' + name + ': ' + msg, ensure_ascii=True)} := "
            f"by assumption", ""]


def render(repo=None):
    """(text, list of failure messages)"""
    repo = repo or os.environ.get("VERIF_REPO", "/repo")
    failures = []
    lines = list(HEADER)
    try:
        consts = _consts(repo)
    except Exception as e:  # constants.py unreadable: nothing can be translated
        consts = {}
        failures.append(f"constants: {e}")
    for spec in FUNCTIONS:
        try:
            lines += translate_function(spec, repo, consts) + [""]
        except Unsupported as e:
            m = e.text(spec["file"])
            failures.append(f"{spec['name']}: {m}")
            lines += failing(spec["name"], m)
        except (OSError, SyntaxError) as e:
            failures.append(f"{spec['name']}: {spec['file']}: {e}")
            lines += failing(spec["name"], f"{spec['file']}: {e}")
    for spec in CELLS:
        try:
            mod = Module(spec["file"], repo)
            lines += CellSlicer(mod, spec["cls"]).function(spec["lean"], consts) + [""]
        except Unsupported as e:
            m = e.text(spec["file"])
            failures.append(f"{spec['lean']}: {m}")
            lines += failing(spec["lean"], m)
        except (OSError, SyntaxError) as e:
            failures.append(f"{spec['lean']}: {spec['file']}: {e}")
            lines += failing(spec["lean"], f"{spec['file']}: {e}")
    lines += ["end SqliteDissect.Generated.PyFun", ""]
    return "\n".join(lines), failures


def _consts(repo):
    old = tr_constants.REPO
    tr_constants.REPO = repo
    try:
        return tr_constants.extract()
    finally:
        tr_constants.REPO = old


def regenerate():
    text, failures = render()
    for f in failures:
        print(f"[translate.pyfun] generated model could not be produced: {f}", file=sys.stderr, flush=True)
    old = open(OUT, encoding="utf-8").read() if os.path.exists(OUT) else None
    if old != text:
        os.makedirs(os.path.dirname(OUT), exist_ok=True)
        with open(OUT, "w", encoding="utf-8") as fh:
            fh.write(text)
        return True
    return False



# ------------------------------------------------------------------------------------------------ self test
def _py_sliced_function(spec, repo, consts):
    """the sliced statements of a cell constructor compiled as a Python function (page_size, payload_byte_size)"""
    import copy
    mod = Module(spec["file"], repo)
    sl = CellSlicer(mod, spec["cls"])
    kept, _rel = sl.sliced()

    class Rn(ast.NodeTransformer):
        def visit_Attribute(self, node):
            a = _self_attr(node)
            if a is not None:
                return ast.copy_location(ast.Name(id=SLICE_INPUTS.get(a, a), ctx=node.ctx), node)
            return self.generic_visit(node)

        def visit_Raise(self, node):   # the message was built by dropped statements
            cls = node.exc.func if isinstance(node.exc, ast.Call) else node.exc
            return ast.copy_location(ast.Raise(exc=ast.Call(func=cls, args=[], keywords=[]), cause=None), node)

    body = [Rn().visit(copy.deepcopy(st)) for st in kept]
    body.append(ast.Return(value=ast.Tuple(elts=[ast.Name(id=s_, ctx=ast.Load()) for s_ in SLICE_SEEDS],
                                           ctx=ast.Load())))
    fn = ast.FunctionDef(name="f", args=ast.arguments(posonlyargs=[], args=[ast.arg(arg=SLICE_INPUTS[a]) for a in
                                                                             sorted(SLICE_INPUTS)],
                                                      kwonlyargs=[], kw_defaults=[], defaults=[]),
                         body=body, decorator_list=[], type_params=[])
    m = ast.Module(body=[fn], type_ignores=[])
    ast.fix_missing_locations(m)
    import importlib
    if repo not in sys.path:
        sys.path.insert(0, repo)
    exc = importlib.import_module("sqlite_dissect.exception")
    g = {"CellParsingError": exc.CellParsingError}
    g.update({k: v for k, v in vars(exc).items() if isinstance(v, type)})
    exec(compile(m, "<slice>", "exec"), g)
    return g["f"]


def selftest(seed=0, verbose=True):
    """Run the prelude operations and every generated function next to the interpreter on a grid of inputs.
    Not part of the proof: it validates the two things the equality theorems cannot see (the prelude's reading of
    Python and the translator's emission).  Returns the number of differences."""
    import importlib
    import random
    import logging
    repo = os.environ.get("VERIF_REPO", "/repo")
    if repo not in sys.path:
        sys.path.insert(0, repo)
    logging.getLogger("sqlite_dissect").setLevel(logging.CRITICAL + 1)
    from ..impl.canon import classify
    U = importlib.import_module("sqlite_dissect.utilities")
    CU = importlib.import_module("sqlite_dissect.carving.utilities")
    rng = random.Random(seed)
    lean, want = [], []

    def E(f):
        try:
            return "ok " + f()
        except Exception as e:  # noqa
            return "err " + classify(e)

    def L(l):
        return "[" + ", ".join(str(x) for x in l) + "]"

    def I(i):
        return f"({i} : Int)"

    def add(lean_expr, py_result):
        lean.append(f"  IO.println ({lean_expr})")
        want.append(py_result)

    # --- prelude: integer operations
    grid = list(range(-9, 10)) + [127, 128, 255, 256, -128, -129, -256, 2**63 - 1, 2**63, -2**63, 2**64, -2**64 - 1,
                                  rng.getrandbits(70), -rng.getrandbits(70)]
    for a in grid:
        for b in grid:
            add(f"sI (pyAnd {I(a)} {I(b)}) ++ \" \" ++ sI (pyOr {I(a)} {I(b)}) ++ \" \" ++ sP sI (pyFloorDiv {I(a)} {I(b)})"
                f" ++ \" \" ++ sP sI (pyMod {I(a)} {I(b)}) ++ \" \" ++ sP sI ((pyTrueDiv {I(a)} {I(b)}).map pyIntOfRat)",
                f"{a & b} {a | b} " + E(lambda: str(a // b)) + " " + E(lambda: str(a % b)) + " "
                + E(lambda: str(int(__import__('fractions').Fraction(a, b).__trunc__()))))
        for k in (-2, -1, 0, 1, 7, 8, 64):
            add(f"sP sI (pyShl {I(a)} {I(k)}) ++ \" \" ++ sP sI (pyShr {I(a)} {I(k)})",
                E(lambda: str(a << k)) + " " + E(lambda: str(a >> k)))
        add(f"String.ofList (pyStrInt {I(a)})", str(a))
    # --- prelude: slices
    for n in range(0, 4):
        b = bytes(rng.randrange(256) for _ in range(n))
        for lo in range(-5, 6):
            for hi in range(-5, 6):
                add(f"sP sI (pyOrdSlice (Buf.ofList {L(b)}) {I(lo)} {I(hi)})", E(lambda: str(ord(b[lo:hi]))))
    for s_ in ["00", "0a", "0A", "ff", "0", "0g", "-1", "010", "0102", ""]:
        chars = "[" + ", ".join(f"'{c}'" for c in s_) + "]"
        add(f"sP sL (pyUnhexlify ({chars} : List Char))", E(lambda: L(__import__('binascii').unhexlify(s_))))
    # --- generated functions
    fuel = 100
    bufs = [bytes([a]) for a in range(0, 256, 17)] + [bytes([a, b]) for a in (0x80, 0x81, 0xFF, 0x7F) for b in
                                                      (0, 1, 0x7F, 0x80, 0xFF)]
    for _ in range(40):
        n = rng.choice([0, 1, 2, 3, 8, 9, 10, 12])
        bufs.append(bytes(rng.choice([rng.randrange(256), 0x80 | rng.randrange(128)]) for _ in range(n)))
    bufs.append(b"\xff" * 9)
    bufs.append(b"\xff" * 12)
    bufs.append(b"\x80" * 8 + b"\x01")
    for b in bufs:
        for off in (0, 1, 2, len(b), len(b) + 1, -1, -2, -len(b) - 1):
            add(f"sP (fun (a, b) => sI a ++ \" \" ++ sI b) (decode_varint (Buf.ofList {L(b)}) {I(off)})",
                E(lambda: "%d %d" % U.decode_varint(b, off)))
            for mx in (9, 5, 0):
                def rev():
                    r = CU.decode_varint_in_reverse(bytearray(b), off, mx)
                    return "%d %d" % r
                add(f"sP (fun (a, b) => sI a ++ \" \" ++ sI b) (decode_varint_in_reverse {fuel} (Buf.ofList {L(b)}) "
                    f"{I(off)} {I(mx)})", E(rev))
    ints = list(range(-5, 40)) + [2**k + d for k in (6, 7, 8, 13, 14, 20, 21, 27, 28, 31, 32, 35, 42, 49, 55, 56, 57, 62,
                                                      63, 64) for d in (-1, 0, 1)]
    ints += [-x for x in ints] + [rng.getrandbits(64) - 2**63 for _ in range(50)]
    for v in ints:
        add(f"sP sL (encode_varint {fuel} {I(v)})", E(lambda: L(U.encode_varint(v))))
        add(f"sP sI (get_serial_type_signature {I(v)})", E(lambda: str(U.get_serial_type_signature(v))))

        def size():
            r = CU.get_content_size(v)
            if isinstance(r, float):
                if r != int(r):
                    raise RuntimeError("non-integral float")
                r = int(r)
            return str(r)
        if abs(v) < 2 ** 53:   # beyond that the float quotient is rounded (the trusted exactness assumption)
            add(f"sP sI (get_content_size {I(v)})", E(size))
        add(f"sP sL (generate_regex_for_simplified_serial_type {I(v)})",
            E(lambda: L(CU.generate_regex_for_simplified_serial_type(v))))
    for ps in (-3, 0, 1, 3, 4, 5, 6, 7, 12, 100, 512, 1024, 4096, 65536):
        for n in (-5, -1, 0, 1, 2, 3, 4, 5, 507, 508, 509, 1016, 1017, 4091, 4092, 4093, 10**6, 2**40 + 3):
            add(f"sP (fun (a, b) => sI a ++ \" \" ++ sI b) (calculate_expected_overflow {I(n)} {I(ps)})",
                E(lambda: "%d %d" % U.calculate_expected_overflow(n, ps)))
    consts = _consts(repo)
    for spec in CELLS:
        f = _py_sliced_function(spec, repo, consts)
        for u in (-20, 0, 1, 3, 4, 5, 12, 13, 50, 100, 195, 196, 197, 255, 267, 512, 1024, 4096, 32768, 65536):
            ps = {0, 1, u - 36, u - 35, u - 34, u, 2 * u, 10 * u + 7, 10**7, -3}
            ps |= {((u - 12) * 64) // 255 - 23 + d for d in (-1, 0, 1, 2)}
            ps |= {rng.randrange(0, 8 * abs(u) + 10) for _ in range(12)}
            for p in sorted(ps):
                add(f"sP (fun (a, b) => sI a ++ \" \" ++ toString b) ({spec['lean']} {I(u)} {I(p)})",
                    E(lambda: "%d %s" % ((lambda r: (r[0], "true" if r[1] else "false"))(f(u, p)))))
    src = "\n".join([
        "import SqliteDissect.Generated.PyFun",
        "open SqliteDissect SqliteDissect.Generated.PyFun",
        "def sI (i : Int) : String := toString i",
        "def sL (l : List Nat) : String := \"[\" ++ \", \".intercalate (l.map toString) ++ \"]\"",
        "def sP {α : Type} (f : α → String) : Py α → String",
        "  | .ok a => \"ok \" ++ f a",
        "  | .error e => \"err \" ++ e.name",
    ] + [ln for k in range(0, len(lean), 100) for ln in [f"def part{k // 100} : IO Unit := do"] + lean[k:k + 100]]
      + ["def main : IO Unit := do"] + [f"  part{k // 100}" for k in range(0, len(lean), 100)]) + "\n"
    tmp = os.path.join(LEAN, ".lake", f"pyfun_selftest_{os.getpid()}.lean")
    os.makedirs(os.path.dirname(tmp), exist_ok=True)
    with open(tmp, "w", encoding="utf-8") as fh:
        fh.write(src)
    try:
        subprocess.run(["lake", "build", "SqliteDissect.Generated.PyFun"], cwd=LEAN, check=True,
                       stdout=subprocess.PIPE, stderr=subprocess.STDOUT)
        p = subprocess.run(["lake", "env", "lean", "--run", tmp], cwd=LEAN, stdout=subprocess.PIPE,
                           stderr=subprocess.STDOUT, text=True, timeout=3600)
    finally:
        try:
            os.unlink(tmp)
        except OSError:
            pass
    got = p.stdout.split("\n")
    if got and got[-1] == "":
        got.pop()
    bad = 0
    if len(got) != len(want):
        print(f"selftest: {len(got)} lines from Lean, {len(want)} expected; tail: {got[-5:]}")
        bad += 1
    for i, (g, w) in enumerate(zip(got, want)):
        if g != w:
            bad += 1
            if verbose and bad <= 20:
                print(f"selftest DIFFERENCE at {lean[i].strip()}\n   lean:   {g}\n   python: {w}")
    print(f"selftest: {len(want)} evaluations, {bad} differences")
    return bad


if __name__ == "__main__":
    if "--selftest" in sys.argv:
        sys.exit(1 if selftest() else 0)
    elif "--print" in sys.argv:
        t, fs = render()
        sys.stdout.write(t)
        for f in fs:
            print("FAILED:", f, file=sys.stderr)
    else:
        print(regenerate())
