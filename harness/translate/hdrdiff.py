"""Translator 6: `WriteAheadLogCommitRecord._parse_database_header_differences` (file/wal/commit_record.py) and
`compare_database_headers` (file/wal/utilities.py) -> lean/SqliteDissect/Generated/PyHdrDiff.lean

A specialised translator (pyfun.py is not generalised): the method is ~750 lines of one repeated shape — test whether an
attribute name is a key of the dictionary of header differences, read the (previous, new) pair, compare, raise or set a
flag on `self`, delete the key — and ends with "anything left in the dictionary -> raise".  It is re-translated from
the *current* source on every run; `Properties/GenHdrDiff.lean` proves the generated function, applied to the
dictionary `compare_database_headers` produces for two accepted headers, equal to the hand-written
`Model.classifyDifferences` the C17Step theorems are about.

What is emitted
* `HeaderDifferenceFlags`: one field per attribute of `self` the method assigns, in the order of the initialisations
  that immediately precede the call `self._parse_database_header_differences()` in `__init__` (`False` -> `Bool`,
  `None` -> `Option Int`); `HeaderDifferenceFlags.initial` holds those initial values.  `self.database_text_encoding`
  is a property of the superclass (not initialised there): `Option String`, `none` = never assigned.
* `compare_database_headers`: the loop `for key in previous.__dict__.keys(): if previous.key != new.key: d[key] =
  (previous.key, new.key)` unrolled over the attributes of `PyHeader.DatabaseHeader` (the structure pyfun.py generates
  from `DatabaseHeader.__init__`) in `__dict__` order (those `SQLiteHeader.__init__` sets first).  The function is
  accepted only if its statements are exactly that loop after two `isinstance` guards (alpha-renaming allowed).
* one `def parse_database_header_differences.block<k>` per top-level statement of the method (a `for` over a literal
  list of strings is unrolled into one block per element first); every block maps the working dictionary and the flags
  to `Py (PyDiffDict × HeaderDifferenceFlags)`, its `if`s get the rest of the block inlined into their branches;
* `parse_database_header_differences committed_page_size master_schema_modified self_database_header_differences`:
  the early `return` on an empty dictionary, the copy, the blocks in order, the flags.

Subset (whitelist).  Statements: docstrings, logging calls and assignments of message strings / `.format(..)` (dropped;
a subscript of the dictionary inside the dropped arguments is still evaluated for its `KeyError`), `if not <dict>:
return` at top level, `<local> = dict.copy(self.database_header_differences)` (once, top level), `K in d` / `K not in d`
for the working dictionary or `self.database_header_differences` with K a member of DATABASE_HEADER_VERSIONED_FIELDS /
a string literal / the variable of an unrolled loop, `<local> = d[K]`, `<local>[0]`, `<local>[1]`, `<local> = <int
expression>`, `del <working dict>[K]`, `self.<flag> = True | False | <int expression>`, `self.database_text_encoding =
<string constant of constants.py>`, if / elif / else, `for v in [<string literals>]` at top level, `raise
<exception class>(..)`, pass.  Expressions: integer literals, integer constants imported from constants.py, locals,
`self.committed_page_size` (Int), `self.master_schema_modified` (Bool, only as a truth value), + and -, one comparison
(== != < <= > >=), and / or / not, truth value of an integer local (`!= 0`) and of a dictionary (non-empty).  ANYTHING
else raises `Unsupported` naming the source line: the generated file then consists of a deliberately false obligation
(`example : TranslatorFailed ".."`), `Properties/GenHdrDiff.lean` does not build, and the proof stage is red — never a
stale model."""
import ast
import copy
import json
import os
import subprocess
import sys

from ..leanio.build import LEAN
from . import pyfun
from .pyfun import ENUM_GETATTR, Module, Unsupported, _dump, _self_attr, failing, ident, indent, is_logging_call

OUT = os.path.join(LEAN, "SqliteDissect", "Generated", "PyHdrDiff.lean")
COMMIT = "sqlite_dissect/file/wal/commit_record.py"
WALUTIL = "sqlite_dissect/file/wal/utilities.py"
CLS = "WriteAheadLogCommitRecord"
METHOD = "_parse_database_header_differences"
COMPARE = "compare_database_headers"
ENUM = "DATABASE_HEADER_VERSIONED_FIELDS"
DIFFS = "database_header_differences"            # the attribute of self that holds the dictionary
INPUTS = {"committed_page_size": "int", "master_schema_modified": "bool"}
PROPERTY_ATTRS = {"database_text_encoding": "str"}   # assigned through a property of the superclass
FLAGS_VAR = "self_flags"
SELF_DIFFS = "self_" + DIFFS
MAX_LINES = 120   # per block

TRUSTED = ("translator harness/translate/hdrdiff.py + lean/SqliteDissect/PyDict.lean (Python source of "
           "WriteAheadLogCommitRecord._parse_database_header_differences and compare_database_headers -> "
           "Generated/PyHdrDiff.lean, proved equal to Model.classifyDifferences in Properties/GenHdrDiff.lean); trusted: "
           "the reading of a dict of differences as an association list with distinct keys, of `obj.__dict__` as the "
           "attributes in order of first assignment, the dropping of logging / message formatting (reads of other "
           "attributes of self inside them included), that the attributes the method reads hold an int "
           "(committed_page_size) and a bool (master_schema_modified), that assigning self.database_text_encoding only "
           "records the value (the setter of the file handle, which refuses to change an encoding already set, is not "
           "part of the method), and the translator itself, exercised against the interpreter by "
           "`python -m harness.translate.hdrdiff --selftest`")

ENUM_DICT_INIT = ("Assign(targets=[Attribute(value=Name(id='self'), attr='_store')], value=Name(id='data'))")

# compare_database_headers after dropping docstrings / logging / message assignments, names replaced by v0, v1, ..
# in order of first occurrence (parameters first)
COMPARE_TEMPLATE = [
    "If(test=UnaryOp(op=Not(), operand=Call(func=Name(id='isinstance'), args=[Name(id='v0'), Name(id='DatabaseHeader')])), "
    "body=[Raise(exc=Call(func=Name(id='ValueError')))])",
    "If(test=UnaryOp(op=Not(), operand=Call(func=Name(id='isinstance'), args=[Name(id='v1'), Name(id='DatabaseHeader')])), "
    "body=[Raise(exc=Call(func=Name(id='ValueError')))])",
    "Assign(targets=[Name(id='v2')], value=Dict())",
    "For(target=Name(id='v3'), iter=Call(func=Attribute(value=Attribute(value=Name(id='v0'), attr='__dict__'), "
    "attr='keys')), body=[Assign(targets=[Name(id='v4')], value=Call(func=Name(id='getattr'), args=[Name(id='v0'), "
    "Name(id='v3')])), Assign(targets=[Name(id='v5')], value=Call(func=Name(id='getattr'), args=[Name(id='v1'), "
    "Name(id='v3')])), If(test=Compare(left=Name(id='v4'), ops=[NotEq()], comparators=[Name(id='v5')]), "
    "body=[Assign(targets=[Subscript(value=Name(id='v2'), slice=Name(id='v3'))], value=Tuple(elts=[Name(id='v4'), "
    "Name(id='v5')]))])])",
    "Return(value=Name(id='v2'))",
]


def lean_str(s):
    return json.dumps(s, ensure_ascii=True)


# ------------------------------------------------------------------------------------------------ constants.py
def versioned_fields(repo):
    """{member: attribute name} of `DATABASE_HEADER_VERSIONED_FIELDS = Enum({..})`, provided the `Enum` class still
    answers `X.MEMBER` with `self._store["MEMBER"]` and keeps a dict argument as `_store`"""
    path = os.path.join(repo, "sqlite_dissect", "constants.py")
    src = open(path, encoding="utf-8").read()
    tree = ast.parse(src)
    rel = "sqlite_dissect/constants.py"
    cls = [n for n in tree.body if isinstance(n, ast.ClassDef) and n.name == "Enum"]
    if len(cls) != 1:
        raise Unsupported(f"{rel}: expected exactly one class `Enum`")
    meth = {n.name: n for n in cls[0].body if isinstance(n, ast.FunctionDef)}
    ga, init = meth.get("__getattr__"), meth.get("__init__")
    if ga is None or init is None or len(ga.body) != 1 or _dump(ga.body[0]) != ENUM_GETATTR:
        raise Unsupported(f"{rel}: `Enum.__getattr__` is not `return self._store[key]`", ga or cls[0], src)
    if any(n in meth for n in ("__getattribute__", "__new__")):
        raise Unsupported(f"{rel}: `Enum` customises attribute access", cls[0], src)
    first = init.body[0] if init.body else None
    ok = (isinstance(first, ast.If) and len(first.orelse) == 1 and isinstance(first.orelse[0], ast.If)
          and _dump(first.orelse[0].test) == "Call(func=Name(id='isinstance'), args=[Name(id='data'), Name(id='dict')])"
          and len(first.orelse[0].body) == 1 and _dump(first.orelse[0].body[0]) == ENUM_DICT_INIT
          and _dump(first.test) == "Call(func=Name(id='isinstance'), args=[Name(id='data'), Name(id='list')])")
    if not ok:
        raise Unsupported(f"{rel}: `Enum.__init__` does not keep a dict argument as `_store`", init, src)
    hits = []
    for st in tree.body:
        tg = []
        if isinstance(st, ast.Assign):
            tg = st.targets
        elif isinstance(st, (ast.AugAssign, ast.AnnAssign)):
            tg = [st.target]
        if any(isinstance(x, ast.Name) and x.id == ENUM for t in tg for x in ast.walk(t)):
            hits.append(st)
    if len(hits) != 1:
        raise Unsupported(f"{rel}: `{ENUM}` is assigned {len(hits)} times")
    st = hits[0]
    v = st.value if isinstance(st, ast.Assign) else None
    if not (isinstance(v, ast.Call) and isinstance(v.func, ast.Name) and v.func.id == "Enum" and len(v.args) == 1
            and not v.keywords and isinstance(v.args[0], ast.Dict)
            and all(isinstance(k, ast.Constant) and isinstance(k.value, str) for k in v.args[0].keys)
            and all(isinstance(k, ast.Constant) and isinstance(k.value, str) for k in v.args[0].values)):
        raise Unsupported(f"{rel}: `{ENUM}` is not `Enum({{<string>: <string>, ..}})`", st, src)
    out = {}
    for k, val in zip(v.args[0].keys, v.args[0].values):
        if k.value in out:
            raise Unsupported(f"{rel}: `{ENUM}` repeats the member {k.value}", st, src)
        out[k.value] = val.value
    return out


def string_constants(repo):
    """module-level `NAME = "literal"` of constants.py (assigned once)"""
    src = open(os.path.join(repo, "sqlite_dissect", "constants.py"), encoding="utf-8").read()
    tree = ast.parse(src)
    count, val = {}, {}
    for st in tree.body:
        if isinstance(st, ast.Assign):
            for t in st.targets:
                for x in ast.walk(t):
                    if isinstance(x, ast.Name):
                        count[x.id] = count.get(x.id, 0) + 1
            if (len(st.targets) == 1 and isinstance(st.targets[0], ast.Name) and isinstance(st.value, ast.Constant)
                    and isinstance(st.value.value, str)):
                val[st.targets[0].id] = st.value.value
    return {k: v for k, v in val.items() if count.get(k) == 1}


# ------------------------------------------------------------------------------------------------ DatabaseHeader
def header_attributes(repo, consts):
    """[(attribute, Lean type)] of DatabaseHeader in `__dict__` order: the attributes the base constructor sets first,
    then the others in the order of their first assignment (the field order of the generated structure)"""
    spec = [c for c in pyfun.CLASSES if c["cls"] == "DatabaseHeader"][0]
    lines = pyfun.translate_class(spec, repo, consts)
    fields = []
    inside = False
    for ln in lines:
        if ln.startswith("structure DatabaseHeader where"):
            inside = True
            continue
        if inside:
            s = ln.strip()
            if s.startswith("deriving"):
                break
            if " : " in s:
                nm, ty = s.split(" : ", 1)
                fields.append((nm.strip(), ty.strip()))
    if not fields:
        raise Unsupported(f"{spec['file']}: no structure was generated for DatabaseHeader")
    mod = Module(spec["file"], repo)
    cs = [n for n in mod.tree.body if isinstance(n, ast.ClassDef) and n.name == "DatabaseHeader"][0]
    base = pyfun._super_assigns_only_none(mod, cs, repo)
    names = [f[0] for f in fields]
    for b in base:
        if b not in names:
            raise Unsupported(f"{spec['file']}: base attribute `{b}` is not an attribute of DatabaseHeader")
    order = [f for b in base for f in fields if f[0] == b] + [f for f in fields if f[0] not in base]
    for nm, ty in order:
        if ty not in ("Int", "List Nat"):
            raise Unsupported(f"{spec['file']}: attribute `{nm}` has type {ty}: only Int and byte strings can be compared")
    return order


def _is_doc(st):
    return isinstance(st, ast.Expr) and isinstance(st.value, ast.Constant) and isinstance(st.value.value, str)


def _is_msg_assign(st):
    """`name = "literal"` / `name = f".."` / `name = <x>.format(..)`"""
    return (isinstance(st, ast.Assign) and len(st.targets) == 1 and isinstance(st.targets[0], ast.Name)
            and pyfun._is_msg_value(st.value))


def _strip_noise(stmts):
    """statements without docstrings, logging calls, `logger = getLogger(..)` and message assignments (recursively)"""
    out = []
    for st in stmts:
        if _is_doc(st) or (isinstance(st, ast.Expr) and is_logging_call(st.value)) or _is_msg_assign(st):
            continue
        if (isinstance(st, ast.Assign) and isinstance(st.value, ast.Call) and isinstance(st.value.func, ast.Name)
                and st.value.func.id == "getLogger"):
            continue
        st = copy.copy(st)
        for f in ("body", "orelse"):
            if hasattr(st, f) and isinstance(getattr(st, f), list):
                setattr(st, f, _strip_noise(getattr(st, f)))
        if isinstance(st, ast.Raise) and isinstance(st.exc, ast.Call):
            st.exc = ast.Call(func=st.exc.func, args=[], keywords=[])
        out.append(st)
    return out


def translate_compare(repo, attrs):
    mod = Module(WALUTIL, repo)
    fn = mod.function(COMPARE)
    a = fn.args
    if a.vararg or a.kwarg or a.kwonlyargs or a.posonlyargs or a.defaults or len(a.args) != 2:
        raise Unsupported(f"`{COMPARE}` does not take exactly two positional parameters", fn, mod.src)
    if mod.imported.get("DatabaseHeader") != ("sqlite_dissect.file.database.header", "DatabaseHeader"):
        raise Unsupported("`DatabaseHeader` is not imported from sqlite_dissect.file.database.header", fn, mod.src)
    for nm in ("isinstance", "getattr", "ValueError"):
        if nm in mod.module_defs or nm in mod.imported:
            raise Unsupported(f"`{nm}` is rebound in {WALUTIL}", fn, mod.src)
    names = {}

    def canon(nm):
        if nm not in names:
            names[nm] = f"v{len(names)}"
        return names[nm]

    for p in a.args:
        canon(p.arg)
    local = set(pyfun.assigned_names(fn.body)) | {p.arg for p in a.args}

    class Rn(ast.NodeTransformer):
        def visit_Name(self, node):
            if node.id in local:
                return ast.copy_location(ast.Name(id=canon(node.id), ctx=node.ctx), node)
            return node

    body = _strip_noise(fn.body)
    if len(body) != len(COMPARE_TEMPLATE):
        raise Unsupported(f"`{COMPARE}` has {len(body)} effective statements, the reflection loop this translator "
                          f"reads has {len(COMPARE_TEMPLATE)}", fn, mod.src)
    for st, want in zip(body, COMPARE_TEMPLATE):
        got = _dump(Rn().visit(copy.deepcopy(st))).replace("Dict(keys=[])", "Dict()")
        if got != want:
            raise Unsupported(f"statement of `{COMPARE}` is not the expected step of the reflection loop over "
                              f"`__dict__`", st, mod.src)
    p0, p1 = ident(a.args[0].arg), ident(a.args[1].arg)
    if p0 == p1 or "bytesVal" in (p0, p1):
        raise Unsupported(f"parameter names of `{COMPARE}` clash", fn, mod.src)
    lines = [
        f"/-- `{COMPARE}` of {WALUTIL}: the dictionary `{{attribute: (previous value, new value)}}` of the attributes",
        "in which two `DatabaseHeader` objects differ, in `__dict__` order (`bytesVal` encodes the values that are byte /",
        "hex strings, which `_parse_database_header_differences` never reads) -/",
        f"def {COMPARE} (bytesVal : List Nat → Int) ({p0} {p1} : PyHeader.DatabaseHeader) : PyDiffDict :=",
    ]
    for nm, ty in attrs:
        f = ident(nm)
        if ty == "Int":
            val = f"({p0}.{f}, {p1}.{f})"
        else:
            val = f"(bytesVal {p0}.{f}, bytesVal {p1}.{f})"
        lines.append(f"  pyDiffCons (decide ({p0}.{f} ≠ {p1}.{f})) {lean_str(nm)} {val} <|")
    lines.append("  []")
    return lines


# ------------------------------------------------------------------------------------------------ the method
class Env:
    """types of the local variables on one path: 'pair' | 'int' | 'msg'"""

    def __init__(self, types=None):
        self.types = dict(types or {})

    def fork(self):
        return Env(self.types)


class MethodTranslator:
    def __init__(self, repo, consts):
        self.repo = repo
        self.consts = consts
        self.mod = Module(COMMIT, repo)
        self.src = self.mod.src
        self.fn = self.mod.method(CLS, METHOD)
        a = self.fn.args
        if a.vararg or a.kwarg or a.kwonlyargs or a.posonlyargs or a.defaults or len(a.args) != 1 \
                or a.args[0].arg != "self":
            raise Unsupported(f"`{CLS}.{METHOD}` takes more than `self`", self.fn, self.src)
        self.enum = versioned_fields(repo)
        self.strings = string_constants(repo)
        self.check_producer()
        self.dict_var = None
        self.flags = self.initial_flags()      # [(attr, 'bool' | 'optint' | 'optstr', initial Lean text)]
        self.flag_ty = {a_: t for a_, t, _ in self.flags}
        self.locals = set(pyfun.assigned_names(self.fn.body)) - {"self"}
        for x in ast.walk(self.fn):
            if isinstance(x, ast.Name) and x.id == "self" and not isinstance(x.ctx, ast.Load):
                raise Unsupported("`self` is assigned", x, self.src)
            if isinstance(x, (ast.With, ast.Try, ast.While, ast.Global, ast.Nonlocal, ast.FunctionDef, ast.Lambda,
                              ast.ClassDef, ast.NamedExpr, ast.AugAssign, ast.AnnAssign, ast.Import, ast.ImportFrom,
                              ast.ListComp, ast.DictComp, ast.SetComp, ast.GeneratorExp, ast.Await, ast.Yield,
                              ast.YieldFrom, ast.Starred)) and x is not self.fn:
                raise Unsupported(f"{type(x).__name__} outside the subset", x, self.src)
        for nm in self.locals:
            if ident(nm) in (FLAGS_VAR, SELF_DIFFS) or ident(nm) in INPUTS:
                raise Unsupported(f"local `{nm}` clashes with a name the translator introduces", self.fn, self.src)
        for nm in ("dict",):
            if nm in self.mod.module_defs or nm in self.mod.imported or nm in self.locals:
                raise Unsupported(f"`{nm}` is rebound", self.fn, self.src)

    def fail(self, msg, node):
        raise Unsupported(msg, node, self.src)

    def check_producer(self):
        """`self.database_header_differences` is what `compare_database_headers(<previous>, <new>)` returned, or `{}`:
        every assignment of the attribute in the class has one of these two forms, `compare_database_headers` is the
        function of file/wal/utilities.py, and no method stores into / deletes from / calls a mutating method of it"""
        if self.mod.imported.get(COMPARE) != ("sqlite_dissect.file.wal.utilities", COMPARE) \
                or COMPARE in self.mod.module_defs:
            raise Unsupported(f"`{COMPARE}` is not the function imported from sqlite_dissect.file.wal.utilities",
                              self.fn, self.src)
        cls = [n for n in self.mod.tree.body if isinstance(n, ast.ClassDef) and n.name == CLS][0]
        assigned = 0
        for x in ast.walk(cls):
            if isinstance(x, ast.Assign):
                for t in x.targets:
                    for y in ast.walk(t):
                        if _self_attr(y) == DIFFS:
                            if y is not t or len(x.targets) != 1:
                                self.fail(f"`self.{DIFFS}` is stored into", x)
                            v = x.value
                            ok = (isinstance(v, ast.Dict) and not v.keys) or (
                                isinstance(v, ast.Call) and isinstance(v.func, ast.Name) and v.func.id == COMPARE
                                and len(v.args) == 2 and not v.keywords)
                            if not ok:
                                self.fail(f"`self.{DIFFS}` is assigned something other than `{COMPARE}(previous, new)` "
                                          f"or `{{}}`", x)
                            assigned += 1
            elif isinstance(x, (ast.AugAssign, ast.AnnAssign, ast.Delete)):
                tg = x.targets if isinstance(x, ast.Delete) else [x.target]
                if any(_self_attr(y) == DIFFS for t in tg for y in ast.walk(t)):
                    self.fail(f"`self.{DIFFS}` is modified in place", x)
            elif (isinstance(x, ast.Call) and isinstance(x.func, ast.Attribute) and _self_attr(x.func.value) == DIFFS
                  and x.func.attr not in ("items", "keys", "values", "copy", "get")):
                self.fail(f"`self.{DIFFS}.{x.func.attr}(..)`: the dictionary may be modified in place", x)
        if assigned == 0:
            raise Unsupported(f"`self.{DIFFS}` is assigned nowhere in `{CLS}`", self.fn, self.src)

    # ---- the initial values of the flags, from __init__
    def initial_flags(self):
        init = self.mod.method(CLS, "__init__")
        calls = [i for i, st in enumerate(init.body)
                 if isinstance(st, ast.Expr) and isinstance(st.value, ast.Call)
                 and _self_attr(st.value.func) == METHOD]
        every = [n for n in ast.walk(self.mod.tree) if isinstance(n, ast.Attribute) and n.attr == METHOD]
        if len(calls) != 1 or len(every) != 1:
            raise Unsupported(f"`self.{METHOD}()` is not called exactly once, as a top-level statement of "
                              f"`{CLS}.__init__`", init, self.src)
        call = init.body[calls[0]].value
        if call.args or call.keywords:
            self.fail(f"`self.{METHOD}` is called with arguments", call)
        out = []
        i = calls[0] - 1
        while i >= 0:
            st = init.body[i]
            if _is_doc(st):
                i -= 1
                continue
            if (isinstance(st, ast.Assign) and len(st.targets) == 1 and _self_attr(st.targets[0]) is not None
                    and isinstance(st.value, ast.Constant) and (st.value.value is None or st.value.value is False
                                                                or st.value.value is True)):
                v = st.value.value
                out.append((_self_attr(st.targets[0]), "optint" if v is None else "bool",
                            "none" if v is None else ("true" if v else "false")))
                i -= 1
                continue
            break
        out.reverse()
        seen = set()
        for a_, _t, _v in out:
            if a_ in seen:
                raise Unsupported(f"`self.{a_}` is initialised twice before `self.{METHOD}()`", init, self.src)
            seen.add(a_)
        for a_, t in PROPERTY_ATTRS.items():
            if a_ in seen:
                raise Unsupported(f"`self.{a_}` is initialised as a plain attribute", init, self.src)
            out.append((a_, "optstr", "none"))
        return out

    # ---- keys and dictionaries
    def key(self, node):
        if isinstance(node, ast.Constant) and isinstance(node.value, str):
            return node.value
        if (isinstance(node, ast.Attribute) and isinstance(node.value, ast.Name) and node.value.id == ENUM):
            if ENUM not in self.mod.const_names or ENUM in self.mod.module_defs or ENUM in self.locals:
                self.fail(f"`{ENUM}` is not the table imported from sqlite_dissect.constants", node)
            if node.attr not in self.enum:
                self.fail(f"`{ENUM}` has no member {node.attr}", node)
            return self.enum[node.attr]
        self.fail("dictionary key that is neither a member of DATABASE_HEADER_VERSIONED_FIELDS nor a string literal",
                  node)

    def dict_expr(self, node):
        """Lean name of a dictionary expression (the working copy or self.database_header_differences)"""
        if isinstance(node, ast.Name) and self.dict_var is not None and node.id == self.dict_var:
            return ident(self.dict_var)
        if _self_attr(node) == DIFFS:
            return SELF_DIFFS
        return None

    # ---- expressions
    def int_expr(self, node, env):
        if isinstance(node, ast.Constant) and isinstance(node.value, int) and not isinstance(node.value, bool):
            return str(node.value) if node.value >= 0 else f"({node.value})"
        if isinstance(node, ast.Name):
            if env.types.get(node.id) == "int":
                return ident(node.id)
            if node.id in self.locals:
                self.fail(f"local `{node.id}` is not known to hold an integer here", node)
            if (node.id in self.mod.const_names and node.id not in self.mod.module_defs
                    and isinstance(self.consts.get(node.id), int) and not isinstance(self.consts.get(node.id), bool)):
                return f"(Generated.{node.id} : Int)"
            self.fail(f"name `{node.id}` is not an integer local or an integer constant of constants.py", node)
        if isinstance(node, ast.Subscript):
            if (isinstance(node.value, ast.Name) and env.types.get(node.value.id) == "pair"
                    and isinstance(node.slice, ast.Constant) and node.slice.value in (0, 1)
                    and not isinstance(node.slice.value, bool)):
                return f"{ident(node.value.id)}.{node.slice.value + 1}"
            self.fail("subscript that is not `<pair local>[0]` / `<pair local>[1]`", node)
        if _self_attr(node) is not None:
            a_ = _self_attr(node)
            if INPUTS.get(a_) == "int":
                return ident(a_)
            self.fail(f"`self.{a_}` is not an integer input of the method", node)
        if isinstance(node, ast.BinOp) and isinstance(node.op, (ast.Add, ast.Sub)):
            op = "+" if isinstance(node.op, ast.Add) else "-"
            return f"({self.int_expr(node.left, env)} {op} {self.int_expr(node.right, env)})"
        self.fail("expression outside the integer subset", node)

    def cond(self, node, env):
        """a Python truth value as a decidable Lean proposition"""
        if isinstance(node, ast.BoolOp):
            op = " ∧ " if isinstance(node.op, ast.And) else " ∨ "
            return "(" + op.join(self.cond(v, env) for v in node.values) + ")"
        if isinstance(node, ast.UnaryOp) and isinstance(node.op, ast.Not):
            return f"(¬ {self.cond(node.operand, env)})"
        if isinstance(node, ast.Compare):
            if len(node.ops) != 1:
                self.fail("chained comparison", node)
            op, right = node.ops[0], node.comparators[0]
            if isinstance(op, (ast.In, ast.NotIn)):
                d = self.dict_expr(right)
                if d is None:
                    self.fail("membership test in something other than the dictionary of differences", node)
                t = f"(pyDictMem {d} {lean_str(self.key(node.left))} = true)"
                return t if isinstance(op, ast.In) else f"(¬ {t})"
            sym = {ast.Eq: "=", ast.NotEq: "≠", ast.Lt: "<", ast.LtE: "≤", ast.Gt: ">", ast.GtE: "≥"}.get(type(op))
            if sym is None:
                self.fail("comparison operator outside the subset", node)
            return f"({self.int_expr(node.left, env)} {sym} {self.int_expr(right, env)})"
        if isinstance(node, ast.Constant) and isinstance(node.value, bool):
            return "True" if node.value else "False"
        d = self.dict_expr(node)
        if d is not None:
            return f"(¬ (pyDictIsEmpty {d} = true))"
        if isinstance(node, ast.Name) and env.types.get(node.id) == "int":
            return f"({ident(node.id)} ≠ 0)"
        if _self_attr(node) is not None and INPUTS.get(_self_attr(node)) == "bool":
            return f"({ident(_self_attr(node))} = true)"
        if _self_attr(node) is not None and INPUTS.get(_self_attr(node)) == "int":
            return f"({ident(_self_attr(node))} ≠ 0)"
        self.fail("condition outside the subset", node)

    # ---- dropped statements: message formatting and logging; subscripts of the dictionary are still evaluated
    def dropped_effects(self, node, env):
        out = []
        for x in ast.walk(node):
            if isinstance(x, ast.Subscript):
                d = self.dict_expr(x.value)
                if d is not None:
                    out.append(f"let _ ← pyDictGet {d} {lean_str(self.key(x.slice))}")
                elif (isinstance(x.value, ast.Name) and env.types.get(x.value.id) == "pair"
                      and isinstance(x.slice, ast.Constant) and x.slice.value in (0, 1)):
                    pass
                else:
                    self.fail("subscript inside a message that is neither the dictionary nor a (previous, new) pair", x)
            elif isinstance(x, ast.Call):
                ok = (isinstance(x.func, ast.Attribute) and x.func.attr == "format") or is_logging_call(x)
                if not ok:
                    self.fail("call inside a message / logging statement", x)
            elif isinstance(x, ast.Name):
                if x.id in self.locals and x.id not in env.types and x.id != self.dict_var:
                    self.fail(f"local `{x.id}` is read in a message before it is assigned on this path", x)
            elif isinstance(x, (ast.Attribute, ast.Constant, ast.JoinedStr, ast.FormattedValue, ast.Load, ast.Store,
                                ast.keyword, ast.Expr, ast.Assign)):
                pass
            else:
                self.fail(f"{type(x).__name__} inside a message / logging statement", x)
        return out

    # ---- statements of one block; `k(env)` yields the lines that finish the block normally
    def stmts(self, sts, env, k):
        if not sts:
            return k(env)
        st, rest = sts[0], sts[1:]
        if _is_doc(st) or isinstance(st, ast.Pass):
            return self.stmts(rest, env, k)
        if isinstance(st, ast.Expr) and is_logging_call(st.value):
            return self.dropped_effects(st.value, env) + self.stmts(rest, env, k)
        if _is_msg_assign(st):
            if st.targets[0].id == self.dict_var:
                self.fail("the working dictionary is assigned again", st)
            pre = self.dropped_effects(st.value, env)
            env = env.fork()
            env.types[st.targets[0].id] = "msg"
            return pre + self.stmts(rest, env, k)
        if isinstance(st, ast.Raise):
            if rest:
                self.fail("statements after `raise`", rest[0])
            return [self.raise_(st)]
        if isinstance(st, ast.Delete):
            if len(st.targets) != 1:
                self.fail("`del` of several targets", st)
            t = st.targets[0]
            if not (isinstance(t, ast.Subscript) and isinstance(t.value, ast.Name) and self.dict_var is not None
                    and t.value.id == self.dict_var):
                self.fail("`del` of something other than an entry of the working dictionary", st)
            d = ident(self.dict_var)
            return [f"let {d} ← pyDictDel {d} {lean_str(self.key(t.slice))}"] + self.stmts(rest, env, k)
        if isinstance(st, ast.Assign):
            if len(st.targets) != 1:
                self.fail("assignment with several targets", st)
            t = st.targets[0]
            if isinstance(t, ast.Name):
                if t.id == self.dict_var:
                    self.fail("the working dictionary is assigned again", st)
                env = env.fork()
                v = st.value
                if isinstance(v, ast.Subscript) and self.dict_expr(v.value) is not None:
                    env.types[t.id] = "pair"
                    line = f"let {ident(t.id)} ← pyDictGet {self.dict_expr(v.value)} {lean_str(self.key(v.slice))}"
                else:
                    text = self.int_expr(v, env)
                    env.types[t.id] = "int"
                    line = f"let {ident(t.id)} : Int := {text}"
                return [line] + self.stmts(rest, env, k)
            a_ = _self_attr(t)
            if a_ is None:
                self.fail("assignment target that is neither a local nor an attribute of self", st)
            ty = self.flag_ty.get(a_)
            if ty is None:
                self.fail(f"`self.{a_}` is not initialised immediately before `self.{METHOD}()` in `__init__` "
                          f"(nor a known property)", st)
            v = st.value
            if ty == "bool":
                if not (isinstance(v, ast.Constant) and isinstance(v.value, bool)):
                    self.fail(f"`self.{a_}` (a flag) is assigned something other than True / False", st)
                text = "true" if v.value else "false"
            elif ty == "optint":
                text = f"some {self.int_expr(v, env)}"
            else:
                if not (isinstance(v, ast.Name) and v.id in self.mod.const_names and v.id not in self.mod.module_defs
                        and v.id not in self.locals and v.id in self.strings):
                    self.fail(f"`self.{a_}` is assigned something other than a string constant of constants.py", st)
                text = f"some {lean_str(self.strings[v.id])}"
            return [f"let {FLAGS_VAR} := {{ {FLAGS_VAR} with {ident(a_)} := {text} }}"] + self.stmts(rest, env, k)
        if isinstance(st, ast.If):
            test = self.cond(st.test, env)
            cont = lambda e: self.stmts(rest, e, k)   # noqa: E731
            body = self.stmts(st.body, env.fork(), cont)
            orelse = self.stmts(st.orelse, env.fork(), cont)
            return [f"if {test} then"] + indent(body) + ["else"] + indent(orelse)
        self.fail(f"{type(st).__name__} statement outside the subset", st)

    def raise_(self, st):
        if st.cause is not None or st.exc is None:
            self.fail("bare `raise` / `raise .. from ..`", st)
        cls = st.exc.func if isinstance(st.exc, ast.Call) else st.exc
        if not isinstance(cls, ast.Name) or cls.id in self.locals or cls.id in self.mod.module_defs:
            self.fail("raise of something other than an exception class known by name", st)
        if cls.id in self.mod.exc_names:
            return ".error .parseError"
        if cls.id in pyfun.BUILTIN_ERRORS and cls.id not in self.mod.imported:
            return f".error .{pyfun.BUILTIN_ERRORS[cls.id]}"
        self.fail(f"raise of unknown exception class `{cls.id}`", st)

    # ---- top level
    def unroll(self, st):
        """`for v in ["a", "b"]: body` -> body[v := "a"]; body[v := "b"]"""
        if st.orelse:
            self.fail("`for .. else`", st)
        if not (isinstance(st.target, ast.Name) and isinstance(st.iter, (ast.List, ast.Tuple))
                and all(isinstance(e, ast.Constant) and isinstance(e.value, str) for e in st.iter.elts)):
            self.fail("`for` that is not over a literal list of strings", st)
        v = st.target.id
        for x in ast.walk(ast.Module(body=st.body, type_ignores=[])):
            if isinstance(x, (ast.Break, ast.Continue, ast.Return)):
                self.fail("break / continue / return inside an unrolled loop", x)
            if isinstance(x, ast.Name) and x.id == v and not isinstance(x.ctx, ast.Load):
                self.fail("the loop variable is assigned inside the loop", x)
        for later in ast.walk(self.fn):
            if (isinstance(later, ast.Name) and later.id == v and getattr(later, "lineno", 0) > st.end_lineno):
                self.fail("the loop variable is used after the loop", later)

        class Sub(ast.NodeTransformer):
            def __init__(self, c):
                self.c = c

            def visit_Name(self, node):
                if node.id == v:
                    return ast.copy_location(ast.Constant(value=self.c), node)
                return node

        out = []
        for e in st.iter.elts:
            out += [Sub(e.value).visit(copy.deepcopy(b)) for b in st.body]
        return out

    def translate(self):
        top = []
        for st in self.fn.body:
            if isinstance(st, ast.For):
                top += self.unroll(st)
            else:
                top.append(st)
        d_ty = "PyDiffDict"
        params = " ".join(f"({ident(a_)} : {'Int' if t == 'int' else 'Bool'})" for a_, t in INPUTS.items())
        args = " ".join(ident(a_) for a_ in INPUTS)
        struct = ["/-- the attributes of `self` that `_parse_database_header_differences` assigns, with the types of the",
                  f"values `{CLS}.__init__` gives them immediately before the call (`database_text_encoding`: the property",
                  "of the superclass; `none` = not assigned by the method) -/",
                  "structure HeaderDifferenceFlags where"]
        lean_t = {"bool": "Bool", "optint": "Option Int", "optstr": "Option String"}
        for a_, t, _v in self.flags:
            struct.append(f"  {ident(a_)} : {lean_t[t]}")
        struct += ["  deriving Repr, DecidableEq", "",
                   f"/-- the values `{CLS}.__init__` assigns immediately before `self.{METHOD}()` -/",
                   "def HeaderDifferenceFlags.initial : HeaderDifferenceFlags :=",
                   "  { " + ", ".join(f"{ident(a_)} := {v}" for a_, _t, v in self.flags) + " }", ""]
        blocks = []
        main = []
        depth = 1
        nblock = 0
        env = Env()
        for st in top:
            if _is_doc(st) or isinstance(st, ast.Pass):
                continue
            # `if <cond>: return`
            if (isinstance(st, ast.If) and not st.orelse
                    and [type(x) for x in st.body if not _is_doc(x)] == [ast.Return]):
                ret = [x for x in st.body if isinstance(x, ast.Return)][0]
                if ret.value is not None and not (isinstance(ret.value, ast.Constant) and ret.value.value is None):
                    self.fail("`return` of a value", ret)
                main.append("  " * depth + f"if {self.cond(st.test, env)} then")
                main.append("  " * (depth + 1) + f".ok {FLAGS_VAR}")
                main.append("  " * depth + "else")
                depth += 1
                continue
            # the working copy
            if (isinstance(st, ast.Assign) and len(st.targets) == 1 and isinstance(st.targets[0], ast.Name)
                    and self.is_copy(st.value)):
                if self.dict_var is not None:
                    self.fail("a second copy of the dictionary of differences", st)
                self.dict_var = st.targets[0].id
                main.append("  " * depth + f"let {ident(self.dict_var)} : {d_ty} := {SELF_DIFFS}")
                continue
            if self.dict_var is None:
                self.fail("statement before the working copy of the dictionary of differences is made", st)
            d = ident(self.dict_var)
            nblock += 1
            name = f"parse_database_header_differences.block{nblock}"
            body = self.stmts([st], env.fork(), lambda e: [f".ok ({d}, {FLAGS_VAR})"])
            if len(body) > MAX_LINES:
                self.fail(f"block {nblock} has {len(body)} lines after inlining (limit {MAX_LINES})", st)
            seg = ast.get_source_segment(self.src, st.test if isinstance(st, ast.If) else st) or ""
            src_line = ("if " if isinstance(st, ast.If) else "") + " ".join(seg.split())
            src_line = src_line if len(src_line) <= 150 else src_line[:147] + "..."
            blocks += [f"/-- top-level statement {nblock} of `{METHOD}` (`{src_line.replace('-/', '- /')}` ..) -/",
                       f"def {name} {params} ({SELF_DIFFS} : {d_ty}) ({d} : {d_ty})",
                       f"    ({FLAGS_VAR} : HeaderDifferenceFlags) : Py ({d_ty} × HeaderDifferenceFlags) := do"]
            blocks += indent(body) + [""]
            main.append("  " * depth + f"let ({d}, {FLAGS_VAR}) ← {name} {args} {SELF_DIFFS} {d} {FLAGS_VAR}")
        if self.dict_var is None:
            self.fail("the method never copies the dictionary of differences", self.fn)
        main.append("  " * depth + f".ok {FLAGS_VAR}")
        head = [f"/-- `{CLS}.{METHOD}` of {COMMIT}: the flags it leaves on `self`, or the exception",
                "class it raises, as a function of the attributes it reads -/",
                f"def parse_database_header_differences {params} ({SELF_DIFFS} : {d_ty}) :",
                "    Py HeaderDifferenceFlags := do",
                f"  let {FLAGS_VAR} := HeaderDifferenceFlags.initial"]
        return struct + blocks + head + main + [""], nblock

    def is_copy(self, v):
        if not isinstance(v, ast.Call) or v.keywords:
            return False
        f = v.func
        if (isinstance(f, ast.Attribute) and isinstance(f.value, ast.Name) and f.value.id == "dict" and f.attr == "copy"
                and len(v.args) == 1 and _self_attr(v.args[0]) == DIFFS):
            return True
        if isinstance(f, ast.Attribute) and f.attr == "copy" and _self_attr(f.value) == DIFFS and not v.args:
            return True
        if isinstance(f, ast.Name) and f.id == "dict" and len(v.args) == 1 and _self_attr(v.args[0]) == DIFFS:
            return True
        return False


# ------------------------------------------------------------------------------------------------ rendering
def header():
    return [
        f"/- GENERATED by harness/translate/hdrdiff.py from {COMMIT} ({CLS}.{METHOD}),",
        f"   {WALUTIL} ({COMPARE}) and sqlite_dissect/constants.py ({ENUM})",
        "   — do not edit.  Meaning of the `pyDict*` operations: PyDict.lean. -/",
        "import SqliteDissect.Py",
        "import SqliteDissect.PyPrelude",
        "import SqliteDissect.PyDict",
        "import SqliteDissect.Generated.Constants",
        "import SqliteDissect.Generated.PyHeader",
        "",
        "set_option linter.unusedVariables false",
        "",
        "namespace SqliteDissect.Generated.PyHdrDiff",
        "open SqliteDissect",
        "",
    ]


def render(repo=None):
    """(text, list of failure messages)"""
    repo = repo or os.environ.get("VERIF_REPO", "/repo")
    failures = []
    lines = header()

    def attempt(name, path, fn):
        try:
            return fn()
        except Unsupported as e:
            m = e.text(path) if not e.msg.startswith("sqlite_dissect/") else e.text("")
            m = m.lstrip(": ")
            failures.append(f"{name}: {m}")
            lines.extend(failing(name, m))
        except (OSError, SyntaxError) as e:
            failures.append(f"{name}: {path}: {e}")
            lines.extend(failing(name, f"{path}: {e}"))
        return None

    try:
        consts = pyfun._consts(repo)
    except Exception as e:  # constants.py unreadable
        consts = None
        failures.append(f"constants: {e}")
        lines.extend(failing("constants", str(e)))
    if consts is not None:
        attrs = attempt("DatabaseHeader.__dict__", "sqlite_dissect/file/database/header.py",
                        lambda: header_attributes(repo, consts))
        if attrs is not None:
            cmp_lines = attempt(COMPARE, WALUTIL, lambda: translate_compare(repo, attrs))
            if cmp_lines is not None:
                lines += cmp_lines + [""]
        res = attempt(METHOD, COMMIT, lambda: MethodTranslator(repo, consts).translate())
        if res is not None:
            lines += res[0]
    lines += ["end SqliteDissect.Generated.PyHdrDiff", ""]
    return "\n".join(lines), failures


def regenerate():
    text, failures = render()
    for f in failures:
        print(f"[translate.hdrdiff] generated model could not be produced: {f}", file=sys.stderr, flush=True)
    old = open(OUT, encoding="utf-8").read() if os.path.exists(OUT) else None
    if old != text:
        os.makedirs(os.path.dirname(OUT), exist_ok=True)
        with open(OUT, "w", encoding="utf-8") as fh:
            fh.write(text)
        return True
    return False


# ------------------------------------------------------------------------------------------------ self test
def _lean_dict(d, enc):
    return "[" + ", ".join(f"({lean_str(k)}, (({enc(v[0])} : Int), ({enc(v[1])} : Int)))" for k, v in d.items()) + "]"


def selftest(seed=0, n_random=400, verbose=True):
    """Run the REAL method (on an instance made with object.__new__, the attributes it reads set by hand) and the real
    `compare_database_headers` next to the generated Lean functions on boundary and random inputs.  Not part of the
    proof: it validates what the equality theorem cannot see (PyDict.lean's reading of Python and the translator's
    emission).  Returns the number of differences."""
    import importlib
    import logging
    import random
    repo = os.environ.get("VERIF_REPO", "/repo")
    if repo not in sys.path:
        sys.path.insert(0, repo)
    logging.getLogger("sqlite_dissect").setLevel(logging.CRITICAL + 1)
    from ..impl.canon import classify
    CR = importlib.import_module("sqlite_dissect.file.wal.commit_record")
    WU = importlib.import_module("sqlite_dissect.file.wal.utilities")
    DH = importlib.import_module("sqlite_dissect.file.database.header")
    consts = pyfun._consts(repo)
    mt = MethodTranslator(repo, consts)
    flags = mt.flags
    attrs = header_attributes(repo, consts)
    byte_attrs = {a for a, t in attrs if t != "Int"}
    rng = random.Random(seed)
    lean, want = [], []

    class Handle:
        database_text_encoding = None

    def real(diffs, cps, msm):
        o = object.__new__(CR.WriteAheadLogCommitRecord)
        o.file_handle = Handle()
        o._logger = logging.getLogger("sqlite_dissect")
        o.version_number, o.updated_page_numbers, o.database_size_in_pages = 1, [1], 1
        o.database_header_differences = dict(diffs)
        o.committed_page_size, o.master_schema_modified = cps, msm
        for a, t, v in flags:
            if t != "optstr":
                setattr(o, a, None if v == "none" else v == "true")
        try:
            o._parse_database_header_differences()
        except Exception as e:  # noqa
            return "err " + classify(e)
        if o.database_header_differences != diffs or list(o.database_header_differences) != list(diffs):
            return "MUTATED self.database_header_differences"
        vals = [getattr(o, a) for a, t, _ in flags]
        return "ok " + ",".join("None" if v is None else str(v) for v in vals)

    def enc(v):
        return v if isinstance(v, int) else int.from_bytes(v, "big")

    def add_case(diffs, cps, msm):
        lean.append(f"  IO.println (sR (parse_database_header_differences ({cps} : Int) {'true' if msm else 'false'} "
                    f"{_lean_dict(diffs, enc)}))")
        want.append(real(diffs, cps, msm))

    MD5, CC, VV, SZ, FT, FP, LR, CK, SF, TE, UV = (mt.enum[m] for m in (
        "MD5_HEX_DIGEST", "FILE_CHANGE_COUNTER", "VERSION_VALID_FOR_NUMBER", "DATABASE_SIZE_IN_PAGES",
        "FIRST_FREELIST_TRUNK_PAGE_NUMBER", "NUMBER_OF_FREE_LIST_PAGES", "LARGEST_ROOT_B_TREE_PAGE_NUMBER",
        "SCHEMA_COOKIE", "SCHEMA_FORMAT_NUMBER", "DATABASE_TEXT_ENCODING", "USER_VERSION"))
    md5 = {MD5: (b"\x01", b"\x02")}
    # --- boundary cases
    add_case({}, 0, False)
    add_case({}, 3, True)
    add_case(md5, 3, False)
    add_case(md5, 3, True)
    for a, _t in attrs:
        v = (b"a", b"b") if a in byte_attrs else (1, 2)
        for msm in (False, True):
            add_case({a: v}, 2, msm)
            if a != MD5:
                add_case({**md5, a: v}, 2, msm)
                add_case({a: v, **md5}, 2, msm)
    add_case({**md5, "no_such_attribute": (1, 2)}, 2, False)
    for c in ((5, 6), (5, 7), (5, 5), (5, 4), (0, 1), (2**32 - 2, 2**32 - 1), (2**32 - 1, 0)):
        for v in ((9, 10), (9, 11), (9, 9), (10, 9)):
            add_case({**md5, CC: c, VV: v}, 2, False)
            add_case({VV: v, CC: c, **md5}, 2, False)
    for sz in ((1, 2), (2, 1), (3, 3), (0, 5)):
        for cps in (0, 1, 2, 3, 5):
            add_case({**md5, SZ: sz}, cps, False)
    for lr in ((0, 5), (5, 0), (5, 7), (0, 0), (7, 5), (-1, 0)):
        add_case({**md5, LR: lr}, 2, False)
    for ck in ((3, 4), (4, 3), (3, 3), (0, 2**32 - 1), (3, 9)):
        for msm in (False, True):
            add_case({**md5, CK: ck}, 2, msm)
    for sf in ((0, 4), (0, 1), (1, 4), (0, 0), (4, 0)):
        for te in ((0, 1), (0, 2), (0, 3), (0, 0), (0, 4), (0, 7), (1, 2), (0, -1), (3, 0)):
            for sz in (None, (1, 2), (1, 1), (2, 3), (0, 1)):
                d = {**md5, SF: sf, TE: te}
                if sz is not None:
                    d[SZ] = sz
                add_case(d, (sz or (0, 2))[1], False)
    add_case({**md5, SF: (0, 4), TE: (0, 1), SZ: (1, 2), CK: (0, 1), CC: (1, 2), VV: (1, 2), UV: (0, 7), FT: (0, 3),
              FP: (0, 2), "application_id": (0, 1), "sqlite_version_number": (1, 2), "default_page_cache_size": (0, 9),
              "incremental_vacuum_mode": (0, 1), LR: (3, 4)}, 2, True)
    n_boundary = len(lean)
    # --- random dictionaries
    keys = [a for a, _t in attrs]
    accepted_extra = ("default_page_cache_size", "incremental_vacuum_mode", "application_id", "sqlite_version_number")

    def any_pair():
        a_ = rng.choice([0, 0, 1, 1, 2, 3, 4, 7, 2**32 - 1, rng.randrange(2**32)])
        b_ = rng.choice([a_ + 1, a_ + 1, a_ + 1, 0, 1, 2, 3, 4, a_ + 2, rng.randrange(2**32)])
        return (a_, b_)

    def legal():
        """a dictionary the method accepts (by construction), its committed size and schema flag"""
        d = {MD5: (bytes([rng.randrange(3)]), bytes([rng.randrange(3) + 3]))}
        if rng.random() < 0.5:
            c, v = rng.randrange(2**32 - 1), rng.randrange(2**32 - 1)
            d[CC], d[VV] = (c, c + 1), (v, v + 1)
        fresh = rng.random() < 0.3
        if fresh:
            d[SF], d[TE], d[SZ] = (0, rng.randrange(1, 5)), (0, rng.randrange(1, 4)), (1, rng.randrange(2, 9))
        elif rng.random() < 0.5:
            d[SZ] = (rng.randrange(1, 9), rng.randrange(9, 20))
        for kx in (FT, FP, UV) + accepted_extra:
            if rng.random() < 0.4:
                d[kx] = any_pair()
        if rng.random() < 0.3:
            d[LR] = (rng.randrange(1, 9), rng.randrange(9, 20))
        msm = rng.random() < 0.5
        if msm:
            c = rng.randrange(2**32 - 1)
            d[CK] = (c, rng.randrange(c + 1, 2**32))
        items = list(d.items())
        rng.shuffle(items)
        return dict(items), d.get(SZ, (0, rng.randrange(4)))[1], msm

    for i in range(n_random):
        if i % 2 == 0:
            d, cps, msm = legal()
            if rng.random() < 0.6:      # one perturbation
                what = rng.randrange(6)
                if what == 0 and d:
                    del d[rng.choice(list(d))]
                elif what == 1:
                    kx = rng.choice(keys)
                    d[kx] = (b"a", b"b") if kx in byte_attrs else any_pair()
                elif what == 2:
                    cps = rng.randrange(4)
                elif what == 3:
                    msm = not msm
                elif what == 4 and d:
                    kx = rng.choice(list(d))
                    if kx not in byte_attrs:
                        d[kx] = any_pair()
                else:
                    d["no_such_attribute"] = (0, 1)
            add_case(d, cps, msm)
            continue
        order = keys[:]
        rng.shuffle(order)
        d = {}
        p = rng.choice([0.15, 0.3, 0.6])
        for kx in order:
            likely = kx in (MD5, CC, VV, CK, SF, TE, SZ)
            if rng.random() < (0.75 if likely else p) and not (kx not in mt.enum.values() and kx not in accepted_extra
                                                               and rng.random() < 0.9):
                if kx in byte_attrs:
                    d[kx] = (bytes([rng.randrange(3)]), bytes([rng.randrange(3) + 3]))
                else:
                    d[kx] = any_pair()
        cps = d[SZ][1] if SZ in d and rng.random() < 0.8 else rng.randrange(4)
        msm = (CK in d) if rng.random() < 0.8 else rng.random() < 0.5
        add_case(d, cps, msm)
    n_method = len(lean)
    # --- compare_database_headers on real DatabaseHeader objects (md5 replaced by the identity, as in PyPrelude)
    saved = DH.get_md5_hash
    DH.get_md5_hash = lambda b: bytes(b)
    hdr_defs = {}
    try:
        base = bytearray(b"SQLite format 3\x00" + bytes([0x10, 0, 1, 1, 0, 64, 32, 32]) + bytes(76))
        base[44:48] = (4).to_bytes(4, "big")
        base[56:60] = (1).to_bytes(4, "big")
        offs = [(16, 2, [512, 1024, 4096, 1]), (18, 1, [1, 2]), (19, 1, [1, 2]), (24, 4, None), (28, 4, None),
                (32, 4, None), (36, 4, None), (40, 4, None), (44, 4, [1, 2, 3, 4]), (48, 4, None), (52, 4, None),
                (56, 4, [1, 2, 3]), (60, 4, None), (68, 4, None), (92, 4, None), (96, 4, None)]
        def mutate():
            b = bytearray(base)
            for off, w, vals in offs:
                if rng.random() < 0.35:
                    v = rng.choice(vals) if vals else rng.choice([0, 1, 2, 5, 2**32 - 1, rng.randrange(2**32)])
                    b[off:off + w] = v.to_bytes(w, "big")
            return bytes(b)
        pairs = [(bytes(base), bytes(base))] + [(mutate(), mutate()) for _ in range(60)]
        for b1, b2 in pairs:
            h1, h2 = DH.DatabaseHeader(b1), DH.DatabaseHeader(b2)
            d = WU.compare_database_headers(h1, h2)
            want.append("ok " + ";".join(f"{k_}:{enc(v[0])}:{enc(v[1])}" for k_, v in d.items()))
            for b_ in (b1, b2):
                if b_ not in hdr_defs:
                    hdr_defs[b_] = f"hdr{len(hdr_defs)}"
            lean.append(f"  IO.println (sC (Buf.ofList {hdr_defs[b1]}) (Buf.ofList {hdr_defs[b2]}))")
    finally:
        DH.get_md5_hash = saved
    show = []
    for a, t, _v in flags:
        f = ident(a)
        if t == "bool":
            show.append(f"(if r.{f} then \"True\" else \"False\")")
        elif t == "optint":
            show.append(f"(match r.{f} with | none => \"None\" | some i => toString i)")
        else:
            show.append(f"(match r.{f} with | none => \"None\" | some x => x)")
    src = "\n".join([
        "import SqliteDissect.Generated.PyHdrDiff",
        "open SqliteDissect SqliteDissect.Generated SqliteDissect.Generated.PyHdrDiff",
        "def sR : Py HeaderDifferenceFlags → String",
        "  | .error e => \"err \" ++ e.name",
        "  | .ok r => \"ok \" ++ \",\".intercalate [" + ", ".join(show) + "]",
        "def sC (a b : Buf) : String :=",
        "  match PyHeader.DatabaseHeader.init a, PyHeader.DatabaseHeader.init b with",
        "  | .ok x, .ok y => \"ok \" ++ \";\".intercalate ((compare_database_headers (fun l => (pyBE l : Nat)) x y).map",
        "      fun e => e.1 ++ \":\" ++ toString e.2.1 ++ \":\" ++ toString e.2.2)",
        "  | _, _ => \"header not accepted\"",
    ] + [f"def {nm} : List Nat := [" + ", ".join(str(x) for x in b_) + "]" for b_, nm in hdr_defs.items()] + [ln for k_ in range(0, len(lean), 100) for ln in [f"def part{k_ // 100} : IO Unit := do"] + lean[k_:k_ + 100]]
      + ["def main : IO Unit := do"] + [f"  part{k_ // 100}" for k_ in range(0, len(lean), 100)]) + "\n"
    tmp = os.path.join(LEAN, ".lake", f"hdrdiff_selftest_{os.getpid()}.lean")
    os.makedirs(os.path.dirname(tmp), exist_ok=True)
    with open(tmp, "w", encoding="utf-8") as fh:
        fh.write(src)
    try:
        subprocess.run(["lake", "build", "SqliteDissect.Generated.PyHdrDiff"], cwd=LEAN, check=True,
                       stdout=subprocess.PIPE, stderr=subprocess.STDOUT)
        p = subprocess.run(["lake", "env", "lean", "--run", tmp], cwd=LEAN, stdout=subprocess.PIPE,
                           stderr=subprocess.STDOUT, text=True, timeout=3600)
    finally:
        try:
            os.unlink(tmp)
        except OSError:
            pass
    got = p.stdout.split("\n")
    if got and got[-1] == "":
        got.pop()
    bad = 0
    if len(got) != len(want):
        print(f"selftest: {len(got)} lines from Lean, {len(want)} expected; tail: {got[-5:]}")
        bad += 1
    for i, (g, w) in enumerate(zip(got, want)):
        if g != w:
            bad += 1
            if verbose and bad <= 20:
                print(f"selftest DIFFERENCE at {lean[i].strip()[:600]}\n   lean:   {g}\n   python: {w}")
    n_ok = sum(1 for w in want[:n_method] if w.startswith("ok"))
    print(f"selftest: {len(want)} evaluations ({n_boundary} boundary + {n_method - n_boundary} random dictionaries, "
          f"{n_ok} of them accepted, {len(set(want[:n_method]))} distinct outcomes; {len(want) - n_method} header pairs "
          f"through compare_database_headers), {bad} differences")
    return bad


if __name__ == "__main__":
    if "--selftest" in sys.argv:
        sys.exit(1 if selftest() else 0)
    elif "--print" in sys.argv:
        t, fs = render()
        sys.stdout.write(t)
        for f in fs:
            print("FAILED:", f, file=sys.stderr)
    else:
        print(regenerate())
