"""Translator 5: how the library's own code calls its parser constructors -> lean/SqliteDissect/Generated/CallSites.lean

Every call, anywhere under sqlite_dissect/ (tests excluded), of one of the classes below is resolved against the
class's `__init__` signature as found in the source (positional arguments by position, keyword arguments by name)
and emitted as a record: where the call is, which class, and for every bound parameter the source text of the
argument and — when the argument is a plain variable — that variable's name.

`Properties/C13Calls.lean` decides over the regenerated table that an argument which is a plain variable carrying
the name of one of the callee's parameters is bound to *that* parameter (`forwarding_by_name`): the
`Database(file_identifier, store_in_memory, strict_format_checking)` slip (finding F10: strict_format_checking
landed in the `file_size` position) breaks this obligation on the next run, before any input is generated; so does
any other helper that forwards its own, identically named, parameters in the wrong order.  A call with `*args` /
`**kwargs`, or to a class whose `__init__` cannot be found, makes the translator fail loudly (the generated file
then holds a deliberately false obligation)."""
import ast
import json
import os

from ..leanio.build import LEAN

REPO = os.environ.get("VERIF_REPO", "/repo")
OUT = os.path.join(LEAN, "SqliteDissect", "Generated", "CallSites.lean")

# class name -> file that defines it
CLASSES = {
    "Database": "sqlite_dissect/file/database/database.py",
    "WriteAheadLog": "sqlite_dissect/file/wal/wal.py",
    "WriteAheadLogCommitRecord": "sqlite_dissect/file/wal/commit_record.py",
    "WriteAheadLogIndex": "sqlite_dissect/file/wal_index/wal_index.py",
    "RollbackJournal": "sqlite_dissect/file/journal/jounal.py",
    "FileHandle": "sqlite_dissect/file/file_handle.py",
    "VersionHistory": "sqlite_dissect/version_history.py",
    "VersionHistoryParser": "sqlite_dissect/version_history.py",
    "Signature": "sqlite_dissect/carving/signature.py",
    "RollBackJournalCarver": None,          # only static methods are called
}


def _signature(path, cls):
    tree = ast.parse(open(os.path.join(REPO, path), encoding="utf-8").read())
    for node in ast.walk(tree):
        if isinstance(node, ast.ClassDef) and node.name == cls:
            for st in node.body:
                if isinstance(st, ast.FunctionDef) and st.name == "__init__":
                    a = st.args
                    if a.vararg or a.kwarg or a.kwonlyargs or a.posonlyargs:
                        raise ValueError(f"{path}: {cls}.__init__ has a signature outside the translated subset")
                    return [x.arg for x in a.args][1:]
    raise ValueError(f"{path}: class {cls} with an __init__ not found")


def extract():
    sigs = {}
    for cls, path in CLASSES.items():
        if path is None:
            continue
        if not os.path.exists(os.path.join(REPO, path)):
            # the journal module's file name is misspelt in the repository; find the class wherever it is
            path = None
            for root, _, files in os.walk(os.path.join(REPO, "sqlite_dissect")):
                for fn in files:
                    if fn.endswith(".py") and "tests" not in root:
                        p = os.path.join(root, fn)
                        if f"class {cls}" in open(p, encoding="utf-8").read():
                            path = os.path.relpath(p, REPO)
            if path is None:
                raise ValueError(f"class {cls} not found")
        sigs[cls] = _signature(path, cls)
    calls = []
    for root, _, files in sorted(os.walk(os.path.join(REPO, "sqlite_dissect"))):
        if "tests" in root.split(os.sep):
            continue
        for fn in sorted(files):
            if not fn.endswith(".py"):
                continue
            p = os.path.join(root, fn)
            src = open(p, encoding="utf-8").read()
            tree = ast.parse(src)
            funcs = {}
            for node in ast.walk(tree):
                if isinstance(node, (ast.FunctionDef, ast.AsyncFunctionDef)):
                    for sub in ast.walk(node):
                        if isinstance(sub, ast.Call):
                            funcs.setdefault(id(sub), node.name)      # innermost wins below
                    for sub in ast.walk(node):
                        if isinstance(sub, ast.Call):
                            funcs[id(sub)] = node.name if funcs.get(id(sub)) is None else funcs[id(sub)]
            # innermost enclosing function: walk again, deeper definitions overwrite
            def visit(node, fname):
                for ch in ast.iter_child_nodes(node):
                    nm = ch.name if isinstance(ch, (ast.FunctionDef, ast.AsyncFunctionDef)) else fname
                    if isinstance(ch, ast.Call):
                        funcs[id(ch)] = nm
                    visit(ch, nm)
            visit(tree, "<module>")
            for node in ast.walk(tree):
                if not isinstance(node, ast.Call):
                    continue
                f = node.func
                name = f.id if isinstance(f, ast.Name) else None
                if name not in sigs:
                    continue
                params = sigs[name]
                if any(isinstance(a, ast.Starred) for a in node.args) or any(k.arg is None for k in node.keywords):
                    raise ValueError(f"{os.path.relpath(p, REPO)}:{node.lineno}: call of {name} with *args / **kwargs")
                if len(node.args) > len(params):
                    raise ValueError(f"{os.path.relpath(p, REPO)}:{node.lineno}: too many positional arguments for {name}")
                binds = []
                for i, a in enumerate(node.args):
                    binds.append((params[i], a))
                for k in node.keywords:
                    if k.arg not in params:
                        raise ValueError(f"{os.path.relpath(p, REPO)}:{node.lineno}: {name} has no parameter {k.arg}")
                    binds.append((k.arg, k.value))
                calls.append({
                    "file": os.path.relpath(p, REPO), "line": node.lineno, "function": funcs.get(id(node), "<module>"),
                    "callee": name, "params": params,
                    "binds": [(pn, ast.get_source_segment(src, a) or "", a.id if isinstance(a, ast.Name) else "") for pn, a in binds],
                })
    calls.sort(key=lambda c: (c["file"], c["line"]))
    return calls


def _s(x):
    return json.dumps(x, ensure_ascii=True)


def render(calls):
    lines = [
        "/- GENERATED by harness/translate/callsites.py from every call of a parser constructor under sqlite_dissect/ — do not edit. -/",
        "namespace SqliteDissect.Generated",
        "",
        "/-- one bound parameter of a constructor call: the parameter, the argument's source text, and the variable's name",
        "when the argument is a plain variable (else \"\") -/",
        "structure ArgBinding where",
        "  param : String",
        "  argText : String",
        "  argVar : String",
        "  deriving Repr, Inhabited, DecidableEq",
        "",
        "structure CtorCall where",
        "  file : String",
        "  function : String",
        "  callee : String",
        "  params : List String",
        "  binds : List ArgBinding",
        "  deriving Repr, Inhabited, DecidableEq",
        "",
        "def ctorCalls : List CtorCall := [",
    ]
    body = []
    for c in calls:
        binds = ", ".join(f"⟨{_s(p)}, {_s(' '.join(t.split()))}, {_s(v)}⟩" for p, t, v in c["binds"])
        body.append(f"  {{ file := {_s(c['file'])}, function := {_s(c['function'])}, callee := {_s(c['callee'])},\n"
                    f"    params := [{', '.join(_s(p) for p in c['params'])}],\n    binds := [{binds}] }}")
    lines.append(",\n".join(body))
    lines += ["]", "", "end SqliteDissect.Generated", ""]
    return "\n".join(lines)


def regenerate():
    try:
        text = render(extract())
    except (ValueError, SyntaxError, OSError) as e:
        msg = str(e).replace('"', "'")
        print(f"[translate.callsites] generated table could not be produced: {msg}")
        text = ("/- GENERATED by harness/translate/callsites.py — the translator FAILED; the obligation below is deliberately false. -/\n"
                f"example : (\"translator error: {msg}\" : String) = \"\" := by decide\n")
    old = open(OUT).read() if os.path.exists(OUT) else None
    if old != text:
        os.makedirs(os.path.dirname(OUT), exist_ok=True)
        with open(OUT, "w") as fh:
            fh.write(text)
        return True
    return False


TRUSTED = ("harness/translate/callsites.py (Python ast -> table of constructor calls; resolves positional arguments against "
           "the __init__ signature found in the source)")

if __name__ == "__main__":
    print(regenerate())
    for c in extract():
        print(c["file"], c["line"], c["function"], c["callee"], [(p, v or t[:30]) for p, t, v in c["binds"]])
