"""Regenerate every generated Lean file from the current /repo (run after /repo changes back)."""
from . import callsites, constants, fs_effects, options, pyfun, xmlranges


def main():
    for m in (constants, fs_effects, options, xmlranges, pyfun, callsites):
        print(m.__name__, m.regenerate())


if __name__ == "__main__":
    main()
