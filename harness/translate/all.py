"""Regenerate every generated Lean file from the current /repo (run after /repo changes back)."""
from . import callsites, constants, fs_effects, hdrdiff, options, pyfun, xmlranges


def main():
    for m in (constants, fs_effects, options, xmlranges, pyfun, hdrdiff, callsites):
        print(m.__name__, m.regenerate())


if __name__ == "__main__":
    main()
