"""Regenerate every generated Lean file from the current /repo (run after /repo changes back)."""
from . import constants, fs_effects, options, pyfun, xmlranges


def main():
    for m in (constants, fs_effects, options, xmlranges, pyfun):
        print(m.__name__, m.regenerate())


if __name__ == "__main__":
    main()
