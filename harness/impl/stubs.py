"""A stub version interface that serves synthetic pages to the real page/cell classes."""


class StubVersion:
    def __init__(self, page_size, pages=None, page_fn=None, size_in_pages=1 << 30, strict=True):
        self.page_size = page_size
        self.version_number = 0
        self.strict_format_checking = strict
        self.database_size_in_pages = size_in_pages
        self._pages = pages or {}
        self._page_fn = page_fn
        self.database_text_encoding = "utf-8"

    def get_page_version(self, n):
        return 0

    def get_page_offset(self, n):
        if n < 1 or n > self.database_size_in_pages:
            raise ValueError("bad page")
        return (n - 1) * self.page_size

    def _page(self, n):
        if n in self._pages:
            return self._pages[n]
        if self._page_fn:
            return self._page_fn(n)
        raise ValueError("no such page")

    def get_page_data(self, n, offset=0, number_of_bytes=None):
        number_of_bytes = self.page_size - offset if not number_of_bytes else number_of_bytes
        if offset >= self.page_size:
            raise ValueError("offset")
        if offset + number_of_bytes > self.page_size:
            raise ValueError("length")
        self.get_page_offset(n)
        return self._page(n)[offset:offset + number_of_bytes]
