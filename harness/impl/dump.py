"""Canonical dump of the real sqlite_dissect objects; must print exactly what Driver/Db.lean prints."""
import inspect
import logging
import sys
import traceback
import warnings

from sqlite_dissect.file.database.database import Database
from sqlite_dissect.file.database.page import (BTreePage, IndexInteriorPage, IndexLeafPage, OverflowPage,
                                               TableInteriorCell, TableInteriorPage, TableLeafPage)
from sqlite_dissect.file.database.utilities import get_pages_from_b_tree_page

from .canon import err, hx, classify

logging.getLogger("sqlite_dissect").setLevel(logging.CRITICAL + 1)
logging.getLogger("sqlite_dissect").addHandler(logging.NullHandler())
logging.getLogger("sqlite_dissect").propagate = False
warnings.filterwarnings("ignore")

SEP = "\x02"
PSEP = "\x01"

SCHEMA_SQL_FILES = ("/file/schema/",)


def in_schema_sql(exc) -> bool:
    """True when the exception was raised by the SQL-text parsing of the schema row classes
    (outside the Lean model, see DESIGN.md C07)."""
    tb = traceback.extract_tb(exc.__traceback__)
    names = [(f.filename, f.name) for f in tb]
    for fn, name in names:
        if "/file/schema/" in fn:
            if "/schema/master.py" in fn and name in ("__init__",):
                # MasterSchema.__init__ itself is modelled; row class constructors are not
                continue
            return True
    # a row-class __init__ frame below MasterSchema.__init__
    inits = [f for f in tb if "/schema/master.py" in f.filename and f.name == "__init__"]
    return len(inits) >= 2


def show_val(v, st=None):
    if v is None:
        return "null"
    if isinstance(v, (bytes, bytearray)):
        kind = "blob" if (st is not None and st % 2 == 0) else "text"
        return f"{kind}:{hx(v)}"
    if isinstance(v, float):
        import struct
        return "real:%d" % struct.unpack(">Q", struct.pack(">d", v))[0]
    return "int:%d" % v


def opt(x):
    return "-" if x is None else str(x)


def num(x):
    """integers held in a float (database size derived from the file size) print as integers"""
    if isinstance(x, float) and x == int(x):
        return str(int(x))
    return str(x)


def show_cell(c):
    ov = ""
    rec = "/h-/cols[]"
    is_ti = isinstance(c, TableInteriorCell)
    if not is_ti:
        pages = []
        if c.has_overflow:
            p = c.overflow_pages[c.overflow_page_number]
            pages.append(p)
            while p.next_overflow_page_number:
                p = c.overflow_pages[p.next_overflow_page_number]
                pages.append(p)
        ov = ",".join(f"{p.number}:{p.content_length}" for p in pages)
        r = c.payload
        cols = ",".join(f"{col.serial_type}:{col.serial_type_varint_length}:{int(col.content_size)}:"
                        f"{show_val(col.value, col.serial_type)}" for col in r.record_columns)
        rec = f"/h{r.header_byte_size}:{r.header_byte_size_varint_length}/cols[{cols}]"
    lc = getattr(c, "left_child_pointer", None)
    rowid = getattr(c, "row_id", None)
    p = None if is_ti else c.payload_byte_size
    b = None if is_ti else c.bytes_on_first_page
    page = c._dump_page
    digest = bytes(page[int(c.start_offset): int(c.end_offset)])
    if not is_ti and c.has_overflow:
        digest += bytes(c.overflow)
    from sqlite_dissect.utilities import get_md5_hash
    mark = "" if get_md5_hash(digest) == c.md5_hex_digest else "!md5-covers-other-bytes"
    return (f"{c.index}@{c.start_offset}-{int(c.end_offset)}/bs{int(c.byte_size)}/lc{opt(lc)}/r{opt(rowid)}/p{opt(p)}"
            f"/b{opt(None if b is None else int(b))}/ov[{ov}]{rec}/d{hx(digest)}{mark}")


TYPE_NAMES = {
    "B_TREE_TABLE_INTERIOR": "B_TREE_TABLE_INTERIOR", "B_TREE_TABLE_LEAF": "B_TREE_TABLE_LEAF",
    "B_TREE_INDEX_INTERIOR": "B_TREE_INDEX_INTERIOR", "B_TREE_INDEX_LEAF": "B_TREE_INDEX_LEAF",
}


def show_page(p, version):
    page = version.get_page_data(p.number)
    for c in p.cells:
        c._dump_page = page
    cells = "|".join(show_cell(c) for c in p.cells)
    fbs = ",".join(f"{f.index}@{f.start_offset}+{f.byte_size}n{f.next_freeblock_offset}" for f in p.freeblocks)
    fgs = ",".join(f"{f.index}@{f.start_offset}-{f.end_offset}" for f in p.fragments)
    rm = getattr(p.header, "right_most_pointer", None)
    return (f"P{p.number}:{p.page_type}:v{p.page_version_number}:off{p.offset}:ff{p.header.first_freeblock_offset}"
            f":nc{p.header.number_of_cells_on_page}:cco{p.header.cell_content_offset}"
            f":fr{p.header.number_of_fragmented_free_bytes}:rm{opt(rm)}"
            f":ua{p.unallocated_space_start_offset}-{p.unallocated_space_end_offset}:cells[{cells}]:fb[{fbs}]:fg[{fgs}]")


def show_tree(root, version):
    pages = [p for p in get_pages_from_b_tree_page(root) if isinstance(p, BTreePage)]
    return PSEP.join(show_page(p, version) for p in pages)


def show_hdr(h):
    return (f"ps={h.page_size},wv={h.file_format_write_version},rv={h.file_format_read_version},"
            f"rb={h.reserved_bytes_per_page},mx={h.maximum_embedded_payload_fraction},"
            f"mn={h.minimum_embedded_payload_fraction},lf={h.leaf_payload_fraction},cc={h.file_change_counter},"
            f"sz={h.database_size_in_pages},ft={h.first_freelist_trunk_page_number},fp={h.number_of_freelist_pages},"
            f"sc={h.schema_cookie},sf={h.schema_format_number},dc={h.default_page_cache_size},"
            f"lr={h.largest_root_b_tree_page_number},te={h.database_text_encoding},uv={h.user_version},"
            f"iv={h.incremental_vacuum_mode},ai={h.application_id},vv={h.version_valid_for_number},"
            f"sv={h.sqlite_version_number}")


def enc_bytes(s, encoding):
    return s.encode(encoding)


def show_schema_row(e, encoding):
    rp = e.root_page_number
    sql = "-" if e.sql is None else hx(e.sql.encode(encoding))
    return (f"{e.row_id}:{e.row_type}:{hx(e.name.encode(encoding))}:{hx(e.table_name.encode(encoding))}:"
            f"{show_val(rp)}:{sql}:pg{e.b_tree_table_leaf_page_number}")


def page_class_name(p):
    return str(p.page_type)


def frames_available():
    return sys.getrecursionlimit() - len(inspect.stack(0)) - 8


def show_size(db):
    s = db.database_size_in_pages
    if isinstance(s, float):
        return f"{db.file_handle.file_size}/{db.page_size}"
    return f"{s}/1"


def base_sections(db):
    enc_name = db.database_text_encoding
    enc_num = {None: 0, "utf-8": 1, "utf-16-le": 2, "utf-16-be": 3}[enc_name]
    trunks = []
    t = db.first_freelist_trunk_page
    while t:
        trunks.append(f"{t.number}:{t.next_freelist_trunk_page_number}:[{','.join(map(str, t.freelist_leaf_page_numbers))}]")
        t = t.next_freelist_trunk_page
    ms = db.master_schema
    pm = "|".join(
        f"{p.number}:{num(p.number_of_entries)}:" + ",".join(
            f"{e.page_number}/{e.page_type[0]}/{e.parent_page_number}" for e in p.pointer_map_entries)
        for p in db.pointer_map_pages)
    order = {"table": 0, "index": 1, "view": 2, "trigger": 3}
    entries = ms.master_schema_entries
    return [
        "hdr=" + show_hdr(db.database_header),
        "size=" + show_size(db),
        f"enc={enc_num}",
        "freelist=" + "|".join(trunks),
        "flnums=" + ",".join(map(str, db.freelist_page_numbers)),
        "ptrmap=" + pm,
        "schema=" + "|".join(show_schema_row(e, enc_name) for e in entries),
        "schemapages=" + ",".join(f"{p.number}:{p.page_type}" for p in ms.master_schema_pages),
        "roots=" + ",".join(map(str, ms.master_schema_b_tree_root_page_numbers)),
        "updbt=" + ",".join(map(str, db.updated_b_tree_page_numbers)),
        "tree1=" + show_tree(db.root_page, db),
    ]


def dump_db(path, mem=False, strict=True, size=None, with_trees=True, identifier=None, between=None):
    """Returns (canonical string, db or None, exception or None).  `between` (optional) is called between the
    library calls (after construction, before the census, before every tree): the caller using its own file object"""
    between = between or (lambda: None)
    try:
        db = Database(identifier if identifier is not None else path, store_in_memory=mem, file_size=size,
                      strict_format_checking=strict)
    except RecursionError as e:
        return err(e), None, e
    except Exception as e:  # noqa
        if in_schema_sql(e):
            return "err @schema-sql " + classify(e), None, e
        return err(e), None, e
    try:
        between()
        secs = base_sections(db)
        try:
            between()
            pages = db.pages
            secs.append("census=" + ",".join(f"{n}:{p.page_type}" for n, p in pages.items()))
        except Exception as e:  # noqa
            secs.append("census=" + err(e))
            return "ok " + SEP.join(secs), db, None
        if with_trees:
            for r in db.master_schema.master_schema_b_tree_root_page_numbers:
                try:
                    between()
                    root = db.get_b_tree_root_page(r)
                    secs.append(f"tree{r}=" + show_tree(root, db))
                except Exception as e:  # noqa
                    secs.append(f"tree{r}=" + err(e))
        return "ok " + SEP.join(secs), db, None
    except Exception as e:  # noqa
        traceback.print_exc()
        return "dump-failed " + classify(e), db, e


def first_divergence(a: str, b: str):
    """section name and a short excerpt where two dumps first differ"""
    if a == b:
        return None
    sa, sb = a.split(SEP), b.split(SEP)
    for i in range(max(len(sa), len(sb))):
        x = sa[i] if i < len(sa) else "<missing>"
        y = sb[i] if i < len(sb) else "<missing>"
        if x != y:
            name = x.split("=", 1)[0][:30]
            # locate first differing char
            k = 0
            while k < min(len(x), len(y)) and x[k] == y[k]:
                k += 1
            lo = max(0, k - 60)
            return {"section": name, "at": k, "impl": x[lo:k + 100], "model": y[lo:k + 100]}
    return {"section": "?", "impl": a[:100], "model": b[:100]}


# --------------------------------------------------------------------------- version histories
from sqlite_dissect.file.wal.wal import WriteAheadLog
from sqlite_dissect.version_history import VersionHistory


def b01(b):
    return "1" if b else "0"


def show_flags(v):
    if v.version_number == 0:
        return "cc0,sz0,ft-,fp-,lr-,ck0,sf0,te0,uv0"
    return (f"cc{b01(v.file_change_counter_incremented and v.version_valid_for_number_incremented)},"
            f"sz{b01(v.database_size_in_pages_modified)},ft{opt(v.modified_first_freelist_trunk_page_number)},"
            f"fp{opt(v.modified_number_of_freelist_pages)},lr{opt(v.modified_largest_root_b_tree_page_number)},"
            f"ck{b01(v.schema_cookie_modified)},sf{b01(v.schema_format_number_modified)},"
            f"te{b01(v.database_text_encoding_modified)},uv{b01(v.user_version_modified)}")


def version_sections(v, with_trees=True):
    k = v.version_number
    enc_name = v.database_text_encoding
    enc_num = {None: 0, "utf-8": 1, "utf-16-le": 2, "utf-16-be": 3}[enc_name]
    trunks = []
    t = v.first_freelist_trunk_page
    while t:
        trunks.append(f"{t.number}:{t.next_freelist_trunk_page_number}:[{','.join(map(str, t.freelist_leaf_page_numbers))}]")
        t = t.next_freelist_trunk_page
    pm = "|".join(
        f"{p.number}:{num(p.number_of_entries)}:" + ",".join(
            f"{e.page_number}/{e.page_type[0]}/{e.parent_page_number}" for e in p.pointer_map_entries)
        for p in v.pointer_map_pages)
    pfi = getattr(v, "page_frame_index", {}) or {}
    size = v.database_size_in_pages
    secs = [
        f"V{k}.hdr=" + show_hdr(v.database_header),
        f"V{k}.size={int(size)}",
        f"V{k}.ps={v.page_size}",
        f"V{k}.enc={enc_num}",
        f"V{k}.updated=" + ",".join(map(str, v.updated_page_numbers)),
        f"V{k}.pvi=" + ",".join(f"{a}:{b}" for a, b in v.page_version_index.items()),
        f"V{k}.pfi=" + ",".join(f"{a}:{b}" for a, b in pfi.items()),
        f"V{k}.mod=h{b01(v.database_header_modified)}r{b01(v.root_b_tree_page_modified)}s{b01(v.master_schema_modified)}"
        f"f{b01(v.freelist_pages_modified)}p{b01(v.pointer_map_pages_modified)}",
        f"V{k}.flags=" + show_flags(v),
        f"V{k}.freelist=" + "|".join(trunks),
        f"V{k}.flnums=" + ",".join(map(str, v.freelist_page_numbers)),
        f"V{k}.ptrmap=" + pm,
    ]
    try:
        ms = v.master_schema
    except Exception as e:  # noqa
        secs.append(f"V{k}.schema=" + err(e))
        return secs
    secs += [
        f"V{k}.schema=" + "|".join(show_schema_row(e, enc_name) for e in ms.master_schema_entries),
        f"V{k}.schemapages=" + ",".join(f"{p.number}:{p.page_type}" for p in ms.master_schema_pages),
        f"V{k}.roots=" + ",".join(map(str, ms.master_schema_b_tree_root_page_numbers)),
        f"V{k}.updbt=" + ",".join(map(str, v.updated_b_tree_page_numbers)),
        f"V{k}.tree1=" + show_tree(ms.root_page, v),
    ]
    try:
        pages = v.pages
        secs.append(f"V{k}.census=" + ",".join(f"{n}:{p.page_type}" for n, p in pages.items()))
    except Exception as e:  # noqa
        secs.append(f"V{k}.census=" + err(e))
        return secs
    if with_trees:
        for r in ms.master_schema_b_tree_root_page_numbers:
            try:
                root = v.get_b_tree_root_page(r)
                secs.append(f"V{k}.tree{r}=" + show_tree(root, v))
            except Exception as e:  # noqa
                secs.append(f"V{k}.tree{r}=" + err(e))
    return secs


def wal_sections(w):
    h = w.file_handle.header
    fr = "|".join(
        f"{f.frame_index}:p{f.header.page_number}:sz{f.header.page_size_after_commit}:s{f.header.salt_1}/{f.header.salt_2}"
        f":c{f.header.checksum_1}/{f.header.checksum_2}:cr{opt(f.commit_record_number)}" for f in w.frames.values())
    inv = "|".join(
        f"{f.frame_index}:p{f.header.page_number}:sz{f.header.page_size_after_commit}:s{f.header.salt_1}/{f.header.salt_2}"
        for f in w.invalid_frames.values())
    idx = ",".join(f"{s}:{a}-{b}" for s, (a, b) in w.invalid_frame_indices.items())
    return [
        f"wal.hdr=m{h.magic_number},fv{h.file_format_version},ps{h.page_size},cs{h.checkpoint_sequence_number},"
        f"s1{h.salt_1},s2{h.salt_2},c1{h.checksum_1},c2{h.checksum_2}",
        f"wal.nframes={w.number_of_frames}",
        "wal.frames=" + fr,
        "wal.invalid=" + inv,
        "wal.invidx=" + idx,
    ]


def stage_err(stage, e):
    if in_schema_sql(e):
        return f"{stage}:err @schema-sql " + classify(e)
    return f"{stage}:" + err(e)


def dump_history(db_path, wal_path, mem=False, strict=True, size=None, wal_size=None, with_trees=True):
    """Returns (canonical string, VersionHistory or None, exception or None)."""
    try:
        db = Database(db_path, store_in_memory=mem, file_size=size, strict_format_checking=strict)
    except Exception as e:  # noqa
        return stage_err("db", e), None, e
    wal = None
    if wal_path:
        try:
            wal = WriteAheadLog(wal_path, store_in_memory=mem, file_size=wal_size, strict_format_checking=strict)
        except Exception as e:  # noqa
            return stage_err("wal", e), None, e
    try:
        vh = VersionHistory(db, wal)
    except Exception as e:  # noqa
        return stage_err("vh", e), None, e
    try:
        secs = wal_sections(wal) if wal else []
        secs.append(f"nversions={len(vh.versions)}")
        for k in sorted(vh.versions):
            secs += version_sections(vh.versions[k], with_trees)
        return "ok " + SEP.join(secs), vh, None
    except Exception as e:  # noqa
        traceback.print_exc()
        return "dump-failed " + classify(e), vh, e


# --------------------------------------------------------------------------- version history iterator
from sqlite_dissect import interface as _interface


def fnv(b):
    h = 14695981039346656037
    for x in bytes(b):
        h = ((h ^ x) * 1099511628211) % 18446744073709551616
    return h


def cell_digest_bytes(cell, version_history):
    """the bytes the cell's md5 covers: page[start:end] of the page image the cell was parsed from"""
    v = version_history.versions[cell.version_number]
    page = v.get_page_data(cell.page_number)
    d = bytes(page[int(cell.start_offset):int(cell.end_offset)])
    if getattr(cell, "has_overflow", False):
        d += bytes(cell.overflow)
    return d


def show_hcell(c, vh):
    rid = getattr(c, "row_id", None)
    return f"{opt(rid)}/{fnv(cell_digest_bytes(c, vh))}"


def show_commit(c, vh):
    def cells(d):
        return ",".join(show_hcell(x, vh) for x in d.values())
    return (f"C{c.version_number}:root{c.root_page_number}:upd{b01(bool(c.updated_b_tree_page_numbers is not None))}"
            f":pages[{','.join(map(str, c.b_tree_page_numbers))}]"
            f":updpages[{','.join(map(str, c.updated_b_tree_page_numbers or []))}]"
            f":A[{cells(c.added_cells)}]:U[{cells(c.updated_cells)}]:D[{cells(c.deleted_cells)}]")


def dump_iter(db_path, wal_path, name, mem=False, strict=True):
    """Returns (canonical string, commits or None, vh)"""
    try:
        db = Database(db_path, store_in_memory=mem, strict_format_checking=strict)
    except Exception as e:  # noqa
        return stage_err("db", e), None, None
    wal = None
    if wal_path:
        try:
            wal = WriteAheadLog(wal_path, store_in_memory=mem, strict_format_checking=strict)
        except Exception as e:  # noqa
            return stage_err("wal", e), None, None
    try:
        vh = VersionHistory(db, wal)
    except Exception as e:  # noqa
        return stage_err("vh", e), None, None
    try:
        it = _interface.get_version_history_iterator(name, vh)
        commits = list(it)
    except KeyError as e:
        return "err keyError", None, vh
    except Exception as e:  # noqa
        return stage_err("iter", e), None, vh
    return "ok " + SEP.join(show_commit(c, vh) for c in commits), commits, vh
