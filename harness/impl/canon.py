"""Canonical forms shared by the implementation-side dumps (must match Driver/Util.lean)."""
import logging
import struct
import warnings

import sqlite_dissect.exception as sde

_lg = logging.getLogger("sqlite_dissect")
_lg.setLevel(logging.CRITICAL + 1)
_lg.addHandler(logging.NullHandler())
_lg.propagate = False
warnings.filterwarnings("ignore")


def classify(exc) -> str:
    if isinstance(exc, sde.SqliteError):
        return "parseError"
    if isinstance(exc, struct.error):
        return "structError"
    if isinstance(exc, UnicodeError):
        return "unicodeError"
    if isinstance(exc, NotImplementedError):
        return "notImplemented"
    if isinstance(exc, RecursionError):
        return "recursionError"
    if isinstance(exc, EOFError):
        return "eofError"
    if isinstance(exc, KeyError):
        return "keyError"
    if isinstance(exc, IndexError):
        return "indexError"
    if isinstance(exc, TypeError):
        return "typeError"
    if isinstance(exc, ZeroDivisionError):
        return "zeroDivision"
    if isinstance(exc, OverflowError):
        return "overflowError"
    if isinstance(exc, ValueError):
        return "valueError"
    if isinstance(exc, AttributeError):
        return "attributeError"
    if isinstance(exc, OSError):
        return "osError"
    return "other:" + type(exc).__name__


def err(exc) -> str:
    return "err " + classify(exc)


def hx(b) -> str:
    b = bytes(b)
    return b.hex() if b else "-"


def show_val(v) -> str:
    if v is None:
        return "null"
    if isinstance(v, bool):
        return "int:%d" % int(v)
    if isinstance(v, int):
        return "int:%d" % v
    if isinstance(v, float):
        return "real:%d" % struct.unpack(">Q", struct.pack(">d", v))[0]
    raise TypeError(type(v))


def guarded(fn):
    """Run fn() with sqlite_dissect's logger silenced; exceptions -> canonical 'err <class>'."""
    try:
        return fn()
    except RecursionError as e:
        return err(e)
    except Exception as e:  # noqa
        return err(e)
