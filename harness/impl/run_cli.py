"""Run `sqlite_dissect.entrypoint.cli()` (or a library scenario) under sys.addaudithook, in THIS process.

Meant to be started as a fresh subprocess per run:

    /venv/bin/python harness/impl/run_cli.py --events OUT.jsonl [--cwd DIR] [--entry cli|main] -- <argv of sqlite_dissect ...>

(`basicConfig`, `warnings.filterwarnings`, `sys.stdout.reconfigure` and the `exit(0)` paths of entrypoint.main
are process-global, so option vectors must not share an interpreter.)

What is recorded (one JSON object per line in OUT.jsonl, written after the run):

  {"k":"ev","ev":<audit event>,"path":…,"path2":…,"mode":…,"flags":…,"site":[file,line,func],"imp":0|1}
      every audit event of the families open / os.* / shutil.* / sqlite3.* / tempfile.* / subprocess.* /
      glob.* / pathlib.*, plus "stat" pseudo-events from thin wrappers around os.stat / os.lstat / os.fstat /
      os.access / os.readlink (CPython raises no audit event for them; os.path.exists & co. go through
      os.stat).  `site` is the innermost frame whose code lives under sqlite_dissect/ (tests excluded);
      `imp` marks events raised while the import machinery or linecache is on the stack.
  {"k":"vhp","fn":<caller function>,"entry":…,"sig":0|1,"fl":0|1}
      one per VersionHistoryParser constructed (which entry an exporter iterates, with a signature or not)
  {"k":"uuid","value":…}   uuid4 values drawn (sub-directory names, renamed files)
  {"k":"main","path":…,"multi":0|1}   one per call of entrypoint.main
  {"k":"end","exit":code,"exc":type|null,"msg":…}

The hook itself opens nothing while active: events are buffered in memory."""
import json
import os
import sys

EV_PREFIXES = ("open", "os.", "shutil.", "sqlite3.", "tempfile.", "subprocess.", "glob.", "pathlib.", "mmap.",
               "fcntl.", "ctypes.dlopen")
SKIP_EVENTS = {"os.putenv", "os.unsetenv"}

_events = []
_active = [False]
_pkg_dir = [None]
_pkg_root = [None]
_last_chain = [[]]
_fd_path = {}


def _site_and_flags():
    """innermost sqlite_dissect frame (relative file, line, function), the chain of sqlite_dissect frames above
    it (file:function, innermost first) and whether import machinery / linecache is on the stack"""
    f = sys._getframe(2)
    site = None
    imp = 0
    pkg = _pkg_dir[0]
    root = _pkg_root[0]
    chain = []
    while f is not None:
        fn = f.f_code.co_filename
        if fn.startswith("<frozen importlib") or fn.endswith("linecache.py") or fn.endswith("tokenize.py"):
            imp = 1
        if pkg and fn.startswith(pkg) and os.sep + "tests" + os.sep not in fn:
            rel = os.path.relpath(fn, root)
            if site is None:
                site = [rel, f.f_lineno, f.f_code.co_name]
            if len(chain) < 8:
                chain.append(rel + ":" + f.f_code.co_name)
        f = f.f_back
    _last_chain[0] = chain
    return site, imp


def _s(x):
    if x is None or isinstance(x, (int, float, str)):
        return x
    if isinstance(x, bytes):
        return x.decode("utf-8", "surrogateescape")
    try:
        return os.fspath(x)
    except TypeError:
        return repr(x)[:200]


def _hook(event, args):
    if not _active[0]:
        return
    if event in SKIP_EVENTS or not event.startswith(EV_PREFIXES):
        return
    _active[0] = False
    try:
        site, imp = _site_and_flags()
        rec = {"k": "ev", "ev": event, "site": site, "imp": imp, "chain": _last_chain[0]}
        if event == "open":
            rec["path"], rec["mode"], rec["flags"] = _s(args[0]), _s(args[1]), _s(args[2])
        elif event in ("os.rename", "os.link", "os.symlink", "shutil.copyfile", "shutil.move", "shutil.copytree",
                       "shutil.copymode", "shutil.copystat"):
            rec["path"], rec["path2"] = _s(args[0]), _s(args[1])
        elif args:
            rec["path"] = _s(args[0])
            if len(args) > 1 and event in ("os.mkdir", "os.chmod", "os.truncate"):
                rec["mode"] = _s(args[1])
        _events.append(rec)
    finally:
        _active[0] = True


def _wrap_stat(name):
    orig = getattr(os, name)

    def wrapper(*a, **k):
        if _active[0]:
            _active[0] = False
            try:
                site, imp = _site_and_flags()
                p = a[0] if a else k.get("path", k.get("fd"))
                rec = {"k": "ev", "ev": "stat", "fn": "os." + name, "path": _s(p), "site": site, "imp": imp,
                       "chain": _last_chain[0]}
                if isinstance(p, int):
                    rec["fd"] = p
                    try:
                        rec["path"] = os.readlink(f"/proc/self/fd/{p}")
                    except OSError:
                        rec["path"] = None
                _events.append(rec)
            finally:
                _active[0] = True
        return orig(*a, **k)

    wrapper.__name__ = name
    setattr(os, name, wrapper)


def install():
    import sqlite_dissect
    _pkg_dir[0] = os.path.dirname(os.path.abspath(sqlite_dissect.__file__)) + os.sep
    _pkg_root[0] = os.path.dirname(os.path.dirname(os.path.abspath(sqlite_dissect.__file__)))
    for n in ("stat", "lstat", "fstat", "access", "readlink"):
        _wrap_stat(n)
    sys.addaudithook(_hook)
    # plan-level observation: which entry each exporter iterates, with which signature
    import uuid

    import sqlite_dissect.version_history as vh
    orig_init = vh.VersionHistoryParser.__init__

    def init(self, version_history, master_schema_entry, *a, **k):
        sig = a[2] if len(a) > 2 else k.get("signature")
        fl = a[3] if len(a) > 3 else k.get("carve_freelist_pages", False)
        was = _active[0]
        _active[0] = False
        try:
            caller = sys._getframe(1).f_code.co_name
            _events.append({"k": "vhp", "fn": caller, "entry": master_schema_entry.name, "sig": int(sig is not None),
                            "fl": int(bool(fl))})
        finally:
            _active[0] = was
        return orig_init(self, version_history, master_schema_entry, *a, **k)

    vh.VersionHistoryParser.__init__ = init
    import sqlite_dissect.entrypoint as ep
    import sqlite_dissect.interface as itf
    for mod in (ep, itf):
        if getattr(mod, "VersionHistoryParser", None) is not None:
            mod.VersionHistoryParser.__init__ = init
    orig_uuid4 = uuid.uuid4

    def uuid4():
        u = orig_uuid4()
        was = _active[0]
        _active[0] = False
        _events.append({"k": "uuid", "value": str(u), "hex": u.hex})
        _active[0] = was
        return u

    uuid.uuid4 = uuid4
    # one marker per call of entrypoint.main (cli() calls it once per input file)
    orig_main = ep.main

    def main_marker(arguments, sqlite_file_path, export_sub_paths=False):
        was = _active[0]
        _active[0] = False
        _events.append({"k": "main", "path": sqlite_file_path, "multi": int(bool(export_sub_paths))})
        _active[0] = was
        return orig_main(arguments, sqlite_file_path, export_sub_paths)

    ep.main = main_marker
    for modname in ("sqlite_dissect.export.sqlite_export", "sqlite_dissect.export.text_export",
                    "sqlite_dissect.export.xlsx_export"):
        m = sys.modules.get(modname)
        if m is not None and hasattr(m, "uuid4"):
            m.uuid4 = uuid4


def start():
    _active[0] = True


def stop():
    _active[0] = False


def events():
    return _events


def dump(path, end):
    stop()
    with open(path, "w") as fh:
        for e in _events:
            fh.write(json.dumps(e, default=str) + "\n")
        fh.write(json.dumps(end) + "\n")


def main(argv):
    out = None
    cwd = None
    entry = "cli"
    i = 0
    while i < len(argv) and argv[i] != "--":
        if argv[i] == "--events":
            out = argv[i + 1]
            i += 2
        elif argv[i] == "--cwd":
            cwd = argv[i + 1]
            i += 2
        elif argv[i] == "--entry":
            entry = argv[i + 1]
            i += 2
        else:
            raise SystemExit(f"run_cli: unknown option {argv[i]}")
    cli_argv = argv[i + 1:]
    import sqlite_dissect.entrypoint as ep  # noqa: F401  (imports done before the hook becomes active)
    install()
    if cwd:
        os.chdir(cwd)
    sys.argv = ["sqlite_dissect"] + cli_argv
    end = {"k": "end", "exit": 0, "exc": None, "msg": None}
    start()
    try:
        if entry == "main":
            # the library-level entry: main() on exactly the path given (cli() refuses zero-length files itself)
            from sqlite_dissect.utilities import parse_args
            a = parse_args()
            ep.main(a, a.sqlite_path, False)
        else:
            ep.cli()
    except SystemExit as e:
        stop()
        code = e.code
        end["exit"] = code if isinstance(code, int) else (0 if code is None else 1)
        end["exc"] = "SystemExit"
        end["msg"] = None if isinstance(code, int) or code is None else str(code)[:500]
    except BaseException as e:  # noqa: BLE001
        stop()
        end["exit"] = 1
        end["exc"] = type(e).__module__ + "." + type(e).__name__
        end["msg"] = str(e)[:1000]
        import traceback
        tb = traceback.extract_tb(e.__traceback__)
        end["where"] = [[os.path.basename(fr.filename), fr.lineno, fr.name] for fr in tb[-4:]]
    stop()
    try:
        sys.stdout.flush()
    except Exception:  # noqa: BLE001
        pass
    if out:
        dump(out, end)
    return end["exit"]


if __name__ == "__main__":
    rc = main(sys.argv[1:])
    sys.stdout.flush()
    sys.exit(rc if isinstance(rc, int) else 1)
