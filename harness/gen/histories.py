"""WAL histories made with the real SQLite library, with an oracle snapshot after every commit.

The database file + "-wal" are copied while the connections are still open (so nothing is
checkpointed behind our back: wal_autocheckpoint=0 and a second connection held open)."""
import os
import shutil
import sqlite3

from . import sqlite_factory as F


def mx_frame(work):
    """mxFrame of the wal-index header (bytes 16..20 of the -shm file, native little-endian): it changes exactly
    when a transaction appends frames (or the log restarts)"""
    try:
        with open(work + "-shm", "rb") as fh:
            b = fh.read(24)
        return (int.from_bytes(b[16:20], "little"), int.from_bytes(b[8:12], "little"))
    except OSError:
        return (0, 0)


class History:
    def __init__(self):
        self.db = None
        self.wal = None
        self.snapshots = []      # snapshot[k] = state after k-th commit of the current WAL generation (0 = db file)
        self.cfg = None
        self.tables = {}         # name -> (column names, alias) for rowid tables ever created
        self.kind = ""
        self.events = []


def snapshot(con, tables):
    snap = {"tables": {}, "schema": [], "pragmas": {}}
    names = [r[0] for r in con.execute("SELECT name FROM sqlite_master WHERE type='table'")]
    for name in names:
        if name not in tables:
            continue
        cols = tables[name][0]
        try:
            live_cols = [r[1] for r in con.execute(f"PRAGMA table_info({name})")]
        except sqlite3.Error:
            continue
        sel = ", ".join(f'typeof("{c}"), hex("{c}"), "{c}"' for c in live_cols)
        rows = []
        for row in con.execute(f"SELECT rowid, {sel} FROM {name} ORDER BY rowid"):
            rows.append((row[0], [(row[1 + 3 * i], row[2 + 3 * i], row[3 + 3 * i]) for i in range(len(live_cols))]))
        snap["tables"][name] = {"cols": live_cols, "rows": rows}
    snap["schema"] = [tuple(r) for r in con.execute("SELECT type, name, tbl_name, rootpage, sql FROM sqlite_master")]
    for p in ("page_count", "freelist_count", "schema_version", "user_version", "application_id", "page_size",
              "encoding", "auto_vacuum"):
        snap["pragmas"][p] = con.execute(f"PRAGMA {p}").fetchone()[0]
    return snap


def make_history(base, cfg, r, n_commits=None, kind=None):
    """base: path prefix for the working files; returns History with copies at base+'.h.db' / '.h.db-wal'."""
    work = base + ".work.db"
    for suffix in ("", "-wal", "-shm", "-journal"):
        if os.path.exists(work + suffix):
            os.unlink(work + suffix)
    h = History()
    h.cfg = cfg
    kind = kind or r.choice(["plain", "plain", "spill", "overflow_inplace", "ddl", "checkpoint_restart",
                             "passive_checkpoint", "grow_shrink", "header_pragmas", "freelist_drain", "wide_schema", "restart_after_rollback", "odd_rowids", "empty_out"])
    h.kind = kind
    ps = cfg["page_size"]
    if kind == "rootmove":
        cfg = dict(cfg, auto_vacuum=1)
        h.cfg = cfg
    if kind == "freelist_drain":
        cfg = dict(cfg, auto_vacuum=0)
        h.cfg = cfg
    con = F.connect(work, dict(cfg, journal_mode="WAL"))
    con.execute("PRAGMA wal_autocheckpoint=0")
    con.execute("PRAGMA synchronous=OFF")
    keeper = sqlite3.connect(work, isolation_level=None)   # keeps the WAL alive on close
    keeper.execute("PRAGMA wal_autocheckpoint=0")
    if kind == "empty_out":
        con.execute("PRAGMA secure_delete=ON")      # freed cells are zeroed: an emptied page ends in a long run of zero bytes
    tables = {}
    fresh_mark = [mx_frame(work)]

    def fresh_snap():
        """fresh_wal histories: one snapshot per statement that wrote frames, starting from the empty file"""
        if kind == "fresh_wal":
            now = mx_frame(work)
            if now != fresh_mark[0]:
                h.snapshots.append(snapshot(con, tables))
                h.events.append("setup")
                fresh_mark[0] = now

    if kind == "fresh_wal":
        h.snapshots.append(snapshot(con, tables))       # the empty database file
    ncols = r.randint(2, 4)
    alias = r.random() < 0.4
    cols = [f"c{i}" for i in range(ncols)]
    decl = ["c0 INTEGER PRIMARY KEY" if alias else "c0 INTEGER"] + [f"c{i} {r.choice(['TEXT', 'BLOB', '', 'REAL'])}" for i in range(1, ncols)]
    if kind == "rootmove":
        # a victim table with a lower root page: dropping it under auto_vacuum moves t0's root page
        con.execute("CREATE TABLE victim (x, y)")
        con.execute("INSERT INTO victim VALUES (1, 'v')")
    con.execute(f"CREATE TABLE t0 ({', '.join(decl)})")
    tables["t0"] = (cols, alias)
    fresh_snap()
    if r.random() < 0.5 and kind not in ("rootmove", "empty_out"):      # (t0 must own the largest root page to be the one that moves; empty_out: single-frame commits)
        con.execute("CREATE INDEX i0 ON t0 (c1)")
        fresh_snap()
    base_rows = r.choice([0, 5, 40, 120])
    if kind in ("freelist_drain", "grow_shrink"):
        base_rows = r.choice([40, 120])
    if kind == "deep_append":
        base_rows = 1500 if ps <= 512 else 4000
    if kind == "empty_out":
        base_rows = 3
    if kind == "flipflop":
        base_rows = r.choice([5, 40])
    if kind == "rootmove":
        base_rows = r.choice([1, 2, 3, 40])      # a single-page table: after the move none of its old pages is rewritten

    def ins(n, big=False):
        for _ in range(n):
            vals = [F.rand_value(r, ps, big=big) for _ in cols]
            if alias:
                vals[0] = None
            con.execute(f"INSERT INTO t0 ({','.join(cols)}) VALUES ({','.join('?' * ncols)})", vals)

    if kind in ("wide_schema", "schema_overflow"):
        for i in range(40):
            con.execute(f"CREATE TABLE s{i:02d} (a INTEGER, b TEXT, c BLOB /* filler {i} */)")
    con.execute("BEGIN")
    if kind == "odd_rowids" or (kind in ("plain", "overflow_inplace", "passive_checkpoint") and r.random() < 0.7):
        # legal but unusual row ids: 0 and negative ones
        for rid in (0, -1, -(2 ** 40)):
            vals = [F.rand_value(r, ps, big=False) for _ in cols]
            if alias:
                con.execute(f"INSERT INTO t0 ({','.join(cols)}) VALUES ({','.join('?' * ncols)})", [rid] + vals[1:])
            else:
                con.execute(f"INSERT INTO t0 (rowid,{','.join(cols)}) VALUES (?,{','.join('?' * ncols)})", [rid] + vals)
    if kind == "deep_append":
        # homogeneous rows (one serial type per column), so that the later odd rows bring serial types no row had
        for _ in range(base_rows):
            vals = [None if alias else 7] + ["w" * 20 for _ in cols[1:]]
            con.execute(f"INSERT INTO t0 ({','.join(cols)}) VALUES ({','.join('?' * ncols)})", vals)
    else:
        ins(base_rows, big=r.random() < 0.5 and kind not in ("rootmove", "empty_out"))
    if kind == "overflow_inplace":
        for _ in range(3):
            vals = [None if alias else 1] + [bytes(r.randint(0, 255) for _ in range(3 * ps + 17)) for _ in cols[1:]]
            con.execute(f"INSERT INTO t0 ({','.join(cols)}) VALUES ({','.join('?' * ncols)})", vals)
        # the same for an index b-tree: a WITHOUT ROWID table whose rows spill onto overflow pages
        con.execute("CREATE TABLE w0 (k INTEGER PRIMARY KEY, v BLOB) WITHOUT ROWID")
        for i in range(3):
            con.execute("INSERT INTO w0 VALUES (?, ?)", (i + 1, bytes(r.randint(0, 255) for _ in range(3 * ps + 29))))
    con.execute("COMMIT")
    if kind == "fresh_wal":
        # nothing is checkpointed: the database file stays the empty one-page file and the schema, the schema
        # format and the text encoding are first established inside the WAL
        fresh_snap()
    else:
        # everything so far goes into the database file
        con.execute("PRAGMA wal_checkpoint(TRUNCATE)")
        h.snapshots.append(snapshot(con, tables))
    if n_commits is None and kind in ("checkpoint_restart", "restart_after_rollback", "passive_checkpoint", "odd_rowids",
                                      "wide_schema", "schema_overflow", "freelist_drain", "deep_append", "ddl", "flipflop", "overflow_inplace"):
        n_commits = r.randint(3, 6)      # these shapes need a few commits to show at all
    n_commits = n_commits if n_commits is not None else r.randint(1, 6)
    if kind == "schema_overflow":
        n_commits = max(n_commits, 6)      # create / rename / insert / drop / reuse + create: the freed overflow pages are reused
    wal_size = mx_frame(work)
    stale_generation = False
    flip = {}
    for k in range(n_commits):
        op = kind
        if kind in ("plain", "checkpoint_restart", "restart_after_rollback", "passive_checkpoint", "grow_shrink", "fresh_wal"):
            op = r.choice(["insert", "update", "delete", "mixed"])
        con.execute("BEGIN")
        ids = [x[0] for x in con.execute("SELECT rowid FROM t0")]
        if op == "insert" or (not ids and op not in ("freelist_drain", "odd_rowids", "wide_schema", "schema_overflow", "deep_append", "empty_out")):
            ins(r.randint(1, 30), big=r.random() < 0.3)
        elif op == "update":
            for rid in r.sample(ids, min(len(ids), r.randint(1, 8))) + ([0] if 0 in ids else []):
                c = r.choice(cols[1:])
                con.execute(f"UPDATE t0 SET {c}=? WHERE rowid=?", (F.rand_value(r, ps, big=r.random() < 0.3), rid))
        elif op == "delete":
            for rid in r.sample(ids, min(len(ids), r.randint(1, 10))):
                con.execute("DELETE FROM t0 WHERE rowid=?", (rid,))
        elif op == "mixed":
            ins(r.randint(1, 10))
            for rid in r.sample(ids, min(len(ids), 3)):
                con.execute("DELETE FROM t0 WHERE rowid=?", (rid,))
        elif op == "spill":
            # a transaction large enough to spill the page cache: the same page is written twice
            con.execute("PRAGMA cache_size=5")
            ins(400)
            con.execute(f"UPDATE t0 SET {cols[1]} = 'spilled'")
        elif op == "overflow_inplace":
            # same-size update of an overflowing blob: only the changed overflow page is rewritten
            rid = r.choice(ids)
            row = con.execute(f"SELECT {cols[1]} FROM t0 WHERE rowid=?", (rid,)).fetchone()
            v = row[0]
            if isinstance(v, bytes) and len(v) > 2 * ps:
                b = bytearray(v)
                # which overflow page is rewritten: the first one (the leaf page with the cell keeps its older version),
                # the last one, one in the middle
                b[[ps, -3, len(b) // 2][k % 3]] ^= 0xFF
                con.execute(f"UPDATE t0 SET {cols[1]}=? WHERE rowid=?", (bytes(b), rid))
            else:
                ins(2)
            # same-size update of an overflowing WITHOUT ROWID row (SQLite overwrites the changed overflow page only; the
            # leaf page holding the cell keeps its older version)
            wk = k % 3 + 1
            wv = con.execute("SELECT v FROM w0 WHERE k=?", (wk,)).fetchone()
            if wv is not None:
                b = bytearray(wv[0])
                b[[ps, -3, len(b) // 2][(k + 1) % 3 if k else 0]] ^= 0xFF
                con.execute("UPDATE w0 SET v=? WHERE k=?", (bytes(b), wk))
        elif op == "ddl":
            step = k % 4
            if step == 0:
                con.execute(f"CREATE TABLE d{k} (a INTEGER, b TEXT)")
                tables[f"d{k}"] = (["a", "b"], False)
                con.execute(f"INSERT INTO d{k} VALUES (1, 'x')")
                # several schema changes in one transaction: the schema cookie advances by more than one
                con.execute(f"CREATE INDEX dx{k} ON d{k} (a)")
                con.execute(f"CREATE TABLE e{k} (z)")
                tables[f"e{k}"] = (["z"], False)
            elif step == 1:
                con.execute(f"CREATE INDEX di{k} ON t0 ({cols[-1]})")
                # the same transaction changes rows of a one-page table (its root page is the only page rewritten):
                # of the base table when it is still small, and of a table created earlier in the log
                ins(1)
                live = {x[0] for x in con.execute("SELECT name FROM sqlite_master WHERE type='table'")}
                for dt in [t for t in tables if t.startswith("d") and t in live][:1]:
                    con.execute(f"INSERT INTO {dt} VALUES (?, ?)", (k + 100, f"with-ddl-{k}"))
                    con.execute(f"UPDATE {dt} SET b = 'changed-with-ddl' WHERE a = 1")
            elif step == 2:
                con.execute("ALTER TABLE t0 ADD COLUMN added%d TEXT" % k)
                tables["t0"] = (tables["t0"][0] + ["added%d" % k], alias)
            else:
                live = {x[0] for x in con.execute("SELECT name FROM sqlite_master WHERE type='table'")}
                victims = [t for t in tables if t.startswith("d") and t in live]
                if victims:
                    con.execute(f"DROP TABLE {victims[0]}")
                else:
                    ins(3)
        elif op == "flipflop":
            # rows that return to an earlier, byte-identical state: a value toggled there and back, a row deleted and
            # inserted again with the same row id and values (each state is reported once per change, every time)
            if not flip:
                flip["a"], flip["b"] = ids[0], ids[-1]
                flip["col"] = cols[-1]
                flip["v0"] = con.execute(f"SELECT {flip['col']} FROM t0 WHERE rowid=?", (flip["a"],)).fetchone()[0]
                flip["row"] = con.execute(f"SELECT rowid, {','.join(cols)} FROM t0 WHERE rowid=?", (flip["b"],)).fetchone()
            if k % 2 == 0:
                con.execute(f"UPDATE t0 SET {flip['col']}=? WHERE rowid=?", ("toggled", flip["a"]))
                if flip["b"] != flip["a"]:
                    con.execute("DELETE FROM t0 WHERE rowid=?", (flip["b"],))
            else:
                con.execute(f"UPDATE t0 SET {flip['col']}=? WHERE rowid=?", (flip["v0"], flip["a"]))
                if flip["b"] != flip["a"]:
                    row = flip["row"]
                    if alias:
                        con.execute(f"INSERT INTO t0 ({','.join(cols)}) VALUES ({','.join('?' * ncols)})", [row[0]] + list(row[2:]))
                    else:
                        con.execute(f"INSERT INTO t0 (rowid,{','.join(cols)}) VALUES (?,{','.join('?' * ncols)})", list(row))
        elif op == "empty_out":
            # single-frame transactions whose page image ends in a long run of zero bytes: a one-page table emptied
            # (secure_delete zeroes the freed cells) and refilled
            if k % 2 == 0:
                con.execute("DELETE FROM t0")
            else:
                ins(2)
        elif op == "wide_schema":
            # the schema b-tree has an interior root: DDL that edits a row on a left leaf leaves page 1 untouched
            step = k % 3
            if step == 0:
                con.execute(f"ALTER TABLE s{k + 3:02d} RENAME TO u{k + 3:02d}")
            elif step == 1:
                con.execute(f"DROP TABLE s{k + 10:02d}")
            else:
                con.execute(f"CREATE TABLE n{k} (a, b)")
        elif op == "schema_overflow":
            # a schema row so long that it spills onto overflow pages, on a leaf of a schema b-tree with an interior root:
            # the set of schema pages changes while page 1's b-tree does not; then a same-length RENAME COLUMN overwrites
            # ONE of those overflow pages in place; then the table is dropped and its pages are reused by table data
            step = k % 4
            bigcols = ", ".join(f"column_number_{i:03d} text" for i in range(60)) + ", pad" + "x" * 40
            if step == 0:
                if k:
                    ins(12, big=True)      # large values: the pages freed by the DROP are taken from the freelist
                con.execute(f"CREATE TABLE big{k} ({bigcols})")
                con.execute(f"INSERT INTO big{k} (column_number_000, column_number_059) VALUES ('x', 'y')")
            elif step == 1:
                con.execute(f"ALTER TABLE big{k - 1} RENAME COLUMN column_number_055 TO renamed_column_55")
            elif step == 2:
                con.execute(f"INSERT INTO big{k - 2} (column_number_000, renamed_column_55) VALUES ('p', 'q')")
            else:
                con.execute(f"DROP TABLE big{k - 3}")
        elif op == "odd_rowids":
            # row ids 0, -1, -(2**40): update, delete and re-insert them
            c = cols[-1]
            step = k % 4
            if step == 0:
                con.execute(f"UPDATE t0 SET {c}=? WHERE rowid IN (0, -1)", (F.rand_value(r, ps, big=False),))
            elif step == 1:
                con.execute("DELETE FROM t0 WHERE rowid IN (0, ?)", (-(2 ** 40),))
                ins(2)
            elif step == 2:
                vals = [F.rand_value(r, ps, big=False) for _ in cols]
                if alias:
                    con.execute(f"INSERT OR REPLACE INTO t0 ({','.join(cols)}) VALUES ({','.join('?' * ncols)})", [0] + vals[1:])
                else:
                    con.execute(f"INSERT OR REPLACE INTO t0 (rowid,{','.join(cols)}) VALUES (?,{','.join('?' * ncols)})", [0] + vals)
            else:
                con.execute(f"UPDATE t0 SET {c}=? WHERE rowid <= 0", (F.rand_value(r, ps, big=False),))
        elif op == "deep_append":
            # a three-level tree: the first commit appends until a new leaf hangs under a second-level interior page
            # (the root is not rewritten), the later ones write that newest leaf only - with serial types no earlier
            # row has
            if k == 0:
                pc = con.execute("PRAGMA page_count").fetchone()[0]
                for _ in range(200):
                    vals = [None if alias else 7] + ["w" * 20 for _ in cols[1:]]
                    con.execute(f"INSERT INTO t0 ({','.join(cols)}) VALUES ({','.join('?' * ncols)})", vals)
                    if con.execute("PRAGMA page_count").fetchone()[0] > pc:
                        break
            else:
                odd = [2.5, None, -1.25, b"", "", 2 ** 40 + k, 0, 1][(k - 1) % 8]
                vals = [None if alias else 10 ** 6 + k] + [odd for _ in cols[1:]]
                con.execute(f"INSERT INTO t0 ({','.join(cols)}) VALUES ({','.join('?' * ncols)})", vals)
        elif op == "freelist_drain":
            # a freelist that appears inside the log and is later used up completely (trunk pointer N -> 0)
            if k % 3 == 0:
                con.execute("DELETE FROM t0")
            elif k % 3 == 1:
                while True:
                    ins(20, big=True)
                    if con.execute("PRAGMA freelist_count").fetchone()[0] == 0:
                        break
            else:
                ins(r.randint(1, 5))
        elif op == "rootmove":
            if k == 0:
                con.execute("DROP TABLE victim")
                if r.random() < 0.5:
                    ins(2)
            else:
                which = r.choice(["insert", "update", "delete"])
                if which == "insert" or not ids:
                    ins(r.randint(1, 5))
                elif which == "update":
                    con.execute(f"UPDATE t0 SET {cols[1]}=? WHERE rowid=?", (F.rand_value(r, ps, big=False), r.choice(ids)))
                else:
                    con.execute("DELETE FROM t0 WHERE rowid=?", (r.choice(ids),))
        elif op == "header_pragmas":
            which = r.choice(["user_version", "application_id", "insert", "default_cache_size"]
                             + (["auto_vacuum_toggle"] * 3 if cfg["auto_vacuum"] else []))
            if which == "auto_vacuum_toggle":
                # FULL <-> INCREMENTAL needs no VACUUM: only the incremental-vacuum flag of the header changes
                cur = con.execute("PRAGMA auto_vacuum").fetchone()[0]
                con.execute(f"PRAGMA auto_vacuum={2 if cur == 1 else 1}")
                ins(1)
            elif which == "user_version":
                con.execute(f"PRAGMA user_version={r.randint(1, 10 ** 6)}")
            elif which == "application_id":
                con.execute(f"PRAGMA application_id={r.randint(1, 10 ** 6)}")
            elif which == "default_cache_size":
                con.execute(f"PRAGMA default_cache_size={r.randint(10, 5000)}")
            else:
                ins(3)
        con.execute("COMMIT")
        now = mx_frame(work)
        if now != wal_size:
            # only a transaction that wrote frames makes a version
            h.events.append(op)
            h.snapshots.append(snapshot(con, tables))
        else:
            h.events.append(op + ":no-frames")
        wal_size = now
        if kind in ("checkpoint_restart", "restart_after_rollback") and k == n_commits // 2 and not stale_generation and k + 1 < n_commits:
            if kind == "restart_after_rollback":
                # the old generation ends in a transaction that spilled the page cache and was rolled back: its
                # frames stay at the end of the file, uncommitted, and the shorter new generation never reaches them
                con.execute("PRAGMA cache_size=5")
                con.execute("BEGIN")
                ins(400)
                con.execute("ROLLBACK")
                con.execute("PRAGMA cache_size=-2000")
                h.events.append("spill+rollback")
            # checkpoint everything; the next write restarts the WAL and leaves stale frames behind
            con.execute("PRAGMA wal_checkpoint(FULL)")
            stale_generation = True
            wal_size = mx_frame(work)
            h.snapshots = [h.snapshots[-1]]
            h.events.append("checkpoint+restart")
        if kind == "passive_checkpoint" and k == n_commits // 2:
            # a reader holding a snapshot keeps the writer from restarting the log after the checkpoint
            keeper.execute("BEGIN")
            keeper.execute("SELECT count(*) FROM sqlite_master").fetchall()
            con.execute("PRAGMA wal_checkpoint(PASSIVE)")
            h.events.append("passive-checkpoint")
            h.passive_at = len(h.snapshots) - 1
        if kind == "grow_shrink" and cfg["auto_vacuum"] and k == n_commits // 2:
            # two statements that may each commit: a snapshot is recorded for each one that wrote frames
            for stmt in ("DELETE FROM t0 WHERE rowid % 2 = 0", "PRAGMA incremental_vacuum"):
                con.execute(stmt).fetchall()
                now = mx_frame(work)
                if now != wal_size:
                    h.events.append("shrink:" + stmt.split()[0].lower())
                    h.snapshots.append(snapshot(con, tables))
                    wal_size = now
    h.db = base + ".h.db"
    h.wal = base + ".h.db-wal"
    shutil.copyfile(work, h.db)
    if os.path.exists(work + "-wal"):
        shutil.copyfile(work + "-wal", h.wal)
    else:
        h.wal = None
    h.tables = tables
    con.close()
    keeper.close()
    for suffix in ("", "-wal", "-shm", "-journal"):
        if os.path.exists(work + suffix):
            os.unlink(work + suffix)
    return h
