"""Independent reader of WAL files (transcribes wal.c: a frame is valid iff its salts equal the
header's and the cumulative checksum matches; the log ends at the first invalid frame; a frame with
a non-zero size field commits).  Used as the oracle for page images (C02) and recovery (C05)."""
import struct


def checksum(data, s0, s1, big_endian):
    fmt = ">" if big_endian else "<"
    n = len(data) // 4
    words = struct.unpack(fmt + "%dI" % n, data)
    for i in range(0, n, 2):
        s0 = (s0 + words[i] + s1) & 0xFFFFFFFF
        s1 = (s1 + words[i + 1] + s0) & 0xFFFFFFFF
    return s0, s1


def read_wal(wal_bytes):
    """returns dict(page_size, salts, frames=[(index, pgno, dbsize, valid_by_salt, valid_by_checksum)],
    commits=[(frame index of commit frame, dbsize)]) for the leading valid run"""
    if len(wal_bytes) < 32:
        return None
    magic, ver, ps, seq, s1, s2, c1, c2 = struct.unpack(">8I", wal_bytes[:32])
    if magic not in (0x377F0682, 0x377F0683) or ver != 3007000:
        return None
    be = magic == 0x377F0683
    h0, h1 = checksum(wal_bytes[:24], 0, 0, be)
    out = {"page_size": ps, "salt1": s1, "salt2": s2, "frames": [], "commits": [], "hdr_ck_ok": (h0, h1) == (c1, c2)}
    fs = 24 + ps
    n = (len(wal_bytes) - 32) // fs
    ck = (h0, h1)
    for i in range(n):
        off = 32 + i * fs
        pgno, dbsize, fs1, fs2, fc1, fc2 = struct.unpack(">6I", wal_bytes[off:off + 24])
        ck2 = checksum(wal_bytes[off:off + 8], ck[0], ck[1], be)
        ck2 = checksum(wal_bytes[off + 24:off + fs], ck2[0], ck2[1], be)
        ok = (fs1, fs2) == (s1, s2) and ck2 == (fc1, fc2) and pgno != 0
        if not ok:
            break
        ck = ck2
        out["frames"].append((i, pgno, dbsize))
        if dbsize:
            out["commits"].append((i, dbsize))
    return out


def page_at(db_bytes, wal_bytes, info, k, pgno):
    """image of page pgno after the k-th commit (k = 0: database file)"""
    ps = info["page_size"]
    if k == 0:
        return db_bytes[(pgno - 1) * ps: pgno * ps]
    last = info["commits"][k - 1][0]
    best = None
    for (i, p, _sz) in info["frames"]:
        if i > last:
            break
        if p == pgno:
            best = i
    if best is None:
        return db_bytes[(pgno - 1) * ps: pgno * ps]
    off = 32 + best * (24 + ps) + 24
    return wal_bytes[off: off + ps]
