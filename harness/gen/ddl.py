"""Grammar-based CREATE TABLE generator for C07.

A statement is a small tree (table name, gaps, columns with name / declared type / constraints,
table constraints, trailer).  `render` produces the text and the set of *feature tags* present in
it (single tab between tokens, comment-only separator, doubled quote inside an identifier, '/'
inside an expression, …).  `minimise` removes parts and replaces gaps / identifiers / expressions
by their clean defaults while a predicate keeps holding, so that an oracle failure is reported
with a minimal statement whose remaining tags name its cause.

Every random choice comes from the rng handed in."""
import copy

# ---------------------------------------------------------------------------------- gaps
# (comments that start with "/*/" are ordinary cases since 41d65d3: their closing "*/" is looked for after the "/*")
COMMENTS = ["/* c */", "/*c,(*/", "/**/", "-- c\n", "--c)\n", "/* ' */", "/*\n*/", "/*/ x */", "/*/*/", "/*/,(*/", "/***/"]
WS1 = ["\t", "\n", "\r", "\f"]
WSRUN = ["  ", " \n", "\n  ", "\t\t", " \t ", "\r\n"]


def gap(where, default, pieces=None):
    return {"w": where, "d": default, "p": [default] if pieces is None else pieces}


def gap_text(g):
    return "".join(g["p"])


def is_comment(p):
    return p.startswith("/*") or p.startswith("--")


def gap_tags(g):
    txt = gap_text(g)
    if txt == g["d"]:
        return set()
    w = g["w"]
    coms = [p for p in g["p"] if is_comment(p)]
    ws = "".join(p for p in g["p"] if not is_comment(p))
    t = set()
    if coms:
        t.add(f"cmt:{w}")
        if len(coms) >= 2:
            t.add(f"cmt2:{w}")
        if not ws and not any(c.startswith("--") for c in coms):
            t.add(f"cmtonly:{w}")
        if is_comment(g["p"][0]) or is_comment(g["p"][-1]):
            t.add(f"cmtadj:{w}")          # a comment touches one of the neighbouring tokens
        if any(c.startswith("/*/") for c in coms):
            t.add(f"slash-star-slash:{w}")     # informational (not a risky tag): repaired by 41d65d3
    if not coms:
        if txt == "":
            t.add(f"nogap:{w}")
        elif len(txt) == 1 and txt != " ":
            t.add(f"ws1:{w}")
        elif len(txt) >= 2:
            t.add(f"wsrun:{w}")
    else:
        if any(len(p) == 1 and p != " " for p in g["p"] if not is_comment(p)):
            t.add(f"ws1:{w}")
        if any(len(p) >= 2 for p in g["p"] if not is_comment(p)):
            t.add(f"wsrun:{w}")
    return t


def random_gap(r, where, default, nasty, required=True):
    """nasty in [0,1]: probability of leaving the default"""
    if r.random() >= nasty:
        return gap(where, default)
    k = r.random()
    if k < 0.30:
        p = [r.choice(WS1)]
    elif k < 0.45:
        p = [r.choice(WSRUN)]
    elif k < 0.60:
        p = [" ", r.choice(COMMENTS), " "]
    elif k < 0.70:
        p = [r.choice(COMMENTS)]                      # comment as the only separator
    elif k < 0.78:
        p = [" ", r.choice(COMMENTS), " ", r.choice(COMMENTS), " "]
    elif k < 0.84:
        p = [" ", r.choice(COMMENTS), r.choice(WS1)]
    elif k < 0.90:
        p = [r.choice(WS1), r.choice(COMMENTS), " "]
    elif k < 0.95:
        p = [r.choice(["/*/ x */", "/*/*/", "/*/\n*/"])] if required else [r.choice(["/*/ x */ ", " /*/*/"])]
    else:
        p = [""] if not required else [" "]
    if p == [""] and required:
        p = [" "]
    return gap(where, default, p)


# ---------------------------------------------------------------------------------- identifiers
PLAIN_NAMES = ["a", "b", "c1", "col_2", "Name", "primaryEmail", "checked", "uniqueId", "foreign_id", "constraintx",
               "defaulted", "notes", "x", "_y", "é", "日本", "Z9", "asof", "without_x", "rowid_", "k"]
QUOTED_EXTRA = ["a b", "a,b", "a(b", "a)b", "(", ")", "a-b", "a--b", "a/b", "a/*b", "a.b", "primary", "check", "select",
                "a  b", "a\tb", "é ü", "x'y", 'x"y', "x`y", "x[y", "1a", "", "a;b", "CONSTRAINT", "unique", " lead", "trail ", "a\nb", "a\nb", "[a", "a["]
QUOTE = {"dq": ('"', '"'), "sq": ("'", "'"), "bt": ("`", "`"), "br": ("[", "]")}
# names that contain the quote character of their own quoting style (Q): written doubled, read back single (687226d)
DOUBLED = ["xQy", "Q", "QQ", "aQ", "Qa", "aQQb", "QaQ", "a QbQ", "itQs", "aQ,b", "aQ(b", "aQ)b", "Q é", "Q.Q"]


def ident(text, style="plain"):
    return {"t": text, "s": style}


def ident_text(i):
    if i["s"] == "plain":
        return i["t"]
    o, c = QUOTE[i["s"]]
    t = i["t"]
    if i["s"] != "br":
        t = t.replace(c, c + c)
    return o + t + c


def ident_tags(i):
    t = set()
    if i["s"] != "plain":
        t.add("quote:" + i["s"])
        txt = i["t"]
        if i["s"] != "br" and QUOTE[i["s"]][1] in txt:
            t.add("ident:doubled-quote")
        if any(ch in txt for ch in "()"):
            t.add("ident:paren")
        if "," in txt:
            t.add("ident:comma")
        if "/" in txt or "--" in txt:
            t.add("ident:comment-chars")
        if "  " in txt or "\t" in txt or txt != txt.strip():
            t.add("ident:whitespace")
        if any(ch in txt for ch in "'\"`[") and i["s"] == "br":
            t.add("ident:quote-char-in-bracket")
        if any(q in txt for q in "'\"`") and i["s"] != "br" and QUOTE[i["s"]][1] not in txt:
            t.add("ident:other-quote-char")
        if txt == "":
            t.add("ident:empty")
        if "\n" in txt:
            # informational: every style reads a newline inside the name (687226d; brackets since 417a203)
            t.add("quote-newline:" + i["s"])
        if i["s"] == "br" and (txt.startswith("[") or txt.endswith("[")):
            t.add("bracket-edge:" + i["s"])     # informational: the name is group(1) since d4f87a6
    if any(ord(ch) > 127 for ch in i["t"]):
        t.add("ident:non-ascii")
    return t


def random_ident(r, nasty, used):
    for _ in range(50):
        if r.random() >= nasty:
            i = ident(r.choice(PLAIN_NAMES))
        else:
            style = r.choice(["dq", "dq", "sq", "bt", "br"])
            txt = r.choice(PLAIN_NAMES + QUOTED_EXTRA + QUOTED_EXTRA)
            if style != "br" and r.random() < 0.3:
                txt = r.choice(DOUBLED).replace("Q", QUOTE[style][1])
            if style == "br" and "]" in txt:
                continue
            if txt == "" and style in ("sq",):
                continue
            i = ident(txt, style)
        if i["t"].lower() not in used:
            used.add(i["t"].lower())
            return i
    n = f"c{len(used)}"
    used.add(n)
    return ident(n)


# ---------------------------------------------------------------------------------- types
STD_TYPES = [["INT"], ["INTEGER"], ["TINYINT"], ["SMALLINT"], ["MEDIUMINT"], ["BIGINT"], ["UNSIGNED", "BIG", "INT"],
             ["INT2"], ["INT8"], ["CHARACTER"], ["VARCHAR"], ["VARYING", "CHARACTER"], ["NCHAR"],
             ["NATIVE", "CHARACTER"], ["NVARCHAR"], ["TEXT"], ["CLOB"], ["BLOB"], ["REAL"], ["DOUBLE"],
             ["DOUBLE", "PRECISION"], ["FLOAT"], ["NUMERIC"], ["DECIMAL"], ["BOOLEAN"], ["DATE"], ["DATETIME"]]
ODD_TYPES = [["STRING"], ["FLOATING", "POINT"], ["CHARINT"], ["XREAL"], ["BLOBTEXT"], ["POINT"], ["integer"],
             ["VarChar"], ["text"], ["double", "precision"], ["N"], ["X"], ["NOT_SPECIFIED"], ["INVALID"], ["ANY"],
             ["TIMESTAMP"], ["LONGTEXT"], ["JSON"], ["UUID"], ["MONEY"], ["INTERVAL"], ["BIT"], ["realish"], ["doubt"],
             ["afloat"], ["NUM"], ["unsigned_big_int"], ["big", "int"], ["MEDIUMBLOB"], ["charlie"], ["ID"]]
ARGS = ["10", "255", "10,5", " 10 ", "10, 5", " 10 , 5 ", "-1", "+2.5", "1e3", "0"]


def typetok(words, args=None):
    return {"words": words, "wg": [gap("type-word", " ") for _ in words[1:]], "ag": gap("type-args", ""), "args": args}


def type_text(t):
    s = t["words"][0]
    for g, w in zip(t["wg"], t["words"][1:]):
        s += gap_text(g) + w
    if t["args"] is not None:
        s += gap_text(t["ag"]) + "(" + t["args"] + ")"
    return s


def type_tags(t):
    tg = set()
    for g in t["wg"] + ([t["ag"]] if t["args"] is not None else []):
        tg |= gap_tags(g)
    if t["args"] is not None:
        tg.add("type:args")
        if t["args"] != t["args"].strip() or ", " in t["args"] or " ," in t["args"]:
            tg.add("type:args-spaces")
    if len(t["words"]) == 1 and len(t["words"][0]) == 1:
        tg.add("type:one-char")
    if "_".join(t["words"]).upper() == "NOT_SPECIFIED":
        tg.add("type:NOT_SPECIFIED")
    if t["words"] not in STD_TYPES:
        tg.add("type:non-standard")
    if len(t["words"]) > 1:
        tg.add("type:multi-word")
    return tg


def random_type(r, nasty):
    if r.random() < 0.12:
        return None
    words = list(r.choice(STD_TYPES if r.random() >= nasty else ODD_TYPES + STD_TYPES))
    if r.random() < nasty * 0.5:
        words = [w.lower() if r.random() < 0.5 else w.capitalize() for w in words]
    t = typetok(words)
    if r.random() < 0.3:
        t["args"] = r.choice(ARGS if r.random() < max(nasty, 0.15) else ARGS[:3])
        t["ag"] = random_gap(r, "type-args", "", nasty * 0.6, required=False)
    t["wg"] = [random_gap(r, "type-word", " ", nasty * 0.5) for _ in words[1:]]
    return t


# ---------------------------------------------------------------------------------- expressions / constraints
CLEAN_EXPRS = ["1", "0", "'x'", "a > 0", "length(b) < 10", "NULL", "-1", "+2", "1.5", "'it''s'", "x'00FF'", "\"a\" IS NOT NULL"]
NASTY_EXPRS = ["'a,b'", "b IN (1,2,3)", "'(x'", "')'", "'a)b('", "coalesce(a, 'n,a')", "a/2 > 1", "'x/y'", "'http://e.g'",
               "'x--y'", "a - -1", "'['", "'`'", "'\"'", "'/* not a comment */'", "'-- nor this'", "(1)", "((a))",
               "a >= 0 AND a <= 10", "a != ','", "'tab\there'", "'nl\nhere'", "replace(b, ')', '(') <> ''", "a % 2 = 0",
               "1 /* c */", "1 -- c\n", "'two  spaces'", "a*2", "[a] > 0", "`a` > 0", "CASE WHEN a THEN 1 ELSE 2 END"]


def expr_tags(e, where):
    t = set()
    body = e
    if "/" in body:
        t.add("expr:slash")
    if "--" in body:
        t.add("expr:dashdash")
    if "," in body:
        t.add("expr:comma")
    if "(" in body or ")" in body:
        t.add("expr:paren")
    if "'" in body or '"' in body or "`" in body or "[" in body:
        t.add("expr:quote")
    if "\n" in body or "\t" in body or "  " in body:
        t.add("expr:whitespace")
    return t


def random_expr(r, nasty):
    return r.choice(NASTY_EXPRS if r.random() < nasty else CLEAN_EXPRS)


def cons(kind, parts, expr=None):
    """parts: list of str | gap | ('expr',)"""
    return {"k": kind, "parts": parts, "expr": expr}


def cons_text(c):
    out = ""
    for p in c["parts"]:
        if isinstance(p, dict):
            out += gap_text(p)
        elif p == ("expr",):
            out += c["expr"]
        else:
            out += p
    return out


def cons_tags(c):
    t = {"cons:" + c["k"]}
    for p in c["parts"]:
        if isinstance(p, dict):
            t |= gap_tags(p)
    if c["expr"] is not None:
        t |= expr_tags(c["expr"], c["k"])
    return t


def random_col_constraint(r, nasty, first, allow_pk):
    g = lambda w="cons-inner", d=" ", req=True: random_gap(r, w, d, nasty * 0.4, required=req)
    k = r.choice(["notnull", "unique", "check", "default", "default", "collate", "references", "named", "null", "defparen"]
                 + (["pk"] if (first and allow_pk) else []) + (["generated", "as"] if r.random() < 0.25 else []))
    e = random_expr(r, nasty)
    if k == "pk":
        return cons("pk", ["PRIMARY", g(), "KEY"] + ([g(), r.choice(["ASC", "DESC"])] if r.random() < 0.2 else []))
    if k == "notnull":
        return cons("notnull", [r.choice(["NOT", "not"]), g(), r.choice(["NULL", "null"])])
    if k == "null":
        return cons("null", ["NULL"])
    if k == "unique":
        return cons("unique", [r.choice(["UNIQUE", "unique"])])
    if k == "check":
        return cons("check", [r.choice(["CHECK", "check"]), g("cons-paren", "", False), "(", ("expr",), ")"], e)
    if k == "default":
        lit = r.choice(["0", "-1", "+1.5", "'x'", "NULL", "CURRENT_TIMESTAMP", "'a,b'", "'x/y'", "'x--y'", "')'", "'it''s'",
                        "x'00'", "TRUE", "'two  spaces'", "\"dq\"", "'http://h/p'"] if r.random() < max(nasty, 0.3)
                       else ["0", "'x'", "NULL", "-1"])
        return cons("default", [r.choice(["DEFAULT", "default"]), g(), ("expr",)], lit)
    if k == "defparen":
        return cons("default", ["DEFAULT", g("cons-paren", " ", False), "(", ("expr",), ")"], e)
    if k == "collate":
        return cons("collate", ["COLLATE", g(), r.choice(["NOCASE", "BINARY", "RTRIM"])])
    if k == "references":
        tail = r.choice(["", " ON DELETE CASCADE", " ON UPDATE SET NULL", " DEFERRABLE INITIALLY DEFERRED"])
        return cons("references", ["REFERENCES", g(), "other", g("cons-paren", "", False), "(", "x", ")", tail])
    if k == "named":
        return cons("named", ["CONSTRAINT", g(), r.choice(["nn", "\"n n\"", "[n,n]", "c_1"]), g(), "NOT", g(), "NULL"])
    if k == "generated":
        return cons("generated", ["GENERATED", g(), "ALWAYS", g(), "AS", g("cons-paren", " ", False), "(", ("expr",), ")",
                                  r.choice(["", " STORED", " VIRTUAL"])], r.choice(["1", "'x'", "length('a,b')"]))
    return cons("generated", ["AS", g("cons-paren", " ", False), "(", ("expr",), ")"], r.choice(["1", "'x'"]))


def random_table_constraint(r, nasty, colname):
    g = lambda w="tc-inner", d=" ", req=True: random_gap(r, w, d, nasty * 0.4, required=req)
    k = r.choice(["pk", "unique", "check", "fk", "named"])
    cn = colname
    if k == "pk":
        body = cons("tc-pk", ["PRIMARY", g(), "KEY", g("tc-paren", "", False), "(", cn, ")"])
    elif k == "unique":
        body = cons("tc-unique", [r.choice(["UNIQUE", "unique"]), g("tc-paren", "", False), "(", cn, ")"])
    elif k == "check":
        body = cons("tc-check", [r.choice(["CHECK", "check"]), g("tc-paren", "", False), "(", ("expr",), ")"], random_expr(r, nasty))
    elif k == "fk":
        body = cons("tc-fk", ["FOREIGN", g(), "KEY", g("tc-paren", "", False), "(", cn, ")", g(), "REFERENCES", g(), "other", "(", "x", ")"])
    else:
        body = cons("tc-named", ["CONSTRAINT", g(), "tc1", g(), "UNIQUE", g("tc-paren", "", False), "(", cn, ")"])
    return {"lead": random_gap(r, "before-tc", " ", nasty, required=False), "c": body,
            "trail": random_gap(r, "after-tc", "", nasty * 0.5, required=False)}


# ---------------------------------------------------------------------------------- statements
def random_table(r, nasty=0.0, ncols=None, tname=None):
    """nasty: per-choice probability of a non-default rendering"""
    used = set()
    ncols = ncols or r.choice([1, 1, 2, 2, 3, 4, 6])
    tn = ident(tname) if tname else random_ident(r, nasty * 0.5, {"other"})
    if tn["t"].lower().startswith("sqlite_"):
        tn = ident("t1")
    t = {"name": tn,
         "g_name": random_gap(r, "after-table-name", "", nasty, required=False),
         "g_open": random_gap(r, "after-open-paren", "", nasty * 0.6, required=False),
         "cols": [], "tcs": [], "trailer": None, "if_not_exists": False}
    trailer = r.random()
    want_wr = trailer < 0.12
    want_strict = 0.12 <= trailer < 0.18 or (want_wr and r.random() < 0.2)
    for i in range(ncols):
        nm = random_ident(r, nasty, used)
        ty = random_type(r, nasty)
        if want_strict:
            ty = typetok([r.choice(["INT", "INTEGER", "REAL", "TEXT", "BLOB", "ANY"])])
        c = {"lead": random_gap(r, "before-column", " " if i else "", nasty, required=False), "name": nm,
             "g_type": random_gap(r, "name-type", " ", nasty), "type": ty, "cons": [],
             "trail": random_gap(r, "after-column", "", nasty * 0.5, required=False)}
        ncons = r.choice([0, 0, 0, 1, 1, 2, 3])
        kinds = set()
        for _ in range(ncons):
            cc = random_col_constraint(r, nasty, first=(i == 0), allow_pk=not kinds & {"pk"})
            if cc["k"] in kinds or (cc["k"] == "generated" and (i == 0 or "default" in kinds or "pk" in kinds)) \
                    or (cc["k"] == "default" and "generated" in kinds):
                continue
            kinds.add(cc["k"])
            g0 = random_gap(r, "before-constraint", " ", nasty)
            if not c["cons"] and ty is not None and ty["args"] is not None and r.random() < nasty * 0.5:
                g0 = gap("before-constraint", " ", [""])
            c["cons"].append((g0, cc))
        if want_wr and i == 0 and "pk" not in kinds:
            c["cons"].insert(0, (gap("before-constraint", " "), cons("pk", ["PRIMARY", gap("cons-inner", " "), "KEY"])))
        t["cols"].append(c)
    has_pk = any(cc["k"] == "pk" for c in t["cols"] for _, cc in c["cons"])
    for _ in range(r.choice([0, 0, 0, 1, 1, 2])):
        tc = random_table_constraint(r, nasty, ident_text(t["cols"][0]["name"]))
        if tc["c"]["k"] == "tc-pk" and (has_pk or any(x["c"]["k"] == "tc-pk" for x in t["tcs"])):
            continue
        t["tcs"].append(tc)
    if want_wr or want_strict:
        opts = (["WITHOUT ROWID"] if want_wr else []) + (["STRICT"] if want_strict else [])
        r.shuffle(opts)
        parts = [random_gap(r, "before-trailer", " ", nasty, required=False)]
        for j, o in enumerate(opts):
            if j:
                parts += [gap("trailer-comma", "", [""]), ",", random_gap(r, "trailer-inner", " ", nasty, required=False)]
            if o == "WITHOUT ROWID":
                parts += [r.choice(["WITHOUT", "without"]), random_gap(r, "trailer-inner", " ", nasty), r.choice(["ROWID", "rowid"])]
            else:
                parts += [r.choice(["STRICT", "strict"])]
        t["trailer"] = {"opts": opts, "parts": parts}
    return t


def render(t):
    tags = set()
    s = "CREATE TABLE " + ident_text(t["name"])
    tags |= {("table-" + x) for x in ident_tags(t["name"])}
    s += gap_text(t["g_name"]) + "(" + gap_text(t["g_open"])
    tags |= gap_tags(t["g_name"]) | gap_tags(t["g_open"])
    items = []
    for c in t["cols"]:
        x = gap_text(c["lead"]) + ident_text(c["name"])
        tags |= gap_tags(c["lead"]) | ident_tags(c["name"])
        if c["type"] is not None:
            x += gap_text(c["g_type"]) + type_text(c["type"])
            tags |= gap_tags(c["g_type"]) | type_tags(c["type"])
        else:
            tags.add("type:none")
        prev_args = c["type"] is not None and c["type"]["args"] is not None
        for g, cc in c["cons"]:
            gt = gap_text(g)
            x += gt + cons_text(cc)
            tags |= gap_tags(g) | cons_tags(cc)
            if gt == "" and prev_args:
                tags.add("nogap:after-type-args")
            prev_args = False
        x += gap_text(c["trail"])
        tags |= gap_tags(c["trail"])
        items.append(x)
    for tc in t["tcs"]:
        items.append(gap_text(tc["lead"]) + cons_text(tc["c"]) + gap_text(tc["trail"]))
        tags |= gap_tags(tc["lead"]) | cons_tags(tc["c"]) | gap_tags(tc["trail"])
    s += ",".join(items) + ")"
    if t["trailer"]:
        for p in t["trailer"]["parts"]:
            s += gap_text(p) if isinstance(p, dict) else p
            if isinstance(p, dict):
                tags |= gap_tags(p)
        for o in t["trailer"]["opts"]:
            tags.add("trailer:" + o.split()[0].lower())
    return s, tags


# ---------------------------------------------------------------------------------- minimisation
def _all_gaps(t):
    out = [t["g_name"], t["g_open"]]
    for c in t["cols"]:
        out += [c["lead"], c["g_type"], c["trail"]]
        if c["type"] is not None:
            out += c["type"]["wg"] + [c["type"]["ag"]]
        for g, cc in c["cons"]:
            out.append(g)
            out += [p for p in cc["parts"] if isinstance(p, dict)]
    for tc in t["tcs"]:
        out += [tc["lead"], tc["trail"]] + [p for p in tc["c"]["parts"] if isinstance(p, dict)]
    if t["trailer"]:
        out += [p for p in t["trailer"]["parts"] if isinstance(p, dict)]
    return out


def _steps(t):
    """candidate simplifications: functions tree -> bool (applied in place, False = not applicable)"""
    st = []
    n = len(t["cols"])
    for i in reversed(range(n)):
        def rm(t, i=i):
            if len(t["cols"]) <= 1 or i >= len(t["cols"]):
                return False
            if i == 0 and (t["tcs"] or t["trailer"]):
                return False
            del t["cols"][i]
            if i == 0:
                t["cols"][0]["lead"] = gap("before-column", "")
            return True
        st.append(rm)
    for i in reversed(range(len(t["tcs"]))):
        def rmtc(t, i=i):
            if i >= len(t["tcs"]):
                return False
            del t["tcs"][i]
            return True
        st.append(rmtc)

    def rmtrailer(t):
        if not t["trailer"]:
            return False
        t["trailer"] = None
        return True
    st.append(rmtrailer)
    for i in range(n):
        for j in reversed(range(len(t["cols"][i]["cons"]))):
            def rmc(t, i=i, j=j):
                if i >= len(t["cols"]) or j >= len(t["cols"][i]["cons"]):
                    return False
                if t["cols"][i]["cons"][j][1]["k"] == "pk" and t["trailer"] and "WITHOUT ROWID" in t["trailer"]["opts"]:
                    return False
                del t["cols"][i]["cons"][j]
                return True
            st.append(rmc)
    for k in range(len(_all_gaps(t))):
        def dg(t, k=k):
            gs = _all_gaps(t)
            if k >= len(gs) or gs[k]["p"] == [gs[k]["d"]]:
                return False
            gs[k]["p"] = [gs[k]["d"]]
            return True
        st.append(dg)
        for j in range(5):
            def dgdel(t, k=k, j=j):
                gs = _all_gaps(t)
                if k >= len(gs) or j >= len(gs[k]["p"]) or len(gs[k]["p"]) <= 1:
                    return False
                del gs[k]["p"][j]
                return True
            st.append(dgdel)

            def dgsp(t, k=k, j=j):
                gs = _all_gaps(t)
                if k >= len(gs) or j >= len(gs[k]["p"]) or gs[k]["p"][j] in (" ", ""):
                    return False
                if gs[k]["p"] == [gs[k]["d"]]:
                    return False
                gs[k]["p"][j] = " "
                return True
            st.append(dgsp)

            def dgsimple(t, k=k, j=j):
                gs = _all_gaps(t)
                if k >= len(gs) or j >= len(gs[k]["p"]):
                    return False
                p = gs[k]["p"][j]
                if p.startswith("/*") and p != "/**/":
                    gs[k]["p"][j] = "/**/"
                    return True
                if p.startswith("--") and p != "--\n":
                    gs[k]["p"][j] = "--\n"
                    return True
                return False
            st.append(dgsimple)
    for i in range(n):
        def pn(t, i=i):
            if i >= len(t["cols"]):
                return False
            c = t["cols"][i]
            new = ident(f"c{i}")
            if c["name"] == new:
                return False
            old_txt = ident_text(c["name"])
            c["name"] = new
            if i == 0:
                for tc in t["tcs"]:
                    tc["c"]["parts"] = [ident_text(new) if (isinstance(p, str) and p == old_txt) else p for p in tc["c"]["parts"]]
            return True
        st.append(pn)

        def pstyle(t, i=i):
            if i >= len(t["cols"]):
                return False
            c = t["cols"][i]
            if c["name"]["s"] == "plain" or c["name"]["s"] == "dq":
                return False
            old_txt = ident_text(c["name"])
            c["name"] = ident(c["name"]["t"], "dq")
            if i == 0:
                for tc in t["tcs"]:
                    tc["c"]["parts"] = [ident_text(c["name"]) if (isinstance(p, str) and p == old_txt) else p for p in tc["c"]["parts"]]
            return True
        st.append(pstyle)

        def ty_none(t, i=i):
            if i >= len(t["cols"]) or t["cols"][i]["type"] is None:
                return False
            t["cols"][i]["type"] = None
            if t["cols"][i]["cons"] and gap_text(t["cols"][i]["cons"][0][0]) == "":
                t["cols"][i]["cons"][0] = (gap("before-constraint", " "), t["cols"][i]["cons"][0][1])
            return True
        st.append(ty_none)

        def ty_int(t, i=i):
            if i >= len(t["cols"]) or t["cols"][i]["type"] is None or t["cols"][i]["type"] == typetok(["INT"]):
                return False
            t["cols"][i]["type"] = typetok(["INT"])
            return True
        st.append(ty_int)

        def ty_noargs(t, i=i):
            if i >= len(t["cols"]) or t["cols"][i]["type"] is None or t["cols"][i]["type"]["args"] is None:
                return False
            t["cols"][i]["type"]["args"] = None
            if t["cols"][i]["cons"] and gap_text(t["cols"][i]["cons"][0][0]) == "":
                t["cols"][i]["cons"][0] = (gap("before-constraint", " "), t["cols"][i]["cons"][0][1])
            return True
        st.append(ty_noargs)

        def ty_args10(t, i=i):
            if i >= len(t["cols"]) or t["cols"][i]["type"] is None or t["cols"][i]["type"]["args"] in (None, "10"):
                return False
            t["cols"][i]["type"]["args"] = "10"
            return True
        st.append(ty_args10)

        def ty_upper(t, i=i):
            if i >= len(t["cols"]) or t["cols"][i]["type"] is None:
                return False
            w = t["cols"][i]["type"]["words"]
            if [x.upper() for x in w] == w:
                return False
            t["cols"][i]["type"]["words"] = [x.upper() for x in w]
            return True
        st.append(ty_upper)

    def tn(t):
        if t["name"] == ident("t"):
            return False
        t["name"] = ident("t")
        return True
    st.append(tn)

    def ex(t):
        ch = False
        for c in t["cols"]:
            for _, cc in c["cons"]:
                if cc["expr"] not in (None, "1"):
                    cc["expr"] = "1"
                    ch = True
        for tc in t["tcs"]:
            if tc["c"]["expr"] not in (None, "1"):
                tc["c"]["expr"] = "1"
                ch = True
        return ch
    st.append(ex)
    for i in range(n):
        for j in range(4):
            def ex1(t, i=i, j=j):
                if i >= len(t["cols"]) or j >= len(t["cols"][i]["cons"]):
                    return False
                cc = t["cols"][i]["cons"][j][1]
                if cc["expr"] in (None, "1"):
                    return False
                cc["expr"] = "1"
                return True
            st.append(ex1)

            def kw_upper(t, i=i, j=j):
                if i >= len(t["cols"]) or j >= len(t["cols"][i]["cons"]):
                    return False
                cc = t["cols"][i]["cons"][j][1]
                new = [p.upper() if isinstance(p, str) and p.isalpha() and p != "other" else p for p in cc["parts"]]
                if new == cc["parts"]:
                    return False
                cc["parts"] = new
                return True
            st.append(kw_upper)
    return st


def minimise(t, still_fails, budget=400):
    """greedy reduction; still_fails(tree) -> bool"""
    t = copy.deepcopy(t)
    changed = True
    while changed and budget > 0:
        changed = False
        for step in _steps(t):
            if budget <= 0:
                break
            cand = copy.deepcopy(t)
            if not step(cand):
                continue
            budget -= 1
            if still_fails(cand):
                t = cand
                changed = True
    return t
