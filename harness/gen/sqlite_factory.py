"""Builds databases with the real SQLite library (the oracle) from a configuration vector.

Every random choice derives from the rng handed in.  secure_delete is ON by default in this
build of SQLite, so it is switched off explicitly (carving scenarios need residue)."""
import os
import sqlite3
import struct

PAGE_SIZES = [512, 1024, 2048, 4096, 8192, 16384, 32768, 65536]
ENCODINGS = ["UTF-8", "UTF-16le", "UTF-16be"]


def usable_thresholds(ps):
    """payload sizes around every local/overflow threshold for page size ps"""
    u = ps
    x_leaf = u - 35
    m = ((u - 12) * 32 // 255) - 23
    x_idx = ((u - 12) * 64 // 255) - 23
    out = set()
    for base in (x_leaf, m, x_idx, x_leaf + (u - 4), x_idx + (u - 4), m + (u - 4), 2 * (u - 4) + m):
        for d in (-2, -1, 0, 1, 2, 3):
            if base + d > 0:
                out.add(base + d)
    return sorted(out)


BOUNDARY_INTS = [0, 1, -1, 2, 127, 128, -128, -129, 255, 256, 32767, 32768, -32768, -32769, 8388607, 8388608,
                 -8388608, -8388609, 2147483647, 2147483648, -2147483648, -2147483649, 140737488355327,
                 140737488355328, -140737488355328, -140737488355329, 2 ** 56, 2 ** 56 + 1, 2 ** 63 - 1, -(2 ** 63)]
TEXTS = ["", "a", "hello world", "naïve café", "日本語テキスト", "emoji 😀 non-BMP 𝔘𝔫𝔦", "=SUM(A1)", 'quo"te', "com,ma",
         "line\nbreak", "tab\there", "x" * 50]
REALS = [0.0, -0.0, 1.0, -1.5, 3.141592653589793, 1e300, -1e-300, 2.0 ** 53, 123456789.0, float(2 ** 62)]


def rand_value(r, ps, kind=None, big=True):
    kind = kind or r.choice(["int", "int", "text", "text", "blob", "real", "null", "bigtext", "bigblob"])
    if kind == "int":
        return r.choice(BOUNDARY_INTS) if r.random() < 0.5 else r.randint(-(2 ** r.randint(1, 63)), 2 ** r.randint(1, 63) - 1)
    if kind == "real":
        return r.choice(REALS) if r.random() < 0.6 else r.uniform(-1e6, 1e6)
    if kind == "null":
        return None
    if kind == "text":
        return r.choice(TEXTS) if r.random() < 0.6 else "".join(r.choice("abcdefghijklmnop éü") for _ in range(r.randint(0, 40)))
    if kind == "blob":
        return bytes(r.randint(0, 255) for _ in range(r.choice([0, 1, 2, 7, 30])))
    if not big:
        return r.choice(TEXTS)
    n = r.choice(usable_thresholds(ps)) if r.random() < 0.7 else r.randint(ps // 2, 3 * ps)
    n = max(0, n - r.randint(0, 12))
    if kind == "bigtext":
        return "".join(r.choice("abcdefghij") for _ in range(n))
    return bytes(r.randint(0, 255) for _ in range(n))


class Built:
    def __init__(self, path, cfg, tables, indexes, without_rowid):
        self.path = path
        self.cfg = cfg
        self.tables = tables              # rowid tables: name -> column names
        self.indexes = indexes            # index name -> (table, [cols])
        self.without_rowid = without_rowid


def connect(path, cfg):
    con = sqlite3.connect(path, isolation_level=None)
    con.execute(f"PRAGMA page_size={cfg['page_size']}")
    con.execute(f"PRAGMA encoding='{cfg['encoding']}'")
    con.execute(f"PRAGMA auto_vacuum={cfg['auto_vacuum']}")
    con.execute("PRAGMA secure_delete=OFF")
    con.execute(f"PRAGMA journal_mode={cfg.get('journal_mode', 'DELETE')}")
    if cfg.get("cache_size"):
        con.execute(f"PRAGMA cache_size={cfg['cache_size']}")
    return con


def random_cfg(r, page_sizes=None, small=False):
    return {
        "page_size": r.choice(page_sizes or PAGE_SIZES),
        "encoding": r.choice(ENCODINGS),
        "auto_vacuum": r.choice([0, 0, 1, 2]),
        "journal_mode": "DELETE",
        "n_tables": r.randint(1, 3),
        "rows": r.choice([0, 3, 20, 60] if small else [0, 5, 40, 150, 400]),
        "churn": r.choice([0, 1, 2, 3]),
        "with_index": r.random() < 0.6,
        "with_without_rowid": r.random() < 0.3,
        "with_view_trigger": r.random() < 0.3,
        "big_values": r.random() < 0.6,
        "wide_table": r.choice([0, 0, 0, 150, 300, 700]),
        "index_boundary": r.random() < 0.25,
        "table_boundary": r.random() < 0.5,
        "fragmenter": r.choice([None, None, (r.randint(17, 23), 3), (20, 3), (r.randint(25, 60), r.choice([1, 2, 3]))]),
    }


def col_decl(r, i):
    t = r.choice(["INTEGER", "TEXT", "BLOB", "REAL", "NUMERIC", "", "VARCHAR(20)", "INT", "DOUBLE", "DATETIME"])
    return f"c{i} {t}".strip()


def build(path, cfg, r):
    """Create a database per cfg; returns Built.  The connection is closed (DELETE journal mode)."""
    for suffix in ("", "-wal", "-shm", "-journal"):
        if os.path.exists(path + suffix):
            os.unlink(path + suffix)
    con = connect(path, cfg)
    ps = cfg["page_size"]
    tables, indexes, wr = {}, {}, {}
    for t in range(cfg["n_tables"]):
        ncols = r.randint(1, 6)
        alias = r.random() < 0.4
        cols = [col_decl(r, i) for i in range(ncols)]
        names = [c.split()[0] for c in cols]
        if alias:
            cols[0] = "c0 INTEGER PRIMARY KEY"
        name = f"t{t}"
        con.execute(f"CREATE TABLE {name} ({', '.join(cols)})")
        tables[name] = (names, alias)
        if cfg["with_index"] and r.random() < 0.7:
            icols = r.sample(names, r.randint(1, min(2, len(names))))
            iname = f"i{t}"
            uniq = "UNIQUE " if (r.random() < 0.2 and alias and icols == ["c0"]) else ""
            where = f" WHERE {icols[0]} IS NOT NULL" if r.random() < 0.2 else ""
            con.execute(f"CREATE {uniq}INDEX {iname} ON {name} ({', '.join(icols)}){where}")
            indexes[iname] = (name, icols)
    if cfg.get("wide_table"):
        # a table so wide that the record header itself is longer than the local part of an overflowing record
        nw = cfg["wide_table"]
        wnames = [f"w{i}" for i in range(nw)]
        con.execute(f"CREATE TABLE wide ({', '.join(wnames)})")
        tables["wide"] = (wnames, False)
        con.execute("BEGIN")
        for k in range(r.randint(2, 5)):
            vals = [r.choice([None, k, -k, 1.5, "x" * r.randint(0, 3), b"", r.randint(-2 ** 40, 2 ** 40), "t"]) for _ in wnames]
            if k % 2:
                vals[-1] = "y" * (cfg["page_size"] + 50)
            con.execute(f"INSERT INTO wide VALUES ({','.join('?' * nw)})", vals)
        con.execute("COMMIT")
    if cfg.get("fragmenter"):
        # shrink distinct rows of one leaf by 1-3 bytes each: every update leaves a fragment; 20 x 3 bytes reach
        # the limit of 60 fragmented bytes exactly
        nupd, step = cfg["fragmenter"]
        con.execute("CREATE TABLE frag (a INTEGER PRIMARY KEY, b BLOB)")      # blobs: byte counts independent of the encoding
        tables["frag"] = (["a", "b"], True)
        con.execute("BEGIN")
        width = 40
        per_leaf = max(4, min(60, (cfg["page_size"] - 100) // (width + 6)))
        for i in range(1, per_leaf + 1):
            con.execute("INSERT INTO frag VALUES (?, ?)", (i, b"f" * width))
        con.execute("COMMIT")
        for i in range(1, min(nupd, per_leaf) + 1):
            con.execute("UPDATE frag SET b = substr(b, 1, ?) WHERE a = ?", (width - step, i))
    if cfg.get("table_boundary"):
        # rowid-table rows whose payload sizes sweep a window around (u-35) + k(u-4): the largest payload kept whole on
        # the page and the sizes at which the local part is exactly u-35 again (record = 3-4 header bytes + the blob)
        u = cfg["page_size"]
        con.execute("CREATE TABLE tb (id INTEGER PRIMARY KEY, b BLOB)")
        tables["tb"] = (["id", "b"], True)
        con.execute("BEGIN")
        for k in ((0, 1, 2) if u <= 8192 else (0, 1)):
            for d in range(-10, 5):
                n = (u - 35) + k * (u - 4) + d
                if n > 0:
                    con.execute("INSERT INTO tb (b) VALUES (?)", (bytes((d + 11 + j) & 0xFF for j in range(n)),))
        con.execute("COMMIT")
    if cfg.get("index_boundary"):
        # index keys whose payload sizes sweep a window around x + k(u-4) (the index overflow thresholds), enough
        # of them for the index to grow interior pages that carry such keys as well
        u = cfg["page_size"]
        x = ((u - 12) * 64 // 255) - 23
        con.execute("CREATE TABLE ib (k TEXT)")
        con.execute("CREATE INDEX ibi ON ib (k)")
        tables["ib"] = (["k"], False)
        indexes["ibi"] = ("ib", ["k"])
        con.execute("BEGIN")
        per = 2 if cfg["encoding"] == "UTF-8" else 1
        for k in (0, 1, 2):
            for d in range(-9, 6):
                n = x + k * (u - 4) + d - 4
                if n <= 0:
                    continue
                if per == 1 and n % 2:
                    continue
                chars = n if per == 2 else n // 2
                for rep in range(per):
                    con.execute("INSERT INTO ib VALUES (?)", (chr(97 + (d + 9 + rep) % 26) * chars,))
        con.execute("COMMIT")
    if cfg["with_without_rowid"]:
        con.execute("CREATE TABLE w0 (k TEXT, k2 INTEGER, v BLOB, PRIMARY KEY (k, k2)) WITHOUT ROWID")
        wr["w0"] = ["k", "k2", "v"]
        # one-column keys: the cells of 0, 1 and '' are three bytes long (SQLite allocates four bytes for them)
        con.execute("CREATE TABLE w1 (a PRIMARY KEY) WITHOUT ROWID")
        wr["w1"] = ["a"]
    if cfg["with_view_trigger"]:
        con.execute("CREATE VIEW v0 AS SELECT * FROM t0")
        con.execute("CREATE TABLE log0 (x)")
        tables["log0"] = (["x"], False)
        con.execute("CREATE TRIGGER tr0 AFTER DELETE ON t0 BEGIN INSERT INTO log0 VALUES (1); END")
        # triggers have a name space of their own: one named like the table it is on
        con.execute("CREATE TRIGGER t0 AFTER INSERT ON log0 BEGIN SELECT 1; END")

    # a table that never gets a row: its root page is an empty leaf (content offset = page size; 0 on 64 KiB pages)
    con.execute("CREATE TABLE zempty (a, b)")
    tables["zempty"] = (["a", "b"], False)

    # a four-byte cell (a single NULL: 02 01 02 00) inserted first, so that it sits in the last four bytes of the page; it is
    # deleted at the very end while its neighbours stay: a minimal freeblock that ends exactly at the page end
    con.execute("CREATE TABLE fbend (a)")
    tables["fbend"] = (["a"], False)
    for v in (None, 1000, "xy", 2.5, None):
        con.execute("INSERT INTO fbend VALUES (?)", (v,))

    def insert_rows(n):
        con.execute("BEGIN")
        for name, (names, alias) in tables.items():
            if name in ("log0", "zempty", "tb", "fbend"):
                continue
            for _ in range(n):
                vals = [rand_value(r, ps, big=cfg["big_values"] and name != "wide") for _ in names]
                if alias:
                    vals[0] = None if r.random() < 0.7 else r.choice(
                        [r.randint(-(2 ** 62), 2 ** 62), r.randint(1, 10 ** 6), -r.randint(1, 10 ** 6), 2 ** 56 + r.randint(0, 99)])
                try:
                    con.execute(f"INSERT INTO {name} VALUES ({','.join('?' * len(names))})", vals)
                except sqlite3.IntegrityError:
                    pass
        if "w1" in wr:
            for v in [0, 1, "", b"", 7, "x"] + [r.randint(-300, 300) for _ in range(min(n, 40))]:
                try:
                    con.execute("INSERT INTO w1 VALUES (?)", (v,))
                except sqlite3.IntegrityError:
                    pass
        for name in ["w0"] if "w0" in wr else []:
            for _ in range(n):
                k = rand_value(r, ps, r.choice(["text", "text", "bigtext"]), big=cfg["big_values"])
                try:
                    con.execute("INSERT INTO w0 VALUES (?,?,?)", (k, r.randint(-1000, 1000), rand_value(r, ps, "blob")))
                except sqlite3.IntegrityError:
                    pass
        con.execute("COMMIT")

    insert_rows(cfg["rows"])
    for _ in range(cfg["churn"]):
        con.execute("BEGIN")
        for name, (names, alias) in tables.items():
            if name in ("log0", "fbend"):
                continue
            ids = [x[0] for x in con.execute(f"SELECT rowid FROM {name}")]
            r.shuffle(ids)
            k = len(ids) // r.choice([2, 3, 5]) if ids else 0
            for rid in ids[:k]:
                con.execute(f"DELETE FROM {name} WHERE rowid=?", (rid,))
            for rid in ids[k: k + k // 2]:
                c = r.choice(names[1:] or names) if alias else r.choice(names)
                if alias and c == "c0":
                    continue
                con.execute(f"UPDATE {name} SET {c}=? WHERE rowid=?",
                            (rand_value(r, ps, big=cfg["big_values"] and name != "wide"), rid))
        if "w1" in wr:
            con.execute("DELETE FROM w1 WHERE a IN (1, 7, ?)", (r.randint(-300, 300),))
        con.execute("COMMIT")
        insert_rows(max(1, cfg["rows"] // 4))
    if r.random() < 0.15 and tables:
        # drop a table to create freelist pages / ptrmap churn
        victim = r.choice([t for t in tables if t != "t0"] or ["t0"])
        if not (victim == "t0" and cfg["with_view_trigger"]):
            con.execute(f"DROP TABLE {victim}")
            tables.pop(victim)
            for iname in [i for i, (t, _) in indexes.items() if t == victim]:
                indexes.pop(iname)
    if "fbend" in tables:
        con.execute("DELETE FROM fbend WHERE rowid = 1")
    con.close()
    return Built(path, cfg, tables, indexes, wr)


def oracle_rows(path, table, names):
    """rows as SQLite reports them: (rowid, [(typeof, hex, value)]); wide tables are read in column chunks"""
    con = sqlite3.connect(f"file:{path}?mode=ro", uri=True)
    try:
        rows = {}
        order = []
        for lo in range(0, max(1, len(names)), 400):
            chunk = names[lo:lo + 400]
            cols = ", ".join(f'typeof("{c}"), hex("{c}"), "{c}"' for c in chunk)
            q = f"SELECT rowid{', ' + cols if cols else ''} FROM {table} ORDER BY rowid"
            for row in con.execute(q):
                rid = row[0]
                if rid not in rows:
                    rows[rid] = []
                    order.append(rid)
                for i in range(len(chunk)):
                    rows[rid].append((row[1 + 3 * i], row[2 + 3 * i], row[3 + 3 * i]))
        return [(rid, rows[rid]) for rid in order]
    finally:
        con.close()


def page_count(path):
    con = sqlite3.connect(f"file:{path}?mode=ro", uri=True)
    try:
        return con.execute("PRAGMA page_count").fetchone()[0], con.execute("PRAGMA freelist_count").fetchone()[0]
    finally:
        con.close()
