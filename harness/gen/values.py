"""Independent byte-level writers used by generators (never the implementation's own encoders)."""


def put_varint(u: int) -> bytes:
    """SQLite's canonical varint of an unsigned 64-bit value (transcribes Spec.putVarint)."""
    assert 0 <= u < (1 << 64)
    if u < (1 << 56):
        out = [u & 0x7F]
        u >>= 7
        while u:
            out.append((u & 0x7F) | 0x80)
            u >>= 7
        return bytes(reversed(out))
    out = [u & 0xFF]
    u >>= 8
    for _ in range(8):
        out.append((u & 0x7F) | 0x80)
        u >>= 7
    return bytes(reversed(out))


def put_varint_signed(i: int) -> bytes:
    return put_varint(i % (1 << 64))
