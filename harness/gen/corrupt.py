"""Targeted corruption of well-formed databases / WALs (C18 and error branches elsewhere).

The link, count and size fields are located by parsing the *clean* file with the real library
(offsets of page headers, cell pointers, child pointers, overflow pointers, freeblock links,
freelist trunks, …); each is then overwritten with adversarial values."""
import struct

from sqlite_dissect.file.database.database import Database
from sqlite_dissect.file.database.page import BTreePage, OverflowPage
from sqlite_dissect.file.database.utilities import get_pages_from_b_tree_page


def targets_of_database(path):
    """list of dict(off, width, kind, page, parent, self_page) for every link / count / size field"""
    db = Database(path)
    ps = db.page_size
    n = int(db.database_size_in_pages)
    out = []
    combos = []

    def add(off, width, kind, page=None, parent=None):
        out.append({"off": off, "width": width, "kind": kind, "page": page, "parent": parent})

    for off, w, k in ((16, 2, "hdr.page_size"), (28, 4, "hdr.size"), (32, 4, "hdr.freelist_trunk"), (36, 4, "hdr.freelist_count"),
                      (52, 4, "hdr.largest_root"), (44, 4, "hdr.schema_format"), (56, 4, "hdr.encoding"), (24, 4, "hdr.change_counter"),
                      (92, 4, "hdr.version_valid_for")):
        add(off, w, k, 1)
    t = db.first_freelist_trunk_page
    prev = None
    while t:
        base = t.offset
        add(base, 4, "trunk.next", t.number, prev)
        add(base + 4, 4, "trunk.count", t.number, prev)
        for i in range(min(len(t.freelist_leaf_page_numbers), 4)):
            add(base + 8 + 4 * i, 4, "trunk.leaf", t.number, prev)
        prev = t.number
        t = t.next_freelist_trunk_page
    roots = [1] + list(db.master_schema.master_schema_b_tree_root_page_numbers)
    seen = set()
    for r in roots:
        try:
            root = db.get_b_tree_root_page(r)
        except Exception:  # noqa
            continue
        parent_of = {}
        for p in get_pages_from_b_tree_page(root):
            if p.number in seen:
                continue
            seen.add(p.number)
            if isinstance(p, OverflowPage):
                add(p.offset, 4, "overflow.next", p.number, p.parent_cell_page_number)
                continue
            if not isinstance(p, BTreePage):
                continue
            h = p.offset + p.header.offset
            add(h, 1, "page.type", p.number)
            add(h + 1, 2, "page.first_freeblock", p.number)
            add(h + 3, 2, "page.ncells", p.number)
            add(h + 5, 2, "page.content_offset", p.number)
            add(h + 7, 1, "page.fragments", p.number)
            if hasattr(p.header, "right_most_pointer"):
                add(h + 8, 4, "page.right_most", p.number, parent_of.get(p.number))
                parent_of[p.header.right_most_pointer] = p.number
                # every child pointer of this interior page (file offset of the field, child it names): for the
                # shared-child corruptions (a b-tree turned into a DAG)
                ptrs = [(p.offset + c.start_offset, c.left_child_pointer) for c in p.cells] + [(h + 8, p.header.right_most_pointer)]
                combos.append({"kind": "dag", "page": p.number, "page_off": p.offset, "ptrs": ptrs, "is_root": p.number == r,
                               "children_interior": [n_ for (_, n_) in ptrs
                                                     if bytes(db.get_page_data(n_, 0, 1)) in (b"\x05", b"\x02")]})
            ptr = h + p.header.header_length
            for i, c in enumerate(p.cells[:6] + p.cells[-2:]):
                add(ptr + 2 * c.index, 2, "cell.pointer", p.number)
                co = p.offset + c.start_offset
                if hasattr(c, "left_child_pointer"):
                    add(co, 4, "cell.left_child", p.number, parent_of.get(p.number))
                    parent_of[c.left_child_pointer] = p.number
                    if hasattr(c, "payload_byte_size"):
                        add(co + 4, 1, "cell.payload_varint", p.number)
                else:
                    add(co, 1, "cell.payload_varint", p.number)
                    if hasattr(c, "row_id"):
                        add(co + c.payload_byte_size_varint_length, 1, "cell.rowid_varint", p.number)
                if getattr(c, "has_overflow", False):
                    add(p.offset + int(c.overflow_page_number_offset), 4, "cell.overflow_ptr", p.number)
                    # the payload size varint of an overflowing cell: make it huge
                    add(co + (4 if hasattr(c, "left_child_pointer") else 0), 9, "cell.payload_varint_huge", p.number)
                    chain = []
                    op = c.overflow_pages[c.overflow_page_number]
                    chain.append(op)
                    while op.next_overflow_page_number:
                        op = c.overflow_pages[op.next_overflow_page_number]
                        chain.append(op)
                    combos.append({"kind": "overflow-cycle+huge-size", "cell_kind": type(c).__name__, "page": p.number,
                                   "size_off": co + (4 if hasattr(c, "left_child_pointer") else 0),
                                   "size_len": int(c.payload_byte_size_varint_length), "payload": int(c.payload_byte_size),
                                   "table_leaf": hasattr(c, "row_id"), "usable": ps - int(db.database_header.reserved_bytes_per_page),
                                   "links": [(o.offset, o.number) for o in chain]})
                if getattr(c, "payload", None) is not None:
                    add(p.offset + int(c.payload_offset), 1, "record.header_size", p.number)
            for f in p.freeblocks[:4]:
                add(p.offset + f.start_offset, 2, "freeblock.next", p.number)
                add(p.offset + f.start_offset + 2, 2, "freeblock.size", p.number)
            if len(p.freeblocks) >= 2:
                combos.append({"kind": "freeblock-cycle", "page": p.number,
                               "blocks": [(p.offset + f.start_offset, f.start_offset) for f in p.freeblocks]})
    return out, ps, n, combos


def values_for(t, ps, n, r):
    """adversarial values for a target"""
    w = t["width"]
    mx = (1 << (8 * w)) - 1
    k = t["kind"]
    page = t.get("page") or 1
    vals = {0, 1, mx, mx - 1}
    if w == 4:
        vals.update({page, t.get("parent") or 1, 2, n, n + 1, n - 1 if n > 1 else 1, r.randint(1, max(1, n))})
    if w == 2:
        vals.update({ps & 0xFFFF, (ps - 1) & 0xFFFF, ps // 2, 8, 12, 100, r.randint(0, mx)})
    if w == 1:
        vals.update({0x02, 0x05, 0x0A, 0x0D, 0x53, 0x80, 0xFF, 0x7F, 60, 61, r.randint(0, 255)})
    if k == "freeblock.next" and w == 2:
        vals.add(None)      # self loop: filled in by the caller (offset within page)
    if k == "cell.payload_varint_huge":
        return [b"\xff\xff\xff\xff\xff\x7f", b"\x81\x80\x80\x80\x80\x00" + b"", b"\xbf\xff\xff\xff\xff\xff\xff\xff\x7f"[:9]]
    return sorted(v for v in vals if v is not None and 0 <= v <= mx) + ([None] if None in vals else [])


def varint9(v):
    out = bytearray(9)
    out[8] = v & 0xFF
    v >>= 8
    for i in range(7, -1, -1):
        out[i] = (v & 0x7F) | 0x80
        v >>= 7
    return bytes(out)


def consistent_huge_size(cb):
    """A 9-byte payload-size varint (~2**61) for an overflowing cell, chosen so that the number of local payload bytes
    shrinks by exactly the bytes the longer varint takes: the cell keeps its length and its first-overflow-page
    pointer stays where it is (so the damaged size and a damaged chain cooperate).  Falls back to a plain huge value
    where no such size exists."""
    u = cb["usable"]
    x = u - 35 if cb["table_leaf"] else ((u - 12) * 64 // 255) - 23
    m = ((u - 12) * 32 // 255) - 23
    p = cb["payload"]
    k = m + (p - m) % (u - 4)
    local = k if k <= x else m
    target = local - (9 - cb["size_len"])
    if not (m <= target <= x):
        return b"\xbf\xff\xff\xff\xff\xff\xff\xff\x7f"
    base = 1 << 61
    v = base + ((target - m) - (base - m)) % (u - 4)
    assert m + (v - m) % (u - 4) == target
    return varint9(v)


def apply(data: bytearray, off, width, value):
    if isinstance(value, (bytes, bytearray)):
        data[off:off + len(value)] = value
    else:
        data[off:off + width] = int(value).to_bytes(width, "big")


def corruptions(path, r, limit):
    """yield (description, bytes) of corrupted copies of the database at path"""
    clean = open(path, "rb").read()
    targets, ps, n, combos = targets_of_database(path)
    cases = []
    for t in targets:
        for v in values_for(t, ps, n, r):
            if v is None:
                v = t["off"] % ps        # freeblock pointing at itself
            cases.append((t, v))
    r.shuffle(cases)
    # make sure every kind is represented before the random remainder
    by_kind = {}
    for c in cases:
        by_kind.setdefault(c[0]["kind"], []).append(c)
    ordered = []
    while len(ordered) < min(limit, len(cases)):
        progressed = False
        for kind in sorted(by_kind):
            if by_kind[kind]:
                ordered.append(by_kind[kind].pop())
                progressed = True
        if not progressed:
            break
    # targeted cycles: every freeblock after the first looping to itself / back to an earlier one; every overflow
    # chain looping back, alone and together with an astronomically large payload size
    seen_kinds = {}
    for cb in combos:
        key = (cb["kind"], cb.get("cell_kind"))
        seen_kinds[key] = seen_kinds.get(key, 0) + 1
        if seen_kinds[key] > 3:
            continue
        if cb["kind"] == "dag":
            ptrs = cb["ptrs"]
            if len(ptrs) < 2:
                continue
            # (a) every child pointer names the first child; (b) two neighbouring pointers name the same child;
            # (c) the last cell's child is named by the right-most pointer too
            for name, edits in (("all-to-first", [(o, ptrs[0][1]) for (o, _) in ptrs[1:]]),
                                ("second-to-first", [(ptrs[1][0], ptrs[0][1])]),
                                ("rightmost-to-last-cell", [(ptrs[-1][0], ptrs[-2][1])])):
                d = bytearray(clean)
                for (o, v) in edits:
                    apply(d, o, 4, v)
                yield {"kind": "dag-shared-child", "variant": name, "page": cb["page"]}, bytes(d)
            # (d) a chain of copies of this page appended to the file, every child pointer of one copy naming the next
            # copy: without a guard the walk takes fanout**depth steps and is then *accepted*
            if cb["page"] != 1 and seen_kinds[key] <= 2:
                depth = 14
                d = bytearray(clean)
                orig = bytes(d[cb["page_off"]:cb["page_off"] + ps])
                rel = [o - cb["page_off"] for (o, _) in ptrs]

                def retarget(target):
                    pg = bytearray(orig)
                    for o in rel:
                        pg[o:o + 4] = int(target).to_bytes(4, "big")
                    return pg
                d[cb["page_off"]:cb["page_off"] + ps] = retarget(n + 1)
                for i in range(1, depth + 1):
                    d += retarget(n + i + 1) if i < depth else orig
                apply(d, 28, 4, n + depth)
                yield {"kind": "dag-chain", "page": cb["page"], "fanout": len(ptrs), "depth": depth}, bytes(d)
            continue
        if cb["kind"] == "freeblock-cycle":
            blocks = cb["blocks"]
            variants = [(1, 1), (len(blocks) - 1, 1), (len(blocks) - 1, len(blocks) - 1), (1, 0)]
            for (src, dst) in variants:
                if src < len(blocks) and dst < len(blocks):
                    d = bytearray(clean)
                    apply(d, blocks[src][0], 2, blocks[dst][1])
                    yield {"kind": "freeblock-cycle", "page": cb["page"], "from": src, "to": dst}, bytes(d)
        else:
            links = cb["links"]
            for huge in (False, True):
                for (src, dst) in ((len(links) - 1, 0), (0, 0), (len(links) - 1, len(links) - 1)):
                    d = bytearray(clean)
                    apply(d, links[src][0], 4, links[dst][1])
                    if huge:
                        apply(d, cb["size_off"], 9, consistent_huge_size(cb))
                    yield {"kind": cb["kind"] if huge else "overflow-cycle", "cell": cb["cell_kind"], "page": cb["page"],
                           "from": src, "to": dst}, bytes(d)
    for t, v in ordered[:limit]:
        d = bytearray(clean)
        apply(d, t["off"], t["width"], v)
        vs = v.hex() if isinstance(v, (bytes, bytearray)) else v
        yield {"kind": t["kind"], "off": t["off"], "width": t["width"], "value": vs, "page": t.get("page")}, bytes(d)
    # two-field combinations (cycles need a pointer and a count / two pointers)
    for _ in range(limit // 6):
        d = bytearray(clean)
        desc = []
        for t, v in r.sample(cases, 2):
            apply(d, t["off"], t["width"], v)
            desc.append({"kind": t["kind"], "off": t["off"], "width": t["width"],
                         "value": v.hex() if isinstance(v, (bytes, bytearray)) else v})
        yield {"kind": "pair", "parts": desc}, bytes(d)
    # truncations and random flips
    for _ in range(limit // 10):
        cut = r.choice([r.randint(0, len(clean)), len(clean) - r.randint(1, ps), (len(clean) // ps // 2) * ps + r.randint(0, 3)])
        cut = max(0, min(len(clean), cut))
        yield {"kind": "truncate", "at": cut}, clean[:cut]
    for _ in range(limit // 10):
        d = bytearray(clean)
        flips = []
        for _ in range(r.randint(1, 4)):
            o = r.randrange(len(d))
            d[o] ^= 1 << r.randrange(8)
            flips.append(o)
        yield {"kind": "flip", "offsets": flips}, bytes(d)
