"""Run context shared by every property check: counters, comparisons, verdict, evidence."""
import hashlib
import json
import os
import random
import sys
import time
import traceback
from collections import Counter

from .leanio import build, driver

ROOT = os.path.dirname(os.path.dirname(os.path.abspath(__file__)))
REPO = os.environ.get("VERIF_REPO", "/repo")
FINDINGS_FILE = os.path.join(ROOT, "known_findings.json")

TRUSTED_BASE = [
    "Lean 4.33.0 kernel; axioms per theorem as printed by #print axioms, required to be a subset of {propext, Classical.choice, Quot.sound}",
    "Spec.* (lean/SqliteDissect/Spec): hand transcription of the SQLite file format / btree.c / wal.c rules, validated against SQLite 3.40.1 on every run, not proved about SQLite",
    "hand-written executable model (lean/SqliteDissect/Model) tied to /repo by the differential correspondence run of this check (Python harness, canonicalisers, Lean native code generator for sdmodel)",
    "translator harness/translate/constants.py (constants.py -> Generated/Constants.lean)",
    "modelled, not verified: md5 (identity), Python re / struct doubles / text codecs / csv / openpyxl / sqlite3 / configargparse / OS file API / recursion limit / wall clock",
]


def h(x) -> str:
    return hashlib.sha1(repr(x).encode()).hexdigest()[:16]


class Ctx:
    def __init__(self, prop_id, tier, seed):
        self.prop_id = prop_id
        self.tier = tier
        self.seed = seed
        self.rng = random.Random(seed)
        self.t0 = time.time()
        self.evals = 0
        self.nontrivial = set()
        self.samples = []
        self.branches = Counter()
        self.disagreements = []
        self.oracle_failures = []
        self.spec_failures = []
        self.notes = []
        self.exhaustive = False
        self.rule = ""
        self.extra = {}
        self.deadline = None

    # ---- bookkeeping -------------------------------------------------------------------
    def thorough(self):
        return self.tier in ("thorough", "search")

    def sample(self, s, cap=12):
        if len(self.samples) < cap:
            self.samples.append(s)

    def mark(self, key, nontrivial=True):
        self.evals += 1
        if nontrivial:
            self.nontrivial.add(h(key) if not isinstance(key, str) or len(key) > 40 else key)

    def branch(self, name, n=1):
        self.branches[name] += n

    def time_left(self):
        return None if self.deadline is None else self.deadline - time.time()

    # ---- comparisons -------------------------------------------------------------------
    def differential(self, cases, label, nontrivial=lambda line, out: not out.startswith("err")):
        """cases: list of (op_line, impl_output).  Model answers come from sdmodel."""
        if not cases:
            return []
        answers = driver.ask([c[0] for c in cases])
        for (line, impl), model in zip(cases, answers):
            self.evals += 1
            if nontrivial(line, impl):
                self.nontrivial.add(h(line))
            kind = impl.split(" ", 2)[0] if impl.startswith("ok") else impl
            self.branches[f"{label}:{kind[:40]}"] += 1
            if impl != model:
                self.disagreements.append(
                    {"label": label, "op": line[:2000], "impl": impl[:2000], "model": model[:2000]}
                )
        if cases:
            self.sample({"op": cases[0][0][:300], "impl": cases[0][1][:300], "model": answers[0][:300]})
            mid = len(cases) // 2
            self.sample({"op": cases[mid][0][:300], "impl": cases[mid][1][:300], "model": answers[mid][:300]})
        return answers

    def oracle_fail(self, kind, what, case, impl=None, oracle=None):
        self.oracle_failures.append(
            {"kind": kind, "what": what, "case": case, "impl": impl, "oracle": oracle}
        )

    def spec_fail(self, what, case, spec=None, sqlite=None):
        self.spec_failures.append({"what": what, "case": case, "spec": spec, "sqlite": sqlite})


def load_findings():
    if not os.path.exists(FINDINGS_FILE):
        return []
    return json.load(open(FINDINGS_FILE))


def write_replay(prop_id, payload):
    d = os.path.join(ROOT, "replays")
    os.makedirs(d, exist_ok=True)
    name = f"{prop_id}-{h(json.dumps(payload, sort_keys=True, default=str))}.json"
    p = os.path.join(d, name)
    with open(p, "w") as fh:
        json.dump(payload, fh, indent=1, sort_keys=True, default=str)
    return os.path.relpath(p, ROOT)


def write_evidence(ctx, proof, violations, prop):
    cov = {
        "obligations": max(1, proof.get("obligations", 0)),
        "discharged": proof.get("discharged", 0),
        "checker_cmd": "cd lean && lake build "
        + " ".join(prop.LEAN_MODULES)
        + " sdmodel && lake env lean <#print axioms of every theorem in those modules>; grep sorry|admit|axiom|native_decide|bv_decide|implemented_by|unsafe|maxHeartbeats 0",
        "trusted_base": TRUSTED_BASE + list(getattr(prop, "TRUSTED_EXTRA", [])),
        "theorems": proof.get("theorems", []),
        "axioms": proof.get("axioms", {}),
        "proof_stage_ok": proof.get("ok", False),
        "broken_obligations": proof.get("broken", []),
        "leanchecker": proof.get("leanchecker", "thorough tier only"),
        "evaluations": ctx.evals,
        "distinct_nontrivial": len(ctx.nontrivial),
        "rule": ctx.rule or getattr(prop, "RULE", ""),
        "samples": ctx.samples or [{"note": "no correspondence case was run"}],
        "exhaustive": bool(ctx.exhaustive),
        "branches": dict(sorted(ctx.branches.items())),
        "correspondence_disagreements": len(ctx.disagreements),
        "oracle_failures": len(ctx.oracle_failures),
        "spec_validation_failures": len(ctx.spec_failures),
        "notes": ctx.notes,
    }
    cov.update(ctx.extra)
    ev = {
        "property_id": ctx.prop_id,
        "tier": "thorough" if ctx.tier == "thorough" else "quick",
        "seed": int(ctx.seed),
        "level": "proof",
        "coverage": cov,
        "assumptions": list(getattr(prop, "ASSUMPTIONS", [])),
        "wall_s": round(time.time() - ctx.t0, 2),
        "violations": violations,
    }
    d = os.path.join(ROOT, "evidence")
    os.makedirs(d, exist_ok=True)
    with open(os.path.join(d, f"{ctx.prop_id}.json"), "w") as fh:
        json.dump(ev, fh, indent=1, sort_keys=True, default=str)


def verdict(ctx, proof, prop):
    """Prints VIOLATION / KNOWN-FINDING lines, writes evidence, returns exit code."""
    findings = [f for f in load_findings() if f.get("property") == ctx.prop_id]
    open_findings = [f for f in findings if f.get("status") == "open"]
    matchers = getattr(prop, "MATCHERS", {})
    known_hit = {}
    unlisted = []
    for f in ctx.oracle_failures:
        hit = None
        for kf in open_findings:
            m = matchers.get(kf.get("matcher"))
            try:
                if m and m(f):
                    hit = kf
                    break
            except Exception:
                pass
        if hit:
            known_hit.setdefault(hit["id"], (hit, f))
        else:
            unlisted.append(f)

    violations = 0
    lines = []
    if unlisted:
        # group by 'what' so one line per distinct failure kind (first case as replay)
        seen = {}
        for f in unlisted:
            seen.setdefault(f["what"], f)
        for what, f in list(seen.items())[:5]:
            rp = write_replay(ctx.prop_id, {"property": ctx.prop_id, "kind": "input", "seed": ctx.seed,
                                            "tier": ctx.tier, "failure": f})
            lines.append(f"VIOLATION property={ctx.prop_id} replay={rp}")
            print(f"  failing case: {what}: {json.dumps(f['case'], default=str)[:400]}", flush=True)
            violations += 1
    else:
        broken = []
        if not proof.get("ok", False):
            broken.append({"link": "proof", "theorems": proof.get("broken", []), "detail": proof.get("detail", [])})
        if ctx.disagreements:
            broken.append({"link": "correspondence", "count": len(ctx.disagreements),
                           "first": ctx.disagreements[:5]})
        if ctx.spec_failures:
            broken.append({"link": "spec-validation", "count": len(ctx.spec_failures),
                           "first": ctx.spec_failures[:5]})
        if broken:
            found = None
            if ctx.tier != "search" and hasattr(prop, "search"):
                print(f"  link broken ({[b['link'] for b in broken]}); searching for a failing input ...", flush=True)
                sctx = Ctx(ctx.prop_id, "search", ctx.seed + 1)
                budget = 180 if ctx.tier == "quick" else 900
                sctx.deadline = time.time() + budget
                # the budget is enforced here (an alarm in the main thread), so that no search generator has to poll it;
                # what the search found before the alarm is kept
                import signal

                class _SearchBudget(Exception):
                    pass

                def _alarm(signum, frame):
                    raise _SearchBudget()
                old_handler = None
                try:
                    old_handler = signal.signal(signal.SIGALRM, _alarm)
                    signal.alarm(budget)
                except ValueError:
                    old_handler = None          # (not the main thread)
                try:
                    prop.search(sctx, broken)
                except _SearchBudget:
                    print(f"  search budget of {budget} s used up after {sctx.evals} evaluations", flush=True)
                except Exception:
                    traceback.print_exc()
                finally:
                    try:
                        signal.alarm(0)
                        if old_handler is not None:
                            signal.signal(signal.SIGALRM, old_handler)
                    except ValueError:
                        pass
                for f in sctx.oracle_failures:
                    hit = False
                    for kf in open_findings:
                        m = matchers.get(kf.get("matcher"))
                        try:
                            if m and m(f):
                                hit = True
                        except Exception:
                            pass
                    if not hit:
                        found = f
                        break
                ctx.extra["search_evaluations"] = sctx.evals
            if found:
                rp = write_replay(ctx.prop_id, {"property": ctx.prop_id, "kind": "input", "seed": ctx.seed,
                                                "tier": ctx.tier, "failure": found, "broken_links": broken})
                lines.append(f"VIOLATION property={ctx.prop_id} replay={rp}")
            else:
                rp = write_replay(ctx.prop_id, {"property": ctx.prop_id, "kind": "no-failing-input-found",
                                                "seed": ctx.seed, "tier": ctx.tier, "broken_links": broken})
                lines.append(f"VIOLATION property={ctx.prop_id} replay={rp} no-failing-input-found")
            violations += 1

    for fid, (kf, f) in known_hit.items():
        print(f"KNOWN-FINDING: property={ctx.prop_id} {kf['what']}", flush=True)
    ctx.extra["known_findings_hit"] = sorted(known_hit)
    write_evidence(ctx, proof, violations, prop)
    for l in lines:
        print(l, flush=True)
    return 1 if violations else 0
