"""Proof stage: regenerate, lake build, axiom audit, forbidden-token grep."""
import os
import re
import subprocess
import time

ROOT = os.path.dirname(os.path.dirname(os.path.dirname(os.path.abspath(__file__))))
LEAN = os.path.join(ROOT, "lean")
SDMODEL = os.path.join(LEAN, ".lake", "build", "bin", "sdmodel")

ALLOWED_AXIOMS = {"propext", "Classical.choice", "Quot.sound"}
FORBIDDEN = re.compile(
    r"\bsorry\b|\badmit\b|^\s*axiom\s|native_decide|bv_decide|implemented_by|\bunsafe\s|maxHeartbeats\s+0\b"
)


def _strip_comments(src: str) -> str:
    # remove /- ... -/ (nested) and -- comments
    out = []
    i = 0
    depth = 0
    n = len(src)
    while i < n:
        if src.startswith("/-", i):
            depth += 1
            i += 2
        elif depth and src.startswith("-/", i):
            depth -= 1
            i += 2
        elif depth:
            if src[i] == "\n":
                out.append("\n")
            i += 1
        elif src.startswith("--", i):
            while i < n and src[i] != "\n":
                i += 1
        else:
            out.append(src[i])
            i += 1
    return "".join(out)


def grep_forbidden():
    """Return list of (file, line, text) hits outside comments in the Lean sources."""
    hits = []
    for base, _dirs, files in os.walk(LEAN):
        if ".lake" in base:
            continue
        for f in files:
            if not f.endswith(".lean"):
                continue
            p = os.path.join(base, f)
            src = _strip_comments(open(p, encoding="utf-8").read())
            for ln, line in enumerate(src.split("\n"), 1):
                # string literals may legitimately mention the words
                line_ns = re.sub(r'"(?:[^"\\]|\\.)*"', '""', line)
                if FORBIDDEN.search(line_ns):
                    hits.append((os.path.relpath(p, ROOT), ln, line.strip()))
    return hits


def lake_build(targets, timeout=3600):
    t0 = time.time()
    p = subprocess.run(
        ["lake", "build"] + list(targets),
        cwd=LEAN,
        stdout=subprocess.PIPE,
        stderr=subprocess.STDOUT,
        text=True,
        timeout=timeout,
    )
    return p.returncode == 0, p.stdout, time.time() - t0


def theorem_names(module: str):
    """Names of the theorems declared in a Properties module (file-order), fully qualified."""
    path = os.path.join(LEAN, *module.split(".")) + ".lean"
    src = _strip_comments(open(path, encoding="utf-8").read())
    ns = []
    names = []
    for line in src.split("\n"):
        m = re.match(r"\s*namespace\s+(\S+)", line)
        if m:
            ns.append(m.group(1))
            continue
        m = re.match(r"\s*end\s+(\S+)", line)
        if m and ns and ns[-1] == m.group(1):
            ns.pop()
            continue
        # (private helper lemmas of examples are not addressable by name; whatever a public theorem uses of them
        # is included in that theorem's own `#print axioms`)
        m = re.match(r"\s*(?:@\[[^\]]*\]\s*)?(?:protected\s+)?theorem\s+(\S+)", line)
        if m:
            names.append(".".join(ns + [m.group(1)]))
    return names


def audit(modules, timeout=1800):
    """#print axioms for every theorem of the given Properties modules.

    Returns dict name -> sorted list of axioms, plus raw output.  A theorem missing from the
    result failed to elaborate (build is red)."""
    names = []
    for m in modules:
        names += theorem_names(m)
    src = "".join(f"import {m}\n" for m in modules)
    src += "".join(f"#print axioms {n}\n" for n in names)
    tmp = os.path.join(LEAN, ".lake", f"audit_{os.getpid()}.lean")
    os.makedirs(os.path.dirname(tmp), exist_ok=True)
    with open(tmp, "w") as fh:
        fh.write(src)
    try:
        p = subprocess.run(
            ["lake", "env", "lean", tmp],
            cwd=LEAN,
            stdout=subprocess.PIPE,
            stderr=subprocess.STDOUT,
            text=True,
            timeout=timeout,
        )
    finally:
        try:
            os.unlink(tmp)
        except OSError:
            pass
    out = p.stdout
    res = {}
    # "'X' depends on axioms: [a, b]"  or "'X' does not depend on any axioms"
    flat = re.sub(r"\s+", " ", out)
    for m in re.finditer(r"'([^']+)' depends on axioms: \[([^\]]*)\]", flat):
        res[m.group(1)] = sorted(a.strip() for a in m.group(2).split(",") if a.strip())
    for m in re.finditer(r"'([^']+)' does not depend on any axioms", flat):
        res[m.group(1)] = []
    return names, res, out


def leanchecker(modules, timeout=1500):
    """Thorough tier: replay the compiled declarations of the property's modules (and everything they import)
    through `leanchecker`, the toolchain's independent re-checker of .olean files.  Returns (ok, tail of output, wall)."""
    t0 = time.time()
    try:
        p = subprocess.run(["lake", "env", "leanchecker"] + list(modules), cwd=LEAN, stdout=subprocess.PIPE,
                           stderr=subprocess.STDOUT, text=True, timeout=timeout)
        return p.returncode == 0, p.stdout[-1500:], time.time() - t0
    except subprocess.TimeoutExpired:
        return None, "leanchecker timed out", time.time() - t0
    except OSError as e:
        return None, f"leanchecker not runnable: {e}", time.time() - t0


def proof_stage(modules, extra_targets=("sdmodel",), recheck=False):
    """Returns dict(ok, obligations, discharged, detail, broken, wall)."""
    t0 = time.time()
    info = {"ok": True, "broken": [], "detail": [], "axioms": {}}
    ok, out, _ = lake_build(list(modules) + list(extra_targets))
    info["build_ok"] = ok
    if not ok:
        info["ok"] = False
        errs = [l for l in out.split("\n") if "error" in l][:20]
        info["detail"].append("lake build failed: " + " | ".join(errs))
        info["build_log_tail"] = out[-4000:]
    hits = grep_forbidden()
    if hits:
        info["ok"] = False
        info["detail"].append(f"forbidden tokens: {hits[:5]}")
    names, res, raw = ([], {}, "")
    if ok:
        names, res, raw = audit(modules)
    else:
        for m in modules:
            try:
                names += theorem_names(m)
            except OSError:
                pass
    discharged = 0
    for n in names:
        ax = res.get(n)
        if ax is None:
            info["broken"].append(n)
            continue
        info["axioms"][n] = ax
        if set(ax) <= ALLOWED_AXIOMS:
            discharged += 1
        else:
            info["broken"].append(n)
            info["detail"].append(f"{n}: axioms {ax}")
    if info["broken"]:
        info["ok"] = False
    if recheck and ok:
        rok, rout, rwall = leanchecker(modules)
        info["leanchecker"] = {"ok": rok, "wall": round(rwall, 1), "modules": list(modules)}
        if rok is False:
            info["ok"] = False
            info["broken"].append("leanchecker")
            info["detail"].append("leanchecker rejected the compiled modules: " + rout[-600:])
        elif rok is None:
            info["detail"].append(rout)      # not runnable / timed out: recorded, not a broken proof
    info["obligations"] = len(names)
    info["discharged"] = discharged
    info["theorems"] = names
    info["wall"] = time.time() - t0
    return info
