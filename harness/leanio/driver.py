"""Pipe operation lines to the compiled Lean model driver (sdmodel) and collect answers."""
import os
import subprocess
from concurrent.futures import ThreadPoolExecutor

from .build import SDMODEL, LEAN


def _run_chunk(lines):
    data = ("\n".join(lines) + "\n").encode()
    p = subprocess.run([SDMODEL], input=data, stdout=subprocess.PIPE, stderr=subprocess.PIPE, cwd=LEAN)
    if p.returncode != 0:
        raise RuntimeError(f"sdmodel exited {p.returncode}: {p.stderr[-2000:].decode(errors='replace')}")
    out = p.stdout.decode().split("\n")
    if out and out[-1] == "":
        out.pop()
    if len(out) != len(lines):
        raise RuntimeError(f"sdmodel answered {len(out)} lines for {len(lines)} operations")
    return out


def ask(lines, workers=None, chunk=20000):
    """Answers for the given operation lines, in order."""
    lines = list(lines)
    if not lines:
        return []
    if not os.path.exists(SDMODEL):
        raise RuntimeError("sdmodel not built")
    workers = workers or min(16, os.cpu_count() or 1)
    chunks = [lines[i : i + chunk] for i in range(0, len(lines), chunk)]
    if len(chunks) == 1:
        return _run_chunk(chunks[0])
    with ThreadPoolExecutor(max_workers=workers) as ex:
        parts = list(ex.map(_run_chunk, chunks))
    out = []
    for p in parts:
        out.extend(p)
    return out


def ask1(line):
    return ask([line])[0]
