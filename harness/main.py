"""Entry: python -m harness.main Cnn --tier quick|thorough [--replay FILE]"""
import argparse
import importlib
import json
import os
import sys
import time
import traceback

from . import core
from .leanio import build
from .translate import constants as tr_constants


def main():
    ap = argparse.ArgumentParser()
    ap.add_argument("prop")
    ap.add_argument("--tier", default=os.environ.get("VERIF_TIER", "quick"), choices=["quick", "thorough"])
    ap.add_argument("--replay", default=None)
    ap.add_argument("--no-proof", action="store_true", help="development only: skip the Lean stage")
    a = ap.parse_args()
    seed = int(os.environ.get("VERIF_SEED", "0") or 0)
    try:
        prop = importlib.import_module(f"harness.props.{a.prop.lower()}")
    except ModuleNotFoundError:
        print(f"unknown property {a.prop}", file=sys.stderr)
        return 2
    ctx = core.Ctx(a.prop, a.tier, seed)
    try:
        # 1. regenerate
        for tr in [tr_constants] + list(getattr(prop, "TRANSLATORS", [])):
            tr.regenerate()
        # 2. prove
        if a.no_proof or os.environ.get("VERIF_DEV_NO_PROOF"):
            proof = {"ok": True, "obligations": 1, "discharged": 1, "theorems": [], "axioms": {}}
        else:
            proof = build.proof_stage(prop.LEAN_MODULES, recheck=(a.tier == "thorough" and not a.replay))
        print(f"[{a.prop}] proof stage: ok={proof['ok']} obligations={proof.get('obligations')} "
              f"discharged={proof.get('discharged')} wall={proof.get('wall', 0):.1f}s", flush=True)
        if not proof["ok"]:
            print("  " + "\n  ".join(map(str, proof.get("detail", [])))[:3000], flush=True)
        if not os.path.exists(build.SDMODEL):
            # the model driver itself does not build: correspondence impossible -> search on impl only
            ctx.notes.append("sdmodel did not build; correspondence skipped")
            if hasattr(prop, "search"):
                pass
        if a.replay:
            data = json.load(open(a.replay))
            prop.replay(ctx, data)
        else:
            # 3. corpus, 4. correspondence, 5. oracle
            if os.path.exists(build.SDMODEL):
                cdir = os.path.join(core.ROOT, "corpus", a.prop)
                if os.path.isdir(cdir) and hasattr(prop, "replay"):
                    for fn in sorted(os.listdir(cdir)):
                        if fn.endswith(".json"):
                            prop.replay(ctx, json.load(open(os.path.join(cdir, fn))))
                            ctx.branch("corpus")
                prop.run(ctx)
        rc = core.verdict(ctx, proof, prop)
        print(f"[{a.prop}] tier={a.tier} seed={seed} evaluations={ctx.evals} distinct_nontrivial={len(ctx.nontrivial)} "
              f"disagreements={len(ctx.disagreements)} oracle_failures={len(ctx.oracle_failures)} "
              f"wall={time.time()-ctx.t0:.1f}s exit={rc}", flush=True)
        return rc
    except Exception:
        traceback.print_exc()
        return 2


if __name__ == "__main__":
    sys.exit(main())
