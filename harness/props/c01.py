"""C01 — live table rows are reported exactly as SQLite stores them."""
from sqlite_dissect.file.database.database import Database

from ..gen import sqlite_factory as F
from . import dbcommon as C, ifacecheck as IF, specvalid as V

ID = "C01"
LEAN_MODULES = ["SqliteDissect.Properties.C01Tree", "SqliteDissect.Properties.C01", "SqliteDissect.Properties.C01Cell", "SqliteDissect.Properties.C15", "SqliteDissect.Properties.C16",
                "SqliteDissect.Properties.C06", "SqliteDissect.Properties.C01Schema"]
RULE = ("databases built by SQLite 3.40.1 over the grid page size x encoding x auto-vacuum with random rowid-table "
        "schemas, boundary values, threshold-sized payloads and insert/update/delete churn; each database is dumped "
        "by the implementation and by the Lean model (db.dump: header, freelist, pointer map, schema rows, every "
        "b-tree page with cells, records, overflow chains, freeblocks, fragments) and every rowid table is compared "
        "with SELECT rowid, typeof(c), hex(c). non-trivial = distinct accepted database dump")
ASSUMPTIONS = [
    "SQLite 3.40.1 (the sqlite3 module of /venv/bin/python) is the oracle for 'what SQLite stores'",
    "schema SQL text parsing (file/schema/*.py row classes) is outside the Lean model: a rejection there is reported through the SQLite oracle (C07), not through the correspondence",
    "databases above 1 GiB (lock-byte page) and reserved bytes per page != 0 are refused by the tool and not generated",
]


def check_database(ctx, path, tables, case):
    n0 = len(ctx.oracle_failures)
    impl, db, exc = C.compare_db_dump(ctx, path, "db.dump")
    rows = 0
    if db is None:
        ctx.oracle_fail("rejected", f"a database written by SQLite is rejected: {impl}", case, impl, "accepted")
    else:
        for t, (names, alias) in tables.items():
            oracle = F.oracle_rows(path, t, names)
            rows += C.check_table_rows(ctx, db, t, names, alias, oracle, case)
    ctx.extra["cells_validating_the_spec"] = ctx.extra.get("cells_validating_the_spec", 0) + V.validate_cells(ctx, path, case)
    C.keep_failing_files(ctx, n0, path)
    return rows


# boundary shapes every run must contain: exactly 60 fragmented bytes on a page (20 x 3), just below, a wide table
FORCE = {"fragmenter": lambda i: [(20, 3), None, (19, 3), None, (21, 3), None, (40, 2), None][i % 8],
         "wide_table": lambda i: [0, 0, 0, 300, 0, 0, 0, 150][i % 8],
         "table_boundary": lambda i: i % 2 == 0}      # rows whose payload is exactly (u-35) + k(u-4), and around it


def run(ctx, n_quick=48, n_thorough=600):
    sc = C.Scratch()
    try:
        rows_checked = 0
        for b in C.build_databases(ctx, sc, C.n_databases(ctx, n_quick, n_thorough), force=FORCE):
            rows_checked += check_database(ctx, b.path, b.tables, {"cfg": b.cfg, "seed": ctx.seed})
            IF.run(ctx, [b])       # select_all_from_table / _index by name vs the model (harness/props/ifacecheck.py)
        ctx.extra["rows_compared_with_sqlite"] = rows_checked
    finally:
        sc.close()


def search(ctx, broken):
    run(ctx, n_quick=300, n_thorough=300)


def tables_of(path):
    import sqlite3
    con = sqlite3.connect(f"file:{path}?mode=ro", uri=True)
    try:
        out = {}
        for (name, sql) in con.execute("SELECT name, sql FROM sqlite_master WHERE type='table' AND name NOT LIKE 'sqlite_%'"):
            if "WITHOUT ROWID" in (sql or "").upper() or (sql or "").upper().startswith("CREATE VIRTUAL"):
                continue
            info = list(con.execute(f"PRAGMA table_info({name})"))
            names = [r[1] for r in info]
            pk = [r for r in info if r[5]]
            alias = len(pk) == 1 and pk[0][2].upper() == "INTEGER" and pk[0][0] == 0
            out[name] = (names, alias)
        return out
    finally:
        con.close()


def replay(ctx, data):
    files = C.replay_files(data)
    if files:
        check_database(ctx, files[0], tables_of(files[0]), {"replay": True, "corpus_file": data.get("failure", {}).get("case", {}).get("corpus_file")})
        return
    run(ctx, 10, 10)


MATCHERS = {}
