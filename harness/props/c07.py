"""C07 — schema entries, schema history and column typing agree with SQLite."""
import json
import os
import re
import sqlite3
import unicodedata

from sqlite_dissect import constants as K
from sqlite_dissect.file.database.database import Database
from sqlite_dissect.file.database.page import TableLeafCell
from sqlite_dissect.file.schema.column import ColumnDefinition
from sqlite_dissect.file.schema.master import MasterSchemaRow, OrdinaryTableRow, VirtualTableRow
from sqlite_dissect.file.schema.utilities import get_index_of_closing_parenthesis, parse_comment_from_sql_segment
from sqlite_dissect.file.wal.wal import WriteAheadLog
from sqlite_dissect.output import stringify_master_schema_versions
from sqlite_dissect.version_history import VersionHistory

from ..gen import ddl as G
from ..gen import histories as H
from ..gen import sqlite_factory as F
from ..impl.canon import classify, guarded, hx
from ..leanio import driver
from . import c07rows as R
from . import dbcommon as C

ID = "C07"
LEAN_MODULES = ["SqliteDissect.Properties.C07", "SqliteDissect.Properties.C07Rows", "SqliteDissect.Properties.C02Schema",
                "SqliteDissect.Properties.C01Schema"]
RULE = ("CREATE TABLE statements from a grammar generator (every identifier quoting style, the style's own quote character "
        "doubled inside names, tabs/newlines/comments - those that start with /*/ included - in "
        "every gap, type names with arguments, column and table constraints, DEFAULT/CHECK expressions with commas, "
        "parentheses, quotes, slashes) are executed by SQLite 3.40.1; the text SQLite stored in sqlite_schema is parsed "
        "by the real OrdinaryTableRow (stub version interface; a sample also through Database on files in all three "
        "encodings) and by the Lean model (ddl.table), and compared with PRAGMA table_xinfo (names, order), with the "
        "affinity SQLite assigns (CREATE TABLE AS SELECT echo) and PRAGMA table_list (WITHOUT ROWID). Scalar "
        "mechanisms (closing parenthesis, comment parsing, name extraction, ColumnDefinition, affinity) are compared "
        "on mutated strings as well. CREATE INDEX rows whose index and table names use every quoting style (doubled quote "
        "characters included) are read through Database and must be accepted with the rows of sqlite_master. DDL histories inside a WAL: entries per version vs sqlite_master after that "
        "commit, schema timeline vs the commit that made each change. A statement on which the implementation "
        "differs from SQLite is reduced (parts removed, gaps/identifiers/expressions replaced by clean defaults) while it "
        "keeps failing the same way; if that minimal statement is not explained by a listed finding the reduction "
        "continues across failure kinds and the result is used only if a listed finding explains it. "
        "non-trivial = distinct statement the implementation parses without error. Rows other than ordinary tables: " + R.RULE)
ASSUMPTIONS = [
    "SQLite 3.40.1 (the sqlite3 module of /venv/bin/python) is the oracle: sqlite_master rows, PRAGMA table_xinfo, "
    "PRAGMA table_list, and the declared type CREATE TABLE … AS SELECT writes back (INT/NUM/REAL/TEXT/'' = the affinity "
    "SQLite assigned)",
    "Python's str.isspace / regex \\s table (29 code points) and the 19 non-ASCII code points whose upper()/lower() "
    "contains an ASCII letter are transcribed into the model and compared with the running interpreter on every run; "
    "statements containing one of the 19 code points, and decisions that depend on regex \\w of a non-ASCII character, "
    "are outside the model (answer outsideModel, counted, not compared)",
    R.ASSUMPTION,
]
TRUSTED_EXTRA = [
    "Spec.Affinity (five ordered substring rules) validated against the declared type SQLite writes back in CREATE TABLE AS SELECT",
]


# ====================================================================== implementation side
class _V:
    version_number = 0
    database_text_encoding = "utf-8"

    def get_page_version(self, n):
        return 0


class _P:
    md5_hex_digest = "p"


class _Col:
    def __init__(self, v):
        self.value = v


def make_row(sql, name, tbl):
    """the real OrdinaryTableRow over a schema record (type, name, tbl_name, rootpage, sql)"""
    cell = TableLeafCell.__new__(TableLeafCell)
    cell.row_id = 1
    cell.md5_hex_digest = "c"
    cell.payload = _P()
    cols = [_Col(b"table"), _Col(name.encode("utf-8")), _Col(tbl.encode("utf-8")), _Col(2), _Col(sql.encode("utf-8"))]
    return OrdinaryTableRow(_V(), 1, cell, cols)


def ascii_lower(s):
    return "".join(chr(ord(c) + 32) if "A" <= c <= "Z" else c for c in s)


def show_col(c):
    return f"{hx(c.column_name.encode('utf-8'))}:{c.type_affinity}:{c.data_type}:{int(bool(c.column_constraints))}"


def show_row(r):
    cols = ",".join(show_col(c) for c in r.column_definitions)
    return (f"ok name={hx(ascii_lower(r.name).encode('utf-8'))} cols=[{cols}] ntc={len(r.table_constraints)} "
            f"without_rowid={int(r.without_row_id)} internal={int(r.internal_schema_object)}")


def impl_table(sql, name, tbl):
    return guarded(lambda: show_row(make_row(sql, name, tbl)))


def op_table(sql, name, tbl):
    return f"ddl.table {hx(sql.encode('utf-8'))} {hx(name.encode('utf-8'))} {hx(tbl.encode('utf-8'))}"


def impl_column(text):
    return guarded(lambda: "ok " + show_col(ColumnDefinition(0, text, [])))


def impl_affinity(ty):
    def f():
        d = ty.upper()
        dt = ColumnDefinition._get_data_type(d)
        return f"ok {ColumnDefinition._get_column_affinity(dt, d)} {dt}"
    return guarded(f)


def impl_close(s, off):
    return guarded(lambda: f"ok {get_index_of_closing_parenthesis(s, off)}")


def impl_comment(s):
    def f():
        c, r = parse_comment_from_sql_segment(s)
        return f"ok {hx(c.encode('utf-8'))} {hx(r.encode('utf-8'))}"
    return guarded(f)


def impl_name(s, row_type="table", may_end=False):
    def f():
        if may_end:
            # (the module name of a virtual table may be the last thing in the statement: repair of C07-22)
            n, r = MasterSchemaRow._get_master_schema_row_name_and_remaining_sql(row_type, "n", "sql", s, name_may_end_statement=True)
        else:
            n, r = MasterSchemaRow._get_master_schema_row_name_and_remaining_sql(row_type, "n", "sql", s)
        return f"ok {hx(n.encode('utf-8'))} {hx(r.encode('utf-8'))}"
    return guarded(f)


CASEFOLD = [0xdf, 0x130, 0x131, 0x149, 0x17f, 0x1f0, 0x1e96, 0x1e97, 0x1e98, 0x1e99, 0x1e9a, 0x212a,
            0xfb00, 0xfb01, 0xfb02, 0xfb03, 0xfb04, 0xfb05, 0xfb06]


def in_model_text(s):
    return not any(ord(c) in CASEFOLD for c in s)


# ====================================================================== the oracle
AFF_OF_ECHO = {"INT": "INTEGER", "TEXT": "TEXT", "": "BLOB", "REAL": "REAL", "NUM": "NUMERIC"}


def spec_affinity(ty):
    """Python transcription of Spec.columnAffinity (cross-checked against the Lean Spec on every type seen)"""
    if ty is None or ty == "":
        return "BLOB"
    t = "".join(chr(ord(c) - 32) if "a" <= c <= "z" else c for c in ty)      # ASCII-only upper-casing
    if "INT" in t:
        return "INTEGER"
    if "CHAR" in t or "CLOB" in t or "TEXT" in t:
        return "TEXT"
    if "BLOB" in t:
        return "BLOB"
    if "REAL" in t or "FLOA" in t or "DOUB" in t:
        return "REAL"
    return "NUMERIC"


def qid(s):
    return '"' + s.replace('"', '""') + '"'


def sqlite_table_info(ddl):
    """execute one CREATE TABLE in a fresh in-memory database; None when SQLite rejects it"""
    con = sqlite3.connect(":memory:")
    try:
        try:
            con.execute(ddl)
        except (sqlite3.Error, sqlite3.Warning):
            return None
        rows = con.execute("SELECT name, tbl_name, sql FROM sqlite_master WHERE type='table' AND name NOT LIKE 'sqlite_%'").fetchall()
        if len(rows) != 1:
            return None
        name, tbl, sql = rows[0]
        xi = con.execute("SELECT name, type, hidden FROM pragma_table_xinfo(?)", (name,)).fetchall()
        tl = con.execute("SELECT wr, strict FROM pragma_table_list WHERE name=? AND schema='main'", (name,)).fetchone()
        echo = None
        try:
            con.execute("CREATE TABLE \"__echo\" AS SELECT " + ", ".join(qid(x[0]) for x in xi) + " FROM " + qid(name))
            echo = [AFF_OF_ECHO.get(x[0]) for x in con.execute("SELECT type FROM pragma_table_xinfo('__echo')")]
            if len(echo) != len(xi) or None in echo:
                echo = None
        except sqlite3.Error:
            echo = None
        return {"name": name, "tbl": tbl, "sql": sql, "cols": [(x[0], x[1]) for x in xi], "hidden": [x[2] for x in xi],
                "wr": bool(tl[0]) if tl else False, "strict": bool(tl[1]) if tl else False, "echo": echo}
    finally:
        con.close()


def parse_show(s):
    """canonical 'ok …' line -> (names, affinities, wr, internal)"""
    m = re.match(r"ok name=(\S+) cols=\[(.*)\] ntc=(\d+) without_rowid=(\d) internal=(\d)$", s)
    cols = [c.split(":") for c in m.group(2).split(",")] if m.group(2) else []
    names = [bytes.fromhex(c[0]).decode("utf-8") if c[0] != "-" else "" for c in cols]
    return names, [c[1] for c in cols], m.group(4) == "1", m.group(5) == "1"


def judge(info, impl):
    """first difference between what the implementation reports and what SQLite says: (kind, what, impl, oracle) | None"""
    if not impl.startswith("ok"):
        return ("rejected", f"a CREATE TABLE that SQLite accepts makes the schema unreadable ({impl})", impl, "accepted")
    names, affs, wr, internal = parse_show(impl)
    onames = [c[0] for c in info["cols"]]
    if names != onames:
        return ("columns", "column names/order differ from PRAGMA table_xinfo", names, onames)
    oaff = info["echo"] or [spec_affinity(c[1]) for c in info["cols"]]
    if affs != oaff:
        return ("affinity", "column type affinity differs from the one SQLite assigns", list(zip(names, affs)), list(zip(onames, oaff)))
    if wr != info["wr"]:
        return ("without-rowid", "WITHOUT ROWID flag differs from PRAGMA table_list", wr, info["wr"])
    if internal != info["name"].startswith("sqlite_"):
        return ("internal", "internal schema object flag wrong", internal, info["name"])
    return None


RISKY = ("ws1:", "wsrun:", "cmt:", "cmt2:", "cmtonly:", "cmtadj:", "nogap:", "ident:", "table-ident:", "expr:", "type:one-char",
         "type:NOT_SPECIFIED", "trailer:strict", "cons:generated", "type:args-spaces", "cons:null")


def risky(tags):
    return sorted(t for t in tags if t.startswith(RISKY))


class DdlRun:
    """evaluates generated statements: SQLite, implementation, model op line, verdict"""

    def __init__(self, ctx):
        self.ctx = ctx
        self.cases = []           # (op line, impl) for the differential
        self.seen_fail = {}       # minimal ddl -> failure
        self.types_seen = {}      # declared type text (as SQLite reports it) -> echo affinity
        self.n_sqlite_rejects = 0
        self.n_ok = 0
        self.n_fail = 0
        self.min_evals = 0

    def eval_text(self, ddl, record=True):
        info = sqlite_table_info(ddl)
        if info is None:
            self.n_sqlite_rejects += 1
            return None, None, None
        impl = impl_table(info["sql"], info["name"], info["tbl"])
        if record:
            if in_model_text(info["sql"]):
                self.cases.append((op_table(info["sql"], info["name"], info["tbl"]), impl))
            else:
                self.ctx.branch("outside-model:casefold-char")
            if info["echo"] and not info["strict"]:
                for (n, ty), a in zip(info["cols"], info["echo"]):
                    self.types_seen.setdefault(ty, a)
        return info, impl, judge(info, impl)

    def run_tree(self, tree):
        ctx = self.ctx
        ddl, tags = G.render(tree)
        info, impl, verdict = self.eval_text(ddl)
        if info is None:
            ctx.branch("ddl:sqlite-rejects")
            return
        ctx.mark(("ddl", info["sql"]), nontrivial=impl.startswith("ok"))
        if verdict is None:
            self.n_ok += 1
            ctx.branch("ddl:agrees-with-sqlite")
            return
        self.n_fail += 1
        kind = verdict[0]
        ctx.branch("ddl:differs:" + kind)

        def fails(t, same_kind):
            self.min_evals += 1
            d, _ = G.render(t)
            i2, im2, v2 = self.eval_text(d, record=False)
            return v2 is not None and (v2[0] == kind or not same_kind)

        def failure_of(small):
            sddl, stags = G.render(small)
            info2, impl2, v2 = self.eval_text(sddl, record=sddl not in self.seen_fail)
            return sddl, {"kind": v2[0], "what": v2[1],
                          "case": {"ddl": sddl, "stored_sql": info2["sql"], "tags": risky(stags), "all_tags": sorted(stags),
                                   "count": 1, "original": ddl[:600]},
                          "impl": v2[2], "oracle": v2[3]}
        small = G.minimise(tree, lambda t: fails(t, True), budget=900)
        sddl, f = failure_of(small)
        if not any(m(f) for m in MATCHERS.values()):
            # not explained by a listed finding: continue reducing across failure kinds; keep that result only
            # if it is explained (otherwise the first, kind-preserving reduction is what gets reported)
            small2 = G.minimise(small, lambda t: fails(t, False), budget=600)
            sddl2, f2 = failure_of(small2)
            if any(m(f2) for m in MATCHERS.values()):
                f2["case"]["reduced_across_kinds_from"] = sddl
                sddl, f = sddl2, f2
        if sddl in self.seen_fail:
            self.seen_fail[sddl]["case"]["count"] += 1
            return
        self.seen_fail[sddl] = f

    def finish(self, label="ddl.table"):
        ctx = self.ctx
        ans = ctx.differential(self.cases, label, nontrivial=lambda line, out: False)
        for (line, impl), model in zip(self.cases, ans or []):
            if model == "err outsideModel":
                ctx.branch("outside-model:" + label)
        # outsideModel answers are not disagreements
        ctx.disagreements = [d for d in ctx.disagreements if not (d.get("label") == label and d.get("model") == "err outsideModel")]
        for f in self.seen_fail.values():
            ctx.oracle_fail(f["kind"], f["what"], f["case"], f["impl"], f["oracle"])
        self.cases = []
        self.seen_fail = {}


# ====================================================================== sections of the run
def check_constants(ctx):
    """the tables transcribed into the model against the running Python / constants.py"""
    line = driver.ask1("ddl.consts")
    got = dict(p.split("=", 1) for p in line.split(" "))
    space = ",".join(str(c) for c in range(0x3100) if chr(c).isspace())
    space_re = ",".join(str(c) for c in range(0x3100) if re.match(r"\s", chr(c)))
    more_space = [c for c in range(0x3100, 0x110000) if chr(c).isspace()]
    cf = []
    for c in range(128, 0x110000):
        if 0xD800 <= c <= 0xDFFF:
            continue
        ch = chr(c)
        if any(ord(x) < 128 for x in ch.upper()) or any(ord(x) < 128 for x in ch.lower()):
            cf.append(c)
    dts = ",".join(re.sub(r"_\d+.*$", "", d) + "=" + d for d in K.DATA_TYPE)
    want = {"space": space, "casefold": ",".join(map(str, cf)), "colpre": ",".join(K.COLUMN_CONSTRAINT_PREFACES),
            "tabpre": ",".join(K.TABLE_CONSTRAINT_PREFACES), "datatypes": dts}
    for k, v in want.items():
        ctx.evals += 1
        if got.get(k) != v:
            ctx.disagreements.append({"label": "ddl.consts", "op": k, "impl": v[:300], "model": str(got.get(k))[:300]})
    if space != space_re or more_space:
        ctx.disagreements.append({"label": "ddl.consts", "op": "isspace vs \\s", "impl": space_re, "model": space})
    if CASEFOLD != cf:
        ctx.disagreements.append({"label": "ddl.consts", "op": "harness CASEFOLD", "impl": cf, "model": CASEFOLD})
    if K.CREATE_TABLE_CLAUSE != "CREATE TABLE" or K.INTERNAL_SCHEMA_OBJECT_PREFIX != "sqlite_" or \
            K.ORDINARY_TABLE_AS_CLAUSE != "AS" or list(K.TYPE_AFFINITY) != ["TEXT", "NUMERIC", "INTEGER", "REAL", "BLOB"]:
        ctx.disagreements.append({"label": "ddl.consts", "op": "clauses", "impl": "changed", "model": "CREATE TABLE/sqlite_/AS"})
    ctx.branch("consts")


ALPH = list("ab1_ INT()(),,''\"\"``[]--/**/\n\t.-/ xTEXTchar") + ["PRIMARY KEY", "NOT NULL", "DEFAULT", "CHECK", "UNIQUE",
                                                                 "REFERENCES", "CONSTRAINT", "FOREIGN", "COLLATE", "WITHOUT ROWID",
                                                                 "--c\n", "/*c*/", "é", " ", "\x1c", "  ", "AS", "VARCHAR(10)",
                                                                 "€", "ß", '""', "''", "``", "/*/", "*/", "/*"]


def mutate(r, s, n=None):
    s = list(s)
    for _ in range(n or r.choice([1, 1, 2, 3])):
        k = r.random()
        pos = r.randint(0, len(s))
        if k < 0.5:
            s[pos:pos] = list(r.choice(ALPH))
        elif k < 0.75 and s:
            del s[min(pos, len(s) - 1)]
        elif s:
            s[min(pos, len(s) - 1)] = r.choice(ALPH)[0]
    return "".join(s)


SEED_COLS = ["a INT", "a", "\"a b\" VARCHAR(10) NOT NULL", "[a] TEXT DEFAULT 'x,y'", "`a` UNSIGNED BIG INT PRIMARY KEY",
             "'a' DOUBLE PRECISION", "a DECIMAL (10, 5) CHECK (a > (1))", "a /* c */ INT -- d\n", "a INT DEFAULT -1",
             "a\tINT", "a INT REFERENCES o(x)", "a NATIVE CHARACTER(70) COLLATE NOCASE", "a N", "a  INT  NOT  NULL",
             "a VARCHAR(10)NOT NULL", "a INT GENERATED ALWAYS AS (1) VIRTUAL", "primaryEmail TEXT", "a NOT_SPECIFIED",
             '"x""y" INT', "'x''y' TEXT", "`x``y` REAL", '"""" INT', '"a"" INT', '"a""', '"""' , "'a", "`a``",
             '"a\nb" INT', '"a""b""c', '[x""y] INT', "[a\nb] INT", "[[a] INT", "[a[] TEXT", "[[]", "a /*/ c */ INT", "a /*/ INT", "a /*/*/ INT", "a/*/*/INT", "a INT /*/"]
SEED_PAREN = ["(a)", "(a(b)c)", "('x)')", "(\"x)\")", "(`)`)", "(--)\n)", "(/*)*/)", "(a-b)", "(a/*c*/)", "((())())", "(a", "()",
              "(a)b)", "(-", "(/", "(a/b)", "([)])", "('it''s')", "(a /*/ c */)", "(/*/)", "(/*/*/)", "(/*/ ) */)", "(/*/)*/)",
              "(a /*/ b) /*/*/)", "(/***/)", "(/*/**/)"]
SEED_COMMENT = ["-- c\nrest", "/* c */rest", "--", "/*", "/*/", "--\n", "/**/", "- - c", "/* a /* b */ c */", "x",
                "/*/ c */rest", "/*/*/rest", "/*/*", "/***/", "/*/ */ */", "/**/*/"]
SEED_NAME = ["t(a)", "t (a)", "\"t t\"(a)", "[t](a)", "`t`(a)", "'t'(a)", "t\n(a)", "t--c\n(a)", "t/*c*/(a)", "t\t(a)", "t.u(a)",
             "t", "", "\"t", "[t", "t-1", "t/2", "\"t\"\"u\"(a)", "[[t]](a)", "``(a)", "[a\nb](a)", "[[t](a)", "[t[](a)", "[[](a)", "[a\nb",
             '""""(a)', '"a""', '"""', '"a""b', "'it''s'(a)", "`a``b`(a)", "''''", "'a\nb'(a)", '"a"b"(a)',
             '"a""b""c', '"t""""u" (a)', "'t' ON u", '`i``x` ON "t""u"(a)']


def scalar_ops(ctx):
    r = ctx.rng
    n = 6000 if ctx.thorough() else 1200
    cases = []
    for _ in range(n):
        s = mutate(r, r.choice(SEED_PAREN), r.choice([0, 1, 2]))
        off = r.choice([0, 0, 0, 1, 2, len(s), len(s) + 1])
        if in_model_text(s):
            cases.append((f"ddl.close {hx(s.encode())} {off}", impl_close(s, off)))
    ctx.differential(cases, "ddl.close")
    cases = []
    for _ in range(n // 3):
        s = mutate(r, r.choice(SEED_COMMENT), r.choice([0, 1, 2]))
        cases.append((f"ddl.comment {hx(s.encode())}", impl_comment(s)))
    ctx.differential(cases, "ddl.comment")
    cases = []
    for _ in range(n // 2):
        s = mutate(r, r.choice(SEED_NAME), r.choice([0, 1, 2]))
        # (the same function reads table names and index names; the row type only selects the wording of its errors)
        if r.random() < 0.3:
            cases.append((f"ddl.name {hx(s.encode())} end", impl_name(s, "table", may_end=True)))
        else:
            cases.append((f"ddl.name {hx(s.encode())}", impl_name(s, r.choice(["table", "table", "index"]))))
    ctx.differential(cases, "ddl.name")
    cases = []
    for _ in range(n * 2):
        s = mutate(r, r.choice(SEED_COLS), r.choice([0, 0, 1, 2, 3]))
        if in_model_text(s):
            cases.append((f"ddl.column {hx(s.encode())}", impl_column(s)))
    ctx.differential(cases, "ddl.column")
    _drop_outside(ctx, "ddl.column")


def _drop_outside(ctx, label):
    keep = []
    for d in ctx.disagreements:
        if d.get("label") == label and d.get("model") == "err outsideModel":
            ctx.branch("outside-model:" + label)
        else:
            keep.append(d)
    ctx.disagreements = keep


def type_strings(ctx):
    r = ctx.rng
    out = set()
    for words in G.STD_TYPES + G.ODD_TYPES:
        base = " ".join(words)
        for v in (base, base.lower(), base.capitalize(), base.replace(" ", "_")):
            out.add(v)
            for a in G.ARGS:
                out.add(f"{v}({a})")
                out.add(f"{v} ({a})")
    kws = ["INT", "CHAR", "CLOB", "TEXT", "BLOB", "REAL", "FLOA", "DOUB", "int", "Char", "bLoB"]
    for _ in range(4000 if ctx.thorough() else 800):
        k = r.randint(1, 3)
        s = ""
        for _ in range(k):
            s += r.choice(kws + ["X", "_", " ", "IN", "T", "CHA", "R", "E", "AL", "1", "(", ")", "é", "NOT_SPECIFIED", "DATE", "INVALID"])
        out.add(s)
    out.add("")
    return sorted(x for x in out if in_model_text(x))


def affinity_section(ctx):
    """_get_data_type/_get_column_affinity vs model vs Spec; Spec vs SQLite"""
    tys = type_strings(ctx)
    cases = [(f"ddl.affinity {hx(t.encode())}", impl_affinity(t)) for t in tys]
    ctx.differential(cases, "ddl.affinity")
    spec = driver.ask([f"spec.affinity {hx(t.encode())}" for t in tys])
    for t, sp in zip(tys, spec):
        ctx.evals += 1
        if sp != "ok " + spec_affinity(t):
            ctx.spec_fail("harness transcription of Spec.columnAffinity differs from the Lean Spec", {"type": t}, sp, spec_affinity(t))
    # the isolated affinity function against Spec, on declared types in SQLite's typetoken shape
    tt = re.compile(r"^[A-Za-z_][A-Za-z0-9_]*( [A-Za-z_][A-Za-z0-9_]*)*( ?\([-+0-9.e, ]*\))?$")
    for t, (_, impl) in zip(tys, cases):
        if not t or not tt.match(t):
            continue
        ctx.mark(("aff-spec", t))
        want = "ok " + spec_affinity(t)
        if impl.rsplit(" ", 1)[0] != want:
            ctx.oracle_fail("affinity-fn", "affinity derived from a declared type differs from SQLite's rules",
                            {"declared_type": t, "tags": ["type:NOT_SPECIFIED"] if t.upper().startswith("NOT_SPECIFIED") else ["type:" + t]},
                            impl, want)
    # (V) Spec against SQLite itself
    con = sqlite3.connect(":memory:")
    nprobe = 0
    for t in tys:
        if not t or not tt.match(t):
            continue
        try:
            con.execute(f"CREATE TABLE p(c {t})")
        except sqlite3.Error:
            continue
        con.execute("CREATE TABLE e AS SELECT c FROM p")
        echo = AFF_OF_ECHO.get(con.execute("SELECT type FROM pragma_table_xinfo('e')").fetchone()[0])
        shown = con.execute("SELECT type FROM pragma_table_xinfo('p')").fetchone()[0]
        con.execute("INSERT INTO p VALUES('1')")
        con.execute("INSERT INTO p VALUES(1.0)")
        ty = [x[0] for x in con.execute("SELECT typeof(c) FROM p ORDER BY rowid")]
        con.execute("DROP TABLE p")
        con.execute("DROP TABLE e")
        nprobe += 1
        ctx.evals += 1
        sa = spec_affinity(shown)
        probe = {"INTEGER": ["integer", "integer"], "NUMERIC": ["integer", "integer"], "TEXT": ["text", "text"],
                 "BLOB": ["text", "real"], "REAL": ["real", "real"]}[sa]
        if echo != sa or ty != probe:
            ctx.spec_fail("Spec.columnAffinity differs from the affinity SQLite assigns", {"type": shown}, sa, {"echo": echo, "typeof": ty})
    con.close()
    ctx.extra["affinity_types_probed_in_sqlite"] = nprobe


def ddl_section(ctx, n=None):
    r = ctx.rng
    run = DdlRun(ctx)
    n = n or (20000 if ctx.thorough() else 1500)
    for i in range(n):
        mode = i % 10
        if mode < 3:
            nasty = 0.0
        elif mode < 8:
            nasty = 0.06
        else:
            nasty = r.choice([0.15, 0.3, 0.5])
        tree = G.random_table(r, nasty)
        run.run_tree(tree)
        if ctx.time_left() is not None and ctx.time_left() < 5:
            break
    # (V) every declared type SQLite reported: Spec rule = echo affinity
    for ty, a in run.types_seen.items():
        ctx.evals += 1
        if spec_affinity(ty) != a:
            ctx.spec_fail("Spec.columnAffinity differs from the affinity SQLite assigns", {"type": ty}, spec_affinity(ty), a)
    ctx.extra.update(ddl_statements=run.n_ok + run.n_fail, ddl_agree=run.n_ok, ddl_differ=run.n_fail,
                     ddl_sqlite_rejected=run.n_sqlite_rejects, ddl_minimisation_evaluations=run.min_evals,
                     declared_types_validated=len(run.types_seen))
    run.finish()
    _drop_outside(ctx, "ddl.table")


def mutated_tables(ctx):
    """correspondence only: statements SQLite would not store (model and code must still agree, error class included)"""
    r = ctx.rng
    cases = []
    n = 8000 if ctx.thorough() else 1500
    for _ in range(n):
        tree = G.random_table(r, r.choice([0.0, 0.1, 0.3]), tname="t")
        sql, _ = G.render(tree)
        sql = mutate(r, sql, r.choice([0, 1, 1, 2, 4]))
        nm = r.choice(["t", "t", "t", "T", "u", "sqlite_t", ""])
        tb = r.choice([nm, nm, nm, "t", "sqlite_sequence"])
        if in_model_text(sql):
            cases.append((op_table(sql, nm, tb), impl_table(sql, nm, tb)))
    ctx.differential(cases, "ddl.table/mutated")
    _drop_outside(ctx, "ddl.table/mutated")


# ---------------------------------------------------------------------- databases on disk
def schema_oracle(path):
    con = sqlite3.connect(f"file:{path}?mode=ro", uri=True)
    try:
        return [tuple(x) for x in con.execute("SELECT type, name, tbl_name, rootpage, sql FROM sqlite_master")]
    finally:
        con.close()


def entry_tuple(e):
    return (e.row_type, e.name, e.table_name, e.root_page_number, e.sql)


def compare_entries(ctx, entries, oracle, case, what="schema entries differ from sqlite_master"):
    got = sorted(entry_tuple(e) for e in entries)
    want = sorted(oracle)
    ctx.mark(("schema", tuple(want)))
    if got != want:
        ctx.oracle_fail("schema-rows", what, case, [x for x in got if x not in want][:5], [x for x in want if x not in got][:5])
        return False
    return True


EXTRA_DDL = [
    "CREATE INDEX i1 ON {t} ({c})",
    "CREATE UNIQUE INDEX \"i 2\" ON {t} ({c}) WHERE {c} IS NOT NULL",
    "CREATE INDEX \"i\"\"3\" ON {t} ({c})",
    "CREATE INDEX `i``4` ON {t} ({c})",
    "CREATE INDEX 'i''5' ON {t} ({c})",
    "CREATE VIEW v1 AS SELECT {c} FROM {t}",
    "CREATE VIEW [v 2] (x) AS SELECT {c} /* c */ FROM {t} -- d\n",
    "CREATE TRIGGER tr1 AFTER INSERT ON {t} BEGIN SELECT 1; END",
    "CREATE TRIGGER \"tr 2\" BEFORE DELETE ON {t} WHEN 1 BEGIN\n SELECT 'a;b'; -- c\n END",
    "CREATE TABLE seq_t (id INTEGER PRIMARY KEY AUTOINCREMENT, v)",
    "CREATE VIRTUAL TABLE ft USING fts5(x, y)",
    "CREATE VIRTUAL TABLE rt USING rtree(id, a, b)",
    "ANALYZE",
]


def database_section(ctx, n=None):
    """the same parse through Database on real files (all encodings, other row kinds present)"""
    r = ctx.rng
    sc = C.Scratch()
    n = n or (150 if ctx.thorough() else 24)
    done = 0
    try:
        for i in range(n * 4):
            if done >= n:
                break
            tree = G.random_table(r, r.choice([0.0, 0.0, 0.05]))
            ddl, tags = G.render(tree)
            info = sqlite_table_info(ddl)
            if info is None:
                continue
            direct = impl_table(info["sql"], info["name"], info["tbl"])
            if not direct.startswith("ok") or judge(info, direct) is not None:
                continue          # failing statements are the business of ddl_section
            path = sc.path(f"s{i}.db")
            enc = F.ENCODINGS[i % 3]
            con = sqlite3.connect(path, isolation_level=None)
            con.execute(f"PRAGMA encoding='{enc}'")
            con.execute(f"PRAGMA page_size={r.choice([512, 1024, 4096])}")
            con.execute(ddl)
            extras = []
            c0 = qid(info["cols"][0][0])
            for x in r.sample(EXTRA_DDL, r.randint(0, 5)):
                stmt = x.format(t=qid(info["name"]), c=c0)
                try:
                    if stmt == "ANALYZE":
                        con.execute("CREATE TABLE IF NOT EXISTS az(a); ")
                        con.execute("CREATE INDEX IF NOT EXISTS azi ON az(a)")
                        con.execute("INSERT INTO az VALUES (1)")
                    con.execute(stmt)
                    extras.append(stmt)
                except sqlite3.Error:
                    pass
            con.close()
            done += 1
            case = {"ddl": ddl, "extras": extras, "encoding": enc, "tags": risky(tags)}
            oracle = schema_oracle(path)
            n0 = len(ctx.oracle_failures)
            impl, db, exc = C.compare_db_dump(ctx, path, "db.open", with_trees=False)
            if db is None:
                # which statement does it?
                culprit = classify_rejection(path, oracle)
                ctx.oracle_fail("db-rejected", f"a database written by SQLite is rejected because of a schema row ({impl})",
                                dict(case, culprit=culprit, tags=sorted(set(case["tags"]) | culprit_tags(culprit))), impl, "accepted")
                C.keep_failing_files(ctx, n0, path)
                continue
            ents = db.master_schema.master_schema_entries
            compare_entries(ctx, ents, oracle, case)
            for e in ents:
                if isinstance(e, OrdinaryTableRow):
                    ctx.evals += 1
                    got = guarded(lambda: show_row(e))
                    want = impl_table(e.sql, e.name, e.table_name)
                    if got != want:
                        ctx.disagreements.append({"label": "Database vs direct OrdinaryTableRow", "op": e.sql[:300], "impl": got, "model": want})
                    if e.name.startswith("sqlite_") != e.internal_schema_object:
                        ctx.oracle_fail("internal", "internal schema object flag wrong", dict(case, name=e.name), e.internal_schema_object, e.name)
                    if e.name.startswith("sqlite_"):
                        ctx.branch("db:internal-table:" + e.name)
                elif isinstance(e, VirtualTableRow):
                    ctx.branch("db:virtual-table")
                else:
                    ctx.branch("db:" + e.row_type)
            C.keep_failing_files(ctx, n0, path)
    finally:
        sc.close()
    ctx.extra["databases_parsed"] = done


def classify_rejection(path, oracle):
    """first schema row whose statement alone (in a fresh database) is also rejected"""
    for (ty, name, tbl, root, sql) in oracle:
        if ty == "table" and sql and sql.startswith("CREATE TABLE"):
            r = impl_table(sql, name, tbl)
            if not r.startswith("ok"):
                return {"type": ty, "sql": sql, "impl": r}
    for (ty, name, tbl, root, sql) in oracle:
        if ty != "table" or (sql or "").startswith("CREATE VIRTUAL"):
            return {"type": ty if ty != "table" else "virtual", "sql": sql, "impl": "?"}
    return None


def culprit_tags(c):
    if not c:
        return set()
    return {"row:" + c["type"]}


# ---------------------------------------------------------------------- index / table names in CREATE INDEX rows
NAME_TEXTS = ["i", "t1", "Name", "a b", "a,b", "a(b", "a)b", "a.b", "é", "1a", "select", "on", "a;b", "x'y", 'x"y', "x`y", "x[y"]


def random_name(r, used):
    """an identifier in a random quoting style; about a third contain the quote character of their own style"""
    for _ in range(50):
        style = r.choice(["plain", "dq", "dq", "sq", "bt", "br"])
        if style == "plain":
            i = G.ident(r.choice(["i", "t1", "Name", "x_1", "k", "é"]) + str(len(used)))
        elif style != "br" and r.random() < 0.5:
            i = G.ident(r.choice(G.DOUBLED).replace("Q", G.QUOTE[style][1]), style)
        else:
            i = G.ident(r.choice(NAME_TEXTS), style)
        if style == "br" and "]" in i["t"]:
            continue
        key = ascii_lower(i["t"])
        if key in used or key.startswith("sqlite_") or i["t"].strip() != i["t"] or i["t"] == "":
            continue
        used.add(key)
        return i
    i = G.ident(f"n{len(used)}")
    used.add(i["t"])
    return i


def index_section(ctx, n=None):
    """IndexRow reads the index name and the table name of CREATE INDEX with the same function as table names:
    databases whose tables and indexes carry names in every quoting style (doubled quote characters included) must be
    accepted with the rows of sqlite_master (the row class compares the parsed names with the name columns itself)"""
    r = ctx.rng
    sc = C.Scratch()
    n = n or (60 if ctx.thorough() else 12)
    try:
        for i in range(n):
            path = sc.path(f"x{i}.db")
            con = sqlite3.connect(path, isolation_level=None)
            con.execute(f"PRAGMA encoding='{F.ENCODINGS[i % 3]}'")
            used = set()
            stmts = []
            for _ in range(r.randint(1, 3)):
                tn = random_name(r, used)
                cn = random_name(r, set())
                stmts.append(f"CREATE TABLE {G.ident_text(tn)} ({G.ident_text(cn)} INT, other TEXT)")
                for _ in range(r.randint(1, 2)):
                    xn = random_name(r, used)
                    sep1, sep2 = r.choice([" ", " ", "\n", "\t"]), r.choice([" ", " ", "\n", ""])
                    stmts.append(f"CREATE {r.choice(['', 'UNIQUE '])}INDEX {G.ident_text(xn)}{sep1}ON {G.ident_text(tn)}{sep2}({G.ident_text(cn)})")
            done = []
            for st in stmts:
                try:
                    con.execute(st)
                    done.append(st)
                except sqlite3.Error:
                    ctx.branch("index:sqlite-rejects")
            con.close()
            tags = set()
            for st in done:
                for q in "\"'`":
                    if q + q in st:
                        tags.add("name:doubled-quote")
            case = {"statements": done, "encoding": F.ENCODINGS[i % 3], "tags": sorted(tags)}
            oracle = schema_oracle(path)
            n0 = len(ctx.oracle_failures)
            for (ty, name, tbl, root, sql) in oracle:
                if ty == "table":
                    # the table rows through the model as well
                    if in_model_text(sql):
                        ctx.differential([(op_table(sql, name, tbl), impl_table(sql, name, tbl))], "ddl.table/index-db")
                if ty == "index" and sql:
                    ctx.branch("index:row")
                    if any(q + q in sql for q in "\"'`"):
                        ctx.branch("index:doubled-quote")
            _drop_outside(ctx, "ddl.table/index-db")
            impl, db, exc = C.compare_db_dump(ctx, path, "db.open", with_trees=False)
            if db is None:
                ctx.oracle_fail("db-rejected", f"a database written by SQLite is rejected because of a schema row ({impl})",
                                case, impl, "accepted")
            else:
                compare_entries(ctx, db.master_schema.master_schema_entries, oracle, case)
                for e in db.master_schema.master_schema_entries:
                    if isinstance(e, OrdinaryTableRow):
                        ctx.evals += 1
                        want = [x[0] for x in sqlite3.connect(path).execute("SELECT name FROM pragma_table_xinfo(?)", (e.name,))]
                        got = [c.column_name for c in e.column_definitions]
                        ctx.mark(("index-db-cols", e.sql))
                        if got != want:
                            ctx.oracle_fail("columns", "column names/order differ from PRAGMA table_xinfo", dict(case, sql=e.sql), got, want)
            C.keep_failing_files(ctx, n0, path)
    finally:
        sc.close()


# ---------------------------------------------------------------------- histories
def timeline_expected(snapshots, modified_flags):
    """what a faithful schema timeline reports: per version with a schema change, entries added / removed / re-rooted
    relative to the previous version (identity = type, name, tbl_name, sql)"""
    out = []
    prev = {}
    for k, snap in enumerate(snapshots):
        cur = {(t, n, tb, sql): root for (t, n, tb, root, sql) in snap["schema"]}
        if k == 0 or modified_flags[k]:
            for key, root in cur.items():
                if key not in prev:
                    out.append((k, "Added", key[1], root))
                elif prev[key] != root:
                    out.append((k, "Updated", key[1], root))
            for key, root in prev.items():
                if key not in cur:
                    out.append((k, "Removed", key[1], root))
            prev = cur
    return out


TL = re.compile(r"^Version: (\d+) (Added|Updated|Removed) Master Schema Entry: Root Page Number(?: From: \d+ To)?: (\d+) Type: (\S+) Name: (.*?) Table Name: ", re.M)


def ddl_history(base, cfg, r, steps):
    """a WAL history whose commits are the given DDL statements (each one commit)"""
    work = base + ".work.db"
    for suffix in ("", "-wal", "-shm"):
        if os.path.exists(work + suffix):
            os.unlink(work + suffix)
    con = F.connect(work, dict(cfg, journal_mode="WAL"))
    con.execute("PRAGMA wal_autocheckpoint=0")
    con.execute("PRAGMA synchronous=OFF")
    keeper = sqlite3.connect(work, isolation_level=None)
    keeper.execute("PRAGMA wal_autocheckpoint=0")
    con.execute("CREATE TABLE base0 (a INTEGER PRIMARY KEY, b TEXT)")
    con.execute("INSERT INTO base0 VALUES (1, 'x')")
    con.execute("PRAGMA wal_checkpoint(TRUNCATE)")
    h = H.History()
    h.cfg = cfg
    h.kind = "ddl-steps"
    h.snapshots.append(H.snapshot(con, {}))
    for s in steps:
        con.execute("BEGIN")
        for stmt in s:
            con.execute(stmt)
        con.execute("COMMIT")
        h.events.append("; ".join(s)[:80])
        h.snapshots.append(H.snapshot(con, {}))
    import shutil
    h.db = base + ".h.db"
    h.wal = base + ".h.db-wal"
    shutil.copyfile(work, h.db)
    shutil.copyfile(work + "-wal", h.wal)
    con.close()
    keeper.close()
    for suffix in ("", "-wal", "-shm"):
        if os.path.exists(work + suffix):
            os.unlink(work + suffix)
    return h


def random_ddl_steps(r, n):
    tables, indexes, views, steps = [], [], [], []
    k = 0
    for _ in range(n):
        k += 1
        choice = r.choice(["create", "create", "index", "drop", "alter", "view", "dropidx", "insert", "rename", "vacuumish"])
        if choice == "create" or not tables:
            steps.append([f"CREATE TABLE h{k} (a INTEGER, b TEXT)", f"INSERT INTO h{k} VALUES (1, 'x')"])
            tables.append(f"h{k}")
        elif choice == "index":
            steps.append([f"CREATE INDEX hi{k} ON {r.choice(tables)} (b)"])
            indexes.append(f"hi{k}")
        elif choice == "drop":
            t = tables.pop(r.randrange(len(tables)))
            steps.append([f"DROP TABLE {t}"])
            indexes = []   # conservatively forget (indexes of the dropped table vanish)
        elif choice == "alter":
            steps.append([f"ALTER TABLE {r.choice(tables)} ADD COLUMN x{k} INT"])
        elif choice == "view":
            steps.append([f"CREATE VIEW hv{k} AS SELECT a FROM {r.choice(tables)}"])
            views.append(f"hv{k}")
        elif choice == "dropidx" and indexes:
            steps.append([f"DROP INDEX IF EXISTS {indexes.pop()}"])
        elif choice == "rename":
            t = tables.pop(r.randrange(len(tables)))
            if views:
                steps.append([f"DROP VIEW IF EXISTS {v}" for v in views])
                views = []
            steps.append([f"ALTER TABLE {t} RENAME TO r{k}"])
            tables.append(f"r{k}")
            indexes = []
        else:
            steps.append([f"INSERT INTO {r.choice(tables)} (a) VALUES ({k})"])
    return steps


def check_history(ctx, h, case):
    n0 = len(ctx.oracle_failures)
    impl, vh, exc = C.compare_history_dump(ctx, h.db, h.wal, "vh.dump", with_trees=False)
    if vh is None:
        msg = str(exc)[:160] if exc is not None else ""
        tags = []
        ctx.oracle_fail("history-rejected", f"a DDL history written by SQLite is rejected ({impl.split(chr(2))[0][:80]})",
                        dict(case, error=msg, tags=tags), impl[:200], "accepted")
        C.keep_failing_files(ctx, n0, h.db, h.wal)
        return
    versions = vh.versions
    if len(versions) != len(h.snapshots):
        ctx.oracle_fail("history-versions", "number of versions differs from the number of commits", case, len(versions), len(h.snapshots))
        C.keep_failing_files(ctx, n0, h.db, h.wal)
        return
    flags = {}
    for k, v in versions.items():
        snap = h.snapshots[k]
        try:
            ents = v.master_schema.master_schema_entries
        except Exception as e:  # noqa
            ctx.oracle_fail("history-schema-rejected", f"schema of version {k} unreadable: {classify(e)}", dict(case, version=k), classify(e), "readable")
            continue
        compare_entries(ctx, ents, snap["schema"], dict(case, version=k),
                        what="schema entries of a WAL version differ from sqlite_master after that commit")
        changed = k == 0 or sorted(snap["schema"]) != sorted(h.snapshots[k - 1]["schema"])
        flags[k] = bool(v.master_schema_modified)
        ctx.mark(("schema-modified", k, changed))
        if changed and not v.master_schema_modified:
            ctx.oracle_fail("schema-modified", "a commit that changed sqlite_master is not flagged master_schema_modified",
                            dict(case, version=k), False, True)
    # the timeline rendering
    text = guarded(lambda: stringify_master_schema_versions(vh))
    got = [(int(m.group(1)), m.group(2), m.group(5), int(m.group(3))) for m in TL.finditer(text)]
    want = timeline_expected(h.snapshots, flags)
    ctx.mark(("timeline", tuple(want)))
    if sorted(got) != sorted(want):
        extra = [g for g in got if g not in want]
        missing = [w for w in want if w not in got]
        rerep = [g for g in extra if g[1] == "Removed" and any(w[1] == "Removed" and w[2] == g[2] and w[0] < g[0] for w in want)]
        tags = []
        if extra and len(rerep) == len(extra) and not missing:
            tags = ["timeline:removed-entry-reported-again"]
        ctx.oracle_fail("timeline", "schema timeline (stringify_master_schema_versions) differs from the commits that changed the schema",
                        dict(case, tags=tags, extra=extra[:6], missing=missing[:6]), got[:12], want[:12])
    C.keep_failing_files(ctx, n0, h.db, h.wal)


def history_section(ctx, n=None):
    r = ctx.rng
    sc = C.Scratch()
    n = n or (60 if ctx.thorough() else 10)
    try:
        for i in range(n):
            cfg = F.random_cfg(r, page_sizes=[512, 1024, 4096], small=True)
            cfg["encoding"] = F.ENCODINGS[i % 3]
            if i % 6 == 0:
                # schema + encoding established inside the WAL: cycle the encodings, UTF-16be first
                cfg["encoding"] = ["UTF-16be", "UTF-16le", "UTF-8"][(i // 6) % 3]
            if i % 2 == 0:
                try:
                    # (k % 4 == 3 drops the first d-table; the shared generator forgets it: at most 7 commits)
                    # every third of these establishes schema, schema format and encoding inside the WAL
                    if i % 6 == 2 or i % 12 == 4:
                        cfg["page_size"] = 512       # many schema rows on small pages: interior root, several leaves
                    h = H.make_history(sc.path(f"h{i}"), cfg, r, n_commits=r.randint(3, 7),
                                       kind="fresh_wal" if i % 6 == 0 else ("wide_schema" if i % 6 == 2 else ("schema_overflow" if i % 12 == 4 else "ddl")))
                except sqlite3.Error as e:
                    ctx.notes.append(f"history generator error skipped: {e}")
                    continue
                case = {"kind": "ddl", "cfg": cfg, "events": h.events, "seed": ctx.seed}
            else:
                steps = random_ddl_steps(r, r.randint(3, 9))
                try:
                    h = ddl_history(sc.path(f"h{i}"), cfg, r, steps)
                except sqlite3.Error as e:
                    ctx.notes.append(f"history generator error skipped: {e}")
                    continue
                case = {"kind": "ddl-steps", "cfg": cfg, "steps": steps, "seed": ctx.seed}
            ctx.branch("history:" + case["kind"])
            if h.wal is None:
                continue
            check_history(ctx, h, case)
    finally:
        sc.close()


# create, drop, then two schema changes that allocate no page (views): the freelist stays at one page
FIXED_TIMELINE_STEPS = [["CREATE TABLE gone (a)"], ["DROP TABLE gone"], ["CREATE VIEW later1 AS SELECT 1"],
                        ["CREATE VIEW later2 AS SELECT 2"]]
# create, drop, create: the freed root page is reused, the freelist count goes 1 -> 0 inside the WAL
FIXED_FREELIST_STEPS = [["CREATE TABLE gone (a)"], ["DROP TABLE gone"], ["CREATE TABLE later1 (a)"], ["CREATE TABLE later2 (a)"]]
FIXED_CFG = {"page_size": 1024, "encoding": "UTF-8", "auto_vacuum": 0}


def fixed_history(ctx):
    """the minimal history for the removed-entry re-report, with and without reuse of the freed root page"""
    sc = C.Scratch()
    try:
        for j, steps in enumerate((FIXED_TIMELINE_STEPS, FIXED_FREELIST_STEPS)):
            h = ddl_history(sc.path(f"fixed{j}"), FIXED_CFG, ctx.rng, steps)
            check_history(ctx, h, {"kind": "ddl-steps", "steps": steps, "cfg": FIXED_CFG})
    finally:
        sc.close()


# names SQLite keeps apart although a Unicode-aware case fold identifies them (SQLite folds A-Z only), names that differ
# from another object's name in ASCII case only where SQLite allows it (a trigger / an index column), one schema per list
NAME_SCHEMAS = [
    ['CREATE TABLE "Ärzte" (a INTEGER, b TEXT)', 'CREATE TABLE "ärzte" (c, d)', 'CREATE INDEX "Ärzte_i" ON "Ärzte" (a)',
     'CREATE INDEX "ärzte_i" ON "ärzte" (c)'],
    ['CREATE TABLE "Übersicht" (a)', 'CREATE VIEW "übersicht" AS SELECT a FROM "Übersicht"',
     'CREATE TRIGGER "ÜBERSICHT" AFTER INSERT ON "Übersicht" BEGIN SELECT 1; END'],
    ['CREATE TABLE "ǅ" (a)', 'CREATE TABLE "ǆ" (a)', 'CREATE TABLE "Ǆ" (a)', 'CREATE TABLE "ß" (a)', 'CREATE TABLE "ẞ" (a)',
     'CREATE TABLE "İ" (a)', 'CREATE TABLE "i̇" (a)'],
]


def name_section(ctx):
    sc = C.Scratch()
    try:
        for i, stmts in enumerate(NAME_SCHEMAS):
            for enc in F.ENCODINGS:
                path = sc.path(f"names{i}_{enc}.db")
                con = sqlite3.connect(path, isolation_level=None)
                con.execute(f"PRAGMA encoding='{enc}'")
                for st in stmts:
                    con.execute(st)
                con.close()
                case = {"ddl": stmts, "encoding": enc, "tags": ["names:non-ascii-case"]}
                oracle = schema_oracle(path)
                n0 = len(ctx.oracle_failures)
                ctx.evals += 1
                impl, db, exc = C.compare_db_dump(ctx, path, "db.open", with_trees=False)
                ctx.branch("names:non-ascii-case")
                if db is None:
                    ctx.oracle_fail("db-rejected", f"a database written by SQLite is rejected because of a schema row ({impl})",
                                    case, impl, "accepted")
                    C.keep_failing_files(ctx, n0, path)
                    continue
                compare_entries(ctx, db.master_schema.master_schema_entries, oracle, case)
    finally:
        sc.close()


# ====================================================================== entry points
def run(ctx):
    name_section(ctx)
    check_constants(ctx)
    scalar_ops(ctx)
    affinity_section(ctx)
    ddl_section(ctx)
    mutated_tables(ctx)
    database_section(ctx)
    index_section(ctx)
    R.section(ctx)
    fixed_history(ctx)
    history_section(ctx)


def search(ctx, broken):
    ctx.tier = "thorough"
    check_constants(ctx)
    scalar_ops(ctx)
    affinity_section(ctx)
    ddl_section(ctx, 20000)
    database_section(ctx, 100)
    index_section(ctx, 60)
    R.section(ctx, 400)
    history_section(ctx, 30)


def replay(ctx, data):
    f = data.get("failure") or {}
    case = f.get("case", {})
    if "rows_statements" in case:
        R.replay_case(ctx, case)
    elif "ddl" in case and "extras" not in case:
        run = DdlRun(ctx)
        info, impl, verdict = run.eval_text(case["ddl"])
        ctx.mark(("replay", case["ddl"]))
        if info is None:
            ctx.notes.append("replayed statement is rejected by SQLite: " + case["ddl"][:100])
        elif verdict is not None:
            ctx.oracle_fail(verdict[0], verdict[1], {"ddl": case["ddl"], "stored_sql": info["sql"], "tags": case.get("tags", []),
                                                     "replayed": True}, verdict[2], verdict[3])
        run.finish("replay")
        _drop_outside(ctx, "replay")
    elif "declared_type" in case:
        t = case["declared_type"]
        impl = impl_affinity(t)
        ctx.differential([(f"ddl.affinity {hx(t.encode())}", impl)], "replay")
        want = "ok " + spec_affinity(t)
        if impl.rsplit(" ", 1)[0] != want:
            ctx.oracle_fail("affinity-fn", f.get("what"), case, impl, want)
    elif case.get("kind") == "ddl-steps" and "steps" in case:
        sc = C.Scratch()
        try:
            h = ddl_history(sc.path("replay"), case.get("cfg") or {"page_size": 1024, "encoding": "UTF-8", "auto_vacuum": 0},
                            ctx.rng, case["steps"])
            check_history(ctx, h, {"kind": "ddl-steps", "steps": case["steps"], "cfg": case.get("cfg")})
        finally:
            sc.close()
    else:
        files = C.replay_files(data)
        if files and len(files) == 1:
            oracle = schema_oracle(files[0])
            impl, db, exc = C.compare_db_dump(ctx, files[0], "db.open", with_trees=False)
            if db is None:
                ctx.oracle_fail("db-rejected", "a database written by SQLite is rejected because of a schema row", case, impl, "accepted")
            else:
                compare_entries(ctx, db.master_schema.master_schema_entries, oracle, case)
        else:
            ctx.notes.append("replay of this case kind re-runs the generators")
            run(ctx)


# ====================================================================== known findings
def _tags(f):
    return set((f.get("case") or {}).get("tags") or [])


def _only(f, kinds, required_prefixes, allowed_prefixes=()):
    """failure kind in kinds, at least one tag with each required prefix, no risky tag outside required/allowed"""
    if f.get("kind") not in kinds:
        return False
    tg = _tags(f)
    for p in required_prefixes:
        if not any(t.startswith(p) for t in tg):
            return False
    ok = tuple(required_prefixes) + tuple(allowed_prefixes)
    return all(t.startswith(ok) for t in tg)


_ANYKIND = ("rejected", "columns", "affinity", "without-rowid")

# Matchers exist only for the findings that are still open.  The minimal statements of the repaired ones
# (C07-01, -02, -04, -05, -06, -07, -08, -10, -11, -12, -14, -15, -16, -18) stay in corpus/C07: if one of them fails again nothing
# here matches it and the run reports a VIOLATION.
MATCHERS = {
    "c07_strict": lambda f: _only(f, ("rejected",), ["trailer:strict"]),
    "c07_slash_dashdash_in_expr": lambda f: (_only(f, ("rejected",), ["expr:slash"], ["expr:"]) or _only(f, ("rejected",), ["expr:dashdash"], ["expr:"])
                                             or _only(f, ("rejected",), ["ident:comment-chars"]) or _only(f, ("rejected",), ["table-ident:comment-chars"])
                                             or R.MATCHERS["c07_rows_slash"](f)),
    "c07_generated_comment_type": lambda f: _only(f, ("affinity",), ["cons:generated", "cmt:cons-inner"],
                                                  ["cmt2:cons-inner", "cmtonly:cons-inner", "cmtadj:cons-inner", "ws1:cons-inner",
                                                   "wsrun:cons-inner", "slash-star-slash:cons-inner"]),
    "c07_empty_table_name": lambda f: _only(f, ("rejected",), ["table-ident:empty"], ["table-quote:"]) or R.MATCHERS["c07_rows_empty_name"](f),
    "c07_ident_whitespace": (lambda f: _only(f, _ANYKIND, ["ident:whitespace"]) or _only(f, _ANYKIND, ["table-ident:whitespace"])
                             or R.MATCHERS["c07_rows_ident_whitespace"](f)),
    # (C07-20, C07-21, C07-22 - comments around ON of CREATE INDEX, a trailing comment ended by the end of the statement,
    # a virtual table without argument list - are repaired: their witnesses stay in corpus/C07 and in c07rows.FIXED_REPAIRED)
}
