"""C09 — intact deleted records are recovered with their original values."""
import json
import os
import re

from sqlite_dissect import interface
from sqlite_dissect.carving.rollback_journal_carver import RollBackJournalCarver
from sqlite_dissect.carving.utilities import generate_signature_regex
from sqlite_dissect.constants import CELL_SOURCE
from sqlite_dissect.file.journal.jounal import RollbackJournal

from ..impl.canon import classify, err, hx
from . import c08 as P8
from . import carvecommon as K
from . import dbcommon as C

ID = "C09"
LEAN_MODULES = ["SqliteDissect.Properties.C09", "SqliteDissect.Properties.C09Freeblock", "SqliteDissect.Properties.GenFun"]
TRANSLATORS = list(P8.TRANSLATORS)
RULE = ("deletion grid: page size x column shape (integer/text/real, rowid alias first, text first with equal and with "
        "varying lengths, constant-width first column, single column, blob first, rowids above 127) x position in the page "
        "(first, middle, last inserted, a run, all rows) x residue location (freeblock, merged unallocated area, emptied "
        "root, freelist page, journal pre-image; database file and WAL frames). For every deleted row an independent reader "
        "locates the row's cell in the file before the deletion and compares the bytes after it: kept when serial types "
        "(all, or all but the first) and the whole body are unchanged and lie in one region the carver looks at, and when "
        "Python re with the real signature regex finds exactly that header (no other match overlapping it). Then "
        "interface.carve_table, the version-history iterator with freelist carving and RollBackJournalCarver.carve must "
        "report a record with the deleted row's values (the first column only when its serial type is the same for every "
        "row or, in a freeblock that is exactly the freed cell, determined by the freeblock size). The same runs are "
        "compared with the model (carve.table / carve.iter / carve.journal). non-trivial = deleted rows that passed the "
        "preconditions and were looked for")
ASSUMPTIONS = list(P8.ASSUMPTIONS) + [
    "a deleted row is looked for only when its record does not overflow and its first serial type is a one-byte varint",
    "the values SQLite reported for the row before the deletion (typeof / hex) are the expected values; REAL columns hold non-integral values in the grid (an integral REAL is stored as an integer)",
]
TRUSTED_EXTRA = list(P8.TRUSTED_EXTRA)


# ------------------------------------------------------------------------------------ grid
def shape_rows(shape, i, r):
    """values of row i (1-based) of a shape; deterministic apart from r"""
    if shape == "int_text_real":
        return ([7 + i % 100, 300 + i, 70000 + i, 2 ** 33 + i][i % 4], "row%03d" % i, i + 0.5)
    if shape == "int_longtext":                   # another column's serial type takes two bytes (text of 58..110 bytes)
        return ([7 + i % 100, 300 + i, 70000 + i, 2 ** 33 + i][i % 4], "L%03d-" % i + "w" * (54 + (i * 7) % 50))
    if shape == "int2_text":                      # first column always a 2-byte integer
        return (1000 + i, "name-%d" % i)
    if shape == "alias_text":
        return (None, "alias-%d-%s" % (i, "x" * (i % 7)))
    if shape == "text5_int":                      # first column text, same length in every row
        return ("k%04d" % i, i * 3 + 1000)
    if shape == "textvar_int":                    # first column text of varying length
        return ("k%d%s" % (i, "y" * (i % 5)), 1000 + i)
    if shape == "single_int":
        return ([5, 300, 70000, 2 ** 40][i % 4] + i,)
    if shape == "single_text":
        return ("only-%d" % i,)
    if shape == "blob_text_int":
        return (bytes([i % 251 + 1]) * (1 + i % 6), "t%d" % i, 2000 + i)
    if shape == "bool_text":                      # first column 0/1: serial types 8 and 9, both of size 0
        return (i % 2, "flag-%d" % i)
    if shape == "flags":                          # every column 0/1 (serial types 8/9): the record body is empty
        return (1,) + tuple(((i * 37) >> k) & 1 for k in range(5))      # (first column the same in every row)
    if shape == "tiny_int":                       # first column 0 / 1 / a one-byte integer: serial types 8, 9 (no content) and 1
        return ([5, 0, 1, 0, 7, 1][i % 6], 40 + i % 80)
    if shape == "nullable":
        return (None if i % 3 == 0 else 100 + i, "n%d" % i, None if i % 4 == 0 else "z" * (i % 9))
    raise KeyError(shape)


DECLS = {
    "int_text_real": "a INTEGER, b TEXT, c REAL",
    "int_longtext": "a INTEGER, b TEXT",
    "int2_text": "a INTEGER, b TEXT",
    "alias_text": "a INTEGER PRIMARY KEY, b TEXT",
    "text5_int": "a TEXT, b INTEGER",
    "textvar_int": "a TEXT, b INTEGER",
    "single_int": "a INTEGER",
    "single_text": "a TEXT",
    "blob_text_int": "a BLOB, b TEXT, c INTEGER",
    "bool_text": "a INTEGER, b TEXT",
    "nullable": "a INTEGER, b TEXT, c TEXT",
    "tiny_int": "a INTEGER, b INTEGER",
    "flags": "a INTEGER, b INTEGER, c INTEGER, d INTEGER, e INTEGER, f INTEGER",
}
SHAPES = list(DECLS)
POSITIONS = ["first", "middle", "last", "two_apart", "run", "all"]
MODES = ["db", "wal", "journal"]


def grid_spec(shape, ps, nrows, position, mode, r, enc="UTF-8", auto_vacuum=0, rowid_base=0):
    """rowid_base: the rows get the explicit row ids rowid_base + 1 … (three-byte row id varints from 16384 on: the first
    serial type of a freed cell then lies two bytes behind the freeblock header)"""
    setup = [f"CREATE TABLE t({DECLS[shape]})"]
    names = [d.split()[0] for d in DECLS[shape].split(", ")]
    for i in range(1, nrows + 1):
        vals = ",".join(P8.q(v) for v in shape_rows(shape, i, r))
        if rowid_base:
            setup.append(f"INSERT INTO t(rowid,{','.join(names)}) VALUES({rowid_base + i},{vals})")
        else:
            setup.append(f"INSERT INTO t VALUES({vals})")
    b = rowid_base
    mid = max(1, nrows // 2)
    if position == "first":
        dele = [f"DELETE FROM t WHERE rowid={b + 1}"]
    elif position == "middle":
        dele = [f"DELETE FROM t WHERE rowid={b + mid}"]
    elif position == "last":
        dele = [f"DELETE FROM t WHERE rowid={b + nrows}"]
    elif position == "two_apart":
        dele = [f"DELETE FROM t WHERE rowid={b + max(1, mid - 2)}", f"DELETE FROM t WHERE rowid={b + min(nrows, mid + 2)}"]
    elif position == "run":
        dele = [f"DELETE FROM t WHERE rowid BETWEEN {b + mid} AND {b + min(nrows, mid + max(2, nrows // 3))}"]
    else:
        dele = ["DELETE FROM t"]
    return {"page_size": ps, "mode": mode, "shape": shape, "position": position, "setup": setup, "steps": [dele],
            "encoding": enc, "auto_vacuum": auto_vacuum, "rowid_base": rowid_base}


def grid(ctx):
    r = ctx.rng
    out = []
    pss = [512, 1024, 4096] + ([65536] if ctx.thorough() else [])
    sizes = [4, 9, 40, 160] if ctx.thorough() else [4, 40, 160]
    for shape in SHAPES:
        for pos in POSITIONS:
            for mode in MODES:
                out.append((shape, pos, mode))
    r.shuffle(out)
    n = len(out) if ctx.thorough() else 66
    specs = []
    for i, (shape, pos, mode) in enumerate(out[:n] if not ctx.thorough() else out * 3):
        ps = pss[i % len(pss)]
        nrows = sizes[(i // len(pss)) % len(sizes)]
        enc = "UTF-16le" if i % 7 == 3 else "UTF-8"
        specs.append(grid_spec(shape, ps, nrows, pos, mode, r, enc))
    return specs


# ------------------------------------------------------------------------------------ the independent reader
def sig_regexes(sig):
    cols = sig.simplified_signature or sig.recommended_schema_signature
    return re.compile(generate_signature_regex(cols)), re.compile(generate_signature_regex(cols, True)), cols


def judge(pre_cell, pre_page, post_page, region, sig, first_types):
    """decide whether the deleted row's record is intact inside `region` of the post image and unambiguous for the
    signature; returns None (not a case for the property) or dict(expect_first, s, e, how)"""
    kind, r0, r1 = region[0], region[1], region[2]
    hs, he, be = pre_cell["hs"], pre_cell["he"], pre_cell["be"]
    types = pre_cell["types"]
    if not pre_cell["local"] or not types or types[0] >= 128:
        return None
    if be > r1 or he < r0:
        return None
    first_len = 1
    rest_intact = post_page[hs + first_len:be] == pre_page[hs + first_len:be]
    if not rest_intact:
        return None
    first_intact = post_page[hs:hs + 1] == pre_page[hs:hs + 1] and hs >= r0
    full_rx, part_rx, cols = sig_regexes(sig)
    if len(cols) != len(types):
        return None
    data = bytes(post_page[r0:r1])
    fm = [(m.start() + r0, m.end() + r0) for m in full_rx.finditer(data)] if kind != "freeblock" else []
    pm = [(m.start() + r0, m.end() + r0) for m in part_rx.finditer(data)]
    how = None
    if first_intact and kind != "freeblock":
        if (hs, he) not in fm:
            return {"skip": "full-signature-does-not-match-unambiguously"}
        how = "full"
    else:
        if hs + first_len < r0:
            return None
        if (hs + first_len, he) in pm and not any(a < he and hs + first_len < b for (a, b) in fm):
            how = "partial"
    if how is None:
        return {"skip": "ambiguous-or-not-admitted"}
    exact_fb = kind == "freeblock" and region[3] == pre_cell["start"] and region[4] == pre_cell["payload_end"] - pre_cell["start"]
    same = len(first_types) == 1
    lost = K.serial_size(types[0])
    simp0 = types[0] if types[0] < 12 else (-1 if types[0] % 2 == 0 else -2)
    if simp0 not in cols[0]:
        return {"skip": "first-serial-type-not-in-signature"}
    # candidates the signature leaves for a first column of `lost` content bytes
    cands = [t for t in cols[0] if t < 0 or K.serial_size(t) == lost]
    by_size = exact_fb and len(cands) == 1
    expect_first = True
    undetermined = False
    if how == "partial":
        expect_first = first_intact or same or by_size
        if not expect_first:
            if kind != "freeblock":
                return {"skip": "first-column-undetermined"}
            # the first column cannot be known, but every other column still can: the record must be reported with the
            # stored values in the columns after the first (a wrong guess of a different width shifts them all: C09-07)
            undetermined = True
    # offset of the partial match inside the freeblock content (0: the first serial type was overwritten by the freeblock
    # header, 1: it is the byte in front of the match, >= 2: further bytes of the cell header survived in front of it)
    match_offset = (hs + first_len - (pre_cell["start"] + 4)) if kind == "freeblock" else None
    return {"how": how, "expect_first": expect_first, "same": same, "by_size": by_size, "exact_freeblock": exact_fb,
            "first_intact": first_intact, "kind": kind, "hs": hs, "he": he, "match_offset": match_offset,
            "undetermined": undetermined}


def values_of(cell):
    return [K.show_value(c) for c in cell.payload.record_columns]


def looks_for(cells, want, expect_first):
    for c in cells:
        got = values_of(c)
        if len(got) != len(want):
            continue
        if got[1:] == want[1:] and (got[0] == want[0] or not expect_first):
            return c
    return None


# ------------------------------------------------------------------------------------ one scenario
def check_scenario(ctx, sc_dir, spec, tag):
    try:
        sc = K.build_scenario(sc_dir, spec, tag, snapshots=True)
    except Exception as e:  # noqa
        ctx.notes.append(f"scenario generator error: {e}")
        return
    ctx.branch(f"grid:{spec['mode']}:{spec.get('shape')}:{spec.get('position')}")
    case = {"tag": tag, "spec": spec if len(json.dumps(spec)) < 2500 else
            {k: spec[k] for k in ("page_size", "mode", "shape", "position", "encoding", "rowid_base") if k in spec} | {"too_long": True,
             "nrows": len(spec["setup"]) - 1, "steps": spec["steps"]}}
    # correspondence with the model on the same files (and the C08 oracle's machinery stays in C08)
    try:
        d, vh = P8.open_history(sc.db, sc.wal)
        sig = interface.create_table_signature("t", d, vh)
    except Exception as e:  # noqa
        ctx.branch("open-or-signature-failed:" + classify(e))
        return
    entry = [e for e in P8.rowid_entries(d) if e.name == "t"][0]
    toks = K.sig_tokens(sig)
    nhex = hx("t".encode(d.database_text_encoding or "utf-8"))
    last = max(vh.versions)
    files = P8.Files(sc.db, sc.wal)
    n0 = len(ctx.oracle_failures)
    # ---- run the three entry points once
    results = {}
    with K.CellTap():
        try:
            cells = interface.carve_table("t", sig, vh.versions[last])
            results["carve_table"] = (cells, None)
            out = "carve:" + K.show_cells(cells)
        except Exception as e:  # noqa
            results["carve_table"] = ([], e)
            out = "carve:" + err(e)
        K.differential(ctx, [(f"carve.table {sc.db} {sc.wal or '-'} {last} {nhex} {toks}", out)], "carve.table",
                       nontrivial=lambda l, o: ",cols=" in o)
        try:
            commits = list(interface.get_version_history_iterator("t", vh, sig, True))
            results["iterator"] = ([c for cm in commits for c in cm.carved_cells.values()], None)
            out = "iter:ok " + ("/".join(
                f"V{cm.version_number}:f{K.b01(cm.freelist_pages_carved)}:"
                + (";".join(K.show_cell(c) for c in cm.carved_cells.values()) if cm.carved_cells else "-")
                for cm in commits) if commits else "-")
        except Exception as e:  # noqa
            results["iterator"] = ([], e)
            out = "iter:" + err(e)
        K.differential(ctx, [(f"carve.iter {sc.db} {sc.wal or '-'} {nhex} 1 {toks}", out)], "carve.iter",
                       nontrivial=lambda l, o: ",cols=" in o)
        pre_dedup_journal = []
        if sc.journal:
            try:
                with K.CellTap() as jtap:
                    try:
                        jc = RollBackJournalCarver.carve(RollbackJournal(sc.journal), d, entry, sig)
                    finally:
                        pre_dedup_journal = [c for call in jtap.calls for c in (call.get("out") or [])]
                results["journal"] = ([c for cm in jc for c in cm.carved_cells.values()], None)
                out = "ok " + ("/".join(
                    f"t{13 if 'LEAF' in str(cm.page_type).upper() else 5}:"
                    + (";".join(K.show_cell(c) for c in cm.carved_cells.values()) if cm.carved_cells else "-")
                    for cm in jc) if jc else "-")
            except Exception as e:  # noqa
                results["journal"] = ([], e)
                out = err(e)
            K.differential(ctx, [(f"carve.journal {sc.journal} {d.page_size} {toks}", out)], "carve.journal",
                           nontrivial=lambda l, o: ",cols=" in o)
        # what the carver produced before the iterator's de-duplication (for the collision finding)
        with K.CellTap() as tap2:
            try:
                list(interface.get_version_history_iterator("t", vh, sig, True))
            except Exception:  # noqa
                pass
            pre_dedup = [c for call in tap2.calls for c in (call.get("out") or [])]
    # ---- the deleted rows and where they were
    deleted = [rid for rid in sc.rows[-2] if rid not in sc.rows[-1]]
    if not deleted:
        return
    pdb, pwal = sc.pre[-1]
    pre_files = P8.Files(pdb, pwal)
    kpre = len(pre_files.info["commits"]) if pre_files.info else 0
    root = K.table_root(pdb, "t") if not pwal else K.table_root(sc.db, "t")

    def read_pre(n):
        F, off, _ = pre_files.locate(kpre, n)
        return F[off:off + pre_files.ps]
    where = {}
    first_types = set()
    for leaf in K.table_leaves(read_pre, root):
        pg = read_pre(leaf)
        for c in K.leaf_cells(pg, leaf):
            where[c["rowid"]] = (leaf, c, pg)
            if c["types"]:
                first_types.add(c["types"][0])
    freelist = files.freelist_pages(last)
    for rid in deleted[:40]:
        if rid not in where:
            continue
        leaf, cell, pre_page = where[rid]
        want = sc.rows[-2][rid]
        # candidates: the page in the final version (b-tree regions or freelist page) and the journal pre-image
        targets = []
        try:
            F, poff, _ = files.locate(last, leaf)
            post_page = F[poff:poff + files.ps]
        except Exception:  # noqa
            post_page = b""
        if len(post_page) < files.ps:
            # the page was cut off the end of the file by the deleting transaction: only a journal pre-image is left
            ctx.branch("page-truncated-away")
        elif leaf in freelist:
            # a freelist leaf is carved whole; a trunk after its pointer array
            targets.append(("iterator", post_page, ("freelist", 0, files.ps)))
        else:
            lay = K.page_layout(post_page, leaf)
            if lay is not None:
                regs = [("unalloc", lay["unalloc"][0], lay["unalloc"][1])]
                regs += [("freeblock", fs + 4, fs + fz, fs, fz) for (fs, fz) in lay["freeblocks"]]
                for reg in regs:
                    targets.append(("carve_table", post_page, reg))
                    targets.append(("iterator", post_page, reg))
        if sc.journal:
            J = open(sc.journal, "rb").read()
            recsz = files.ps + 8
            off = 512
            while off + 4 + files.ps <= len(J):
                pn = int.from_bytes(J[off:off + 4], "big")
                if pn == leaf:
                    targets.append(("journal", J[off + 4:off + 4 + files.ps], ("journal", 0, files.ps)))
                off += recsz
        for entry_point, image, reg in targets:
            v = judge(cell, pre_page, image, reg, sig, first_types)
            if v is None:
                continue
            if "skip" in v:
                ctx.branch("precondition:" + v["skip"])
                continue
            ctx.mark(("deleted-row", tag, rid, entry_point, reg[0]))
            ctx.branch(f"looked-for:{entry_point}:{reg[0]}:{v['how']}")
            cells, exc = results.get(entry_point, ([], None))
            desc = dict(case, rowid=rid, entry=entry_point, location=reg[0], how=v["how"], want=want,
                        verdict={k: v[k] for k in ("expect_first", "same", "by_size", "exact_freeblock", "first_intact", "match_offset", "undetermined")},
                        page=leaf, page_rewritten_in_last_version=(leaf in set(vh.versions[last].updated_page_numbers)),
                        first_column_types=sorted(first_types)[:12],
                        first_column_variable=any(t >= 12 for t in first_types),
                        single_column=len(sig.simplified_signature or sig.recommended_schema_signature) == 1)
            if exc is not None:
                info = K.exc_info(exc)
                ctx.oracle_fail("carving-raised", f"an intact deleted record is not recovered because carving raised {info['class']}",
                                dict(desc, exc=info), err(exc), want)
                continue
            hit = looks_for(cells, want, v["expect_first"])
            if hit is not None:
                ctx.branch(f"recalled:{entry_point}:{reg[0]}:{v['how']}")
                ctx.extra["deleted_rows_recalled"] = ctx.extra.get("deleted_rows_recalled", 0) + 1
            if hit is None:
                extra = {}
                if entry_point in ("iterator", "journal"):
                    pre_hit = looks_for(pre_dedup if entry_point == "iterator" else pre_dedup_journal, want, v["expect_first"])
                    extra["found_before_dedup"] = pre_hit is not None
                    if pre_hit is not None:
                        extra["lost_digest_shared_with"] = sum(
                            1 for c in (pre_dedup if entry_point == "iterator" else pre_dedup_journal)
                            if c.md5_hex_digest == pre_hit.md5_hex_digest)
                near = [values_of(c) for c in cells if values_of(c)[1:] == want[1:]][:3]
                ctx.oracle_fail("not-recalled", "an intact, unambiguous deleted record is not reported with its values",
                                dict(desc, reported_with_same_tail=near, **extra), None, want)
    C.keep_failing_files(ctx, n0, sc.db, sc.wal, sc.journal)


WITNESSES = [
    # two deleted rows whose freeblock carvings share a digest (md5 of the last four content bytes)
    ("int_text_real", 1024, 20, "two_apart", "db"),
    # a text first column: lost in a freeblock / in the merged unallocated area
    ("text5_int", 1024, 20, "middle", "db"),
    ("single_text", 1024, 4, "last", "db"),
    # pages released to the freelist inside a WAL commit are not rewritten, hence never carved
    ("int_text_real", 512, 40, "all", "wal"),
]


# shapes every run must contain (beyond the shuffled grid)
FORCED = [
    # the first column's type must come from the freeblock size while another serial type is two bytes long
    ("int_longtext", 2048, 12, "two_apart", "db", 0),
    ("int_longtext", 4096, 30, "middle", "wal", 0),
    # the journaled transaction cut pages off the end of the file: their pre-images carry page numbers beyond the
    # database size, and that is where the deleted rows are
    ("int_text_real", 512, 160, "run", "journal", 1),
    ("int_text_real", 1024, 160, "all", "journal", 1),
    ("alias_text", 512, 160, "run", "journal", 2),
    # a record without body bytes: the freeblock holds nothing but the serial types after the first
    ("flags", 1024, 12, "two_apart", "db", 0),
    ("flags", 512, 40, "middle", "wal", 0),
    # a TEXT / BLOB first column whose serial type SURVIVES in the freeblock: the row id takes two bytes (128..16383), so
    # the first serial type is the fifth byte of the cell, behind the freeblock header
    # the freeblock size leaves two candidates for the lost first serial type (8 and 9, both without content) beside one of
    # another width (1): finding C09-07 when the fall-back picks the wider one
    ("tiny_int", 1024, 12, "two_apart", "db", 0),
    ("tiny_int", 512, 40, "run", "wal", 0),
    # (not the last row: a freed cell at the start of the content area becomes unallocated space, not a freeblock)
    ("textvar_int", 1024, 320, "two_apart", "db", 0),
    ("blob_text_int", 4096, 320, "middle", "wal", 0),
    ("text5_int", 512, 320, "two_apart", "db", 0),
]


# three-byte row ids (>= 16384): the freed cell keeps payload size, one row id byte and the header size in front of the first
# serial type, the partial match starts at offset 2 of the freeblock content.  TEXT / BLOB first columns: finding C09-06;
# the fixed-width first column is the control (recovered)
FORCED_ROWIDS = [
    ("textvar_int", 1024, 40, "two_apart", "db", 20000),
    ("blob_text_int", 4096, 40, "middle", "wal", 20000),
    ("int_text_real", 1024, 40, "two_apart", "db", 20000),
]


def run(ctx):
    sc = C.Scratch()
    try:
        for i, (shape, ps, n, pos, mode, base) in enumerate(FORCED_ROWIDS):
            check_scenario(ctx, sc.dir, grid_spec(shape, ps, n, pos, mode, ctx.rng, rowid_base=base), f"c09r{i}")
            ctx.branch(f"forced-rowid:{shape}:{mode}:{base}")
        for i, (shape, ps, n, pos, mode) in enumerate(WITNESSES):
            check_scenario(ctx, sc.dir, grid_spec(shape, ps, n, pos, mode, ctx.rng), f"c09w{i}")
        for i, (shape, ps, n, pos, mode, av) in enumerate(FORCED):
            spec = grid_spec(shape, ps, n, pos, mode, ctx.rng, auto_vacuum=av)
            if av:
                # delete the rows at the end of the table so that the file shrinks in the journaled transaction
                spec["steps"] = [[f"DELETE FROM t WHERE rowid > {n // 3}"] + (["PRAGMA incremental_vacuum"] if av == 2 else [])]
            check_scenario(ctx, sc.dir, spec, f"c09f{i}")
            ctx.branch(f"forced:{shape}:{mode}:av{av}")
        for i, spec in enumerate(grid(ctx)):
            check_scenario(ctx, sc.dir, spec, f"c09g{i}")
    finally:
        sc.close()
    ctx.oracle_failures.sort(key=lambda f: len(json.dumps(f.get("case"), default=str)))


def search(ctx, broken):
    ctx.tier = "thorough"
    run(ctx)


def replay(ctx, data):
    f = data.get("failure") or {}
    case = f.get("case", data.get("case", {}))
    spec = case.get("spec")
    if spec and not spec.get("too_long"):
        sc = C.Scratch()
        try:
            check_scenario(ctx, sc.dir, spec, "replay")
        finally:
            sc.close()
    elif spec and spec.get("too_long") and spec.get("shape") in DECLS:
        sc = C.Scratch()
        try:
            full = grid_spec(spec["shape"], spec["page_size"], spec["nrows"], spec["position"], spec["mode"], ctx.rng,
                             spec.get("encoding", "UTF-8"), rowid_base=spec.get("rowid_base", 0))
            check_scenario(ctx, sc.dir, full, "replay")
        finally:
            sc.close()


# ------------------------------------------------------------------------------------ known findings
def _c(f):
    return f.get("case") or {}


def _m_variable_first(f):
    c = _c(f)
    return (f.get("kind") == "not-recalled" and c.get("location") in ("freeblock", "unalloc", "freelist")
            and c.get("how") == "partial" and c.get("first_column_variable") is True
            # (the finding is about a first serial type that was overwritten; one that survived - a two-byte row id or
            # payload size puts it behind the four bytes of the freeblock header - is read from the page and must be used)
            and not (c.get("location") == "freeblock" and (c.get("verdict") or {}).get("first_intact") is True))


def _m_variable_first_behind_header(f):
    """C09-06: TEXT / BLOB first column whose serial type survived two or more bytes behind the freeblock header"""
    c = _c(f)
    v = c.get("verdict") or {}
    return (f.get("kind") == "not-recalled" and c.get("location") == "freeblock" and c.get("how") == "partial"
            and c.get("first_column_variable") is True and v.get("first_intact") is True and (v.get("match_offset") or 0) >= 2)


def _m_undetermined_first_shifts_rest(f):
    """C09-07: first serial type lost, the freeblock size leaves several candidates, the fall-back guesses one of another
    width and every following column is read from shifted bytes"""
    c = _c(f)
    v = c.get("verdict") or {}
    return (f.get("kind") == "not-recalled" and c.get("location") == "freeblock" and c.get("how") == "partial"
            and v.get("undetermined") is True and v.get("first_intact") is False and v.get("match_offset") == 0
            and c.get("first_column_variable") is False)


def _m_freelist_not_rewritten(f):
    c = _c(f)
    return (f.get("kind") == "not-recalled" and c.get("location") == "freelist" and c.get("entry") == "iterator"
            and c.get("page_rewritten_in_last_version") is False and c.get("found_before_dedup") is False)


def _m_single_column_collision(f):
    c = _c(f)
    return (f.get("kind") == "not-recalled" and c.get("single_column") is True and c.get("found_before_dedup") is True
            and (c.get("lost_digest_shared_with") or 0) >= 2)


MATCHERS = {
    "c09_variable_first_column": _m_variable_first,
    "c09_freelist_page_not_rewritten": _m_freelist_not_rewritten,
    "c09_single_column_bogus_collision": _m_single_column_collision,
    "c09_variable_first_behind_header": _m_variable_first_behind_header,
    "c09_undetermined_first_shifts_rest": _m_undetermined_first_shifts_rest,
}
