"""C18 — damaged input is processed in bounded time without hanging or runaway memory."""
import hashlib
import multiprocessing as mp
import os
import resource
import shutil
import subprocess
import time
from concurrent.futures import ThreadPoolExecutor

from ..gen import corrupt as K, histories as H, sqlite_factory as F
from ..impl import dump as D
from ..leanio.build import SDMODEL, LEAN
from . import dbcommon as C, regexcost as RC, walindex as W

ID = "C18"
LEAN_MODULES = ["SqliteDissect.Properties.C18", "SqliteDissect.Properties.C06", "SqliteDissect.Properties.C16", "SqliteDissect.Properties.C18Scan", "SqliteDissect.Properties.C18Cost", "SqliteDissect.Properties.C18Regex"]
RULE = ("well-formed factory databases (freelist, overflow chains, indexes, pointer maps, multi-level trees) whose every "
        "link / count / size field — located by parsing the clean file — is overwritten with adversarial values (self, "
        "parent, 0, 1, max, size+-1, random), plus pairs of such edits, truncations and random bit flips; each damaged "
        "copy is run through the full pipeline (parsing, page census, version history, then signatures, carving with freelist pages and version-history iteration of every table and index) in a worker process under a time limit (max(10 s, 200 x clean parse time)) "
        "and an address-space limit; outcome class / dump compared with the Lean model run with the same recursion "
        "budget. A worker that exceeds a limit is a failing input by itself. non-trivial = distinct damaged copy whose "
        "outcome differs from the clean file's")
ASSUMPTIONS = ["wall-clock seconds and RSS are measured, not proved; the Lean theorems bound the model's loops (fuel adequacy)",
               "Python's recursion limit (1000) is a parameter of the model: recursion through child / trunk pointers ends in RecursionError"]

RSS_LIMIT = 2 << 30


def carve_stage(db, vh):
    """signatures and carving (freelist pages included) for every rowid table, version-history iteration for every
    table and index: the stages after parsing.  Any exception is an acceptable outcome; the outcome class is returned"""
    from sqlite_dissect import interface
    from sqlite_dissect.constants import MASTER_SCHEMA_ROW_TYPE
    from sqlite_dissect.file.schema.master import OrdinaryTableRow
    from sqlite_dissect.version_history import VersionHistory
    import warnings
    warnings.filterwarnings("ignore")
    out = []
    try:
        if vh is None:
            vh = VersionHistory(db)
        for entry in db.master_schema.master_schema_entries:
            if entry.row_type not in (MASTER_SCHEMA_ROW_TYPE.TABLE, MASTER_SCHEMA_ROW_TYPE.INDEX):
                continue
            try:
                sig = None
                if isinstance(entry, OrdinaryTableRow) and not entry.without_row_id and not entry.internal_schema_object:
                    sig = interface.create_table_signature(entry.name, db, vh)
                n = 0
                for commit in interface.get_version_history_iterator(entry.name, vh, sig, sig is not None):
                    n += len(commit.carved_cells)
                out.append("ok")
            except RecursionError:
                out.append("RecursionError")
            except MemoryError:
                raise
            except Exception as e:  # noqa
                out.append(type(e).__name__)
    except MemoryError:
        raise
    except RecursionError:
        out.append("RecursionError")
    except Exception as e:  # noqa
        out.append("history:" + type(e).__name__)
    return ",".join(sorted(set(out))) or "none"


def _worker(path, conn, wal=None, carve_too=True, strict=True):
    try:
        resource.setrlimit(resource.RLIMIT_AS, (RSS_LIMIT, RSS_LIMIT))
    except (ValueError, OSError):
        pass
    t0 = time.time()
    rss0 = resource.getrusage(resource.RUSAGE_SELF).ru_maxrss      # inherited from the forking parent
    frames = D.frames_available()
    carve = "not-reached"
    try:
        db = vh = None
        if wal is None:
            s, db, e = D.dump_db(path, strict=strict)
        else:
            s, vh, e = D.dump_history(path, wal, strict=strict)
            db = vh.versions[0] if vh is not None else None
        if db is not None and carve_too:
            carve = carve_stage(db, vh)
    except MemoryError:
        s = "memory-error"
    except RecursionError:
        s = "err recursionError"
    dt = time.time() - t0
    rss = resource.getrusage(resource.RUSAGE_SELF).ru_maxrss - rss0     # growth caused by this parse
    conn.send((hashlib.sha1(s.encode()).hexdigest(), s[:160], frames, dt, rss, s if len(s) < (4 << 20) else None, carve))
    conn.close()


def run_impl(path, limit, wal=None, carve_too=True, strict=True):
    ctx = mp.get_context("fork")
    parent, child = ctx.Pipe(duplex=False)
    p = ctx.Process(target=_worker, args=(path, child, wal, carve_too, strict))
    p.start()
    child.close()
    res = None
    if parent.poll(limit):
        try:
            res = parent.recv()
        except EOFError:
            res = None
    if res is None:
        alive = p.is_alive()
        p.kill()
        p.join()
        return {"timeout": alive, "crashed": not alive, "exitcode": p.exitcode}
    p.join()
    return {"sha": res[0], "prefix": res[1], "frames": res[2], "time": res[3], "rss_kb": res[4], "full": res[5], "carve": res[6]}


def run_model(path, frames, limit, wal=None, strict=True):
    op = (f"db.dump {path} mem=0 strict={int(strict)} size=- frames={frames}\n" if wal is None
          else f"vh.dump {path} {wal} mem=0 strict={int(strict)} frames={frames}\n")
    try:
        p = subprocess.run([SDMODEL], input=op.encode(),
                           stdout=subprocess.PIPE, stderr=subprocess.PIPE, cwd=LEAN, timeout=limit)
    except subprocess.TimeoutExpired:
        return None
    out = p.stdout.decode().rstrip("\n")
    return out


def _guarded_iter(results, ex):
    try:
        for r in results:
            yield r
    finally:
        ex.shutdown(wait=False, cancel_futures=True)


def clean_carve_seconds(ctx, path, wal, tparse, in_process):
    """seconds the signature / carving / iteration stages take on the undamaged file.  Thorough tier: measured in process.
    Quick tier: measured in a forked worker that is given 4 x SLOW_CARVE seconds - a base that needs longer is not carved
    in this tier anyway, and its clean carving can take minutes"""
    if ctx.thorough():
        t0 = time.time()
        in_process()
        return time.time() - t0
    res = run_impl(path, 4 * 3.0 + 10 * tparse + 5.0, wal, True, True)
    if "time" not in res:
        return float("inf")
    return max(0.0, res["time"] - tparse)


def run(ctx, per_db_quick=48, per_db_thorough=600):
    CAP = 900.0 if ctx.thorough() else 120.0
    SLOW_CARVE = 3.0
    sc = C.Scratch()
    try:
        r = ctx.rng
        ctx.differential(W.run_scan(ctx, sc), "walindex.scan")      # WAL-index (-shm) scan, read bound: harness/props/walindex.py
        RC.run(ctx, sc)      # cost of the signature regular expression (finding C18-R1 and its two controls): harness/props/regexcost.py
        bases = []
        shapes = [dict(page_size=512, rows=150, churn=3, auto_vacuum=0, with_index=True, big_values=True),
                  dict(page_size=1024, rows=60, churn=2, auto_vacuum=1, with_index=True, big_values=True),
                  dict(page_size=4096, rows=400, churn=1, auto_vacuum=0, with_index=True, big_values=False),
                  dict(page_size=2048, rows=60, churn=1, auto_vacuum=2, with_index=False, big_values=True)]
        if ctx.thorough():
            # (64 KiB pages make the recursion-limit-bounded walks very expensive for the model: thorough only)
            shapes += [dict(page_size=65536, rows=20, churn=1, auto_vacuum=2, with_index=False, big_values=True),
                       dict(page_size=512, rows=400, churn=2, auto_vacuum=0, with_index=True, big_values=False)]
        for i, sh in enumerate(shapes):
            cfg = F.random_cfg(r, small=True)
            cfg.update(sh)
            cfg.update(wide_table=0, fragmenter=(20, 3) if i % 2 == 0 else None, n_tables=2,
                       index_boundary=(i == 1))      # overflowing index keys, also on interior pages
            b = F.build(sc.path(f"base{i}.db"), cfg, r)
            t0 = time.time()
            clean, db, e = D.dump_db(b.path)
            tparse = time.time() - t0
            tcarve = clean_carve_seconds(ctx, b.path, None, tparse, lambda: carve_stage(db, None))
            bases.append((b, tparse, tcarve, hashlib.sha1(clean.encode()).hexdigest()))
        per_db = per_db_thorough if ctx.thorough() else per_db_quick
        # The limit of a damaged copy is relative to what the UNDAMAGED file takes (40 x, at least 10 s, capped): carving a
        # clean 500 KB database can take minutes (carve_unallocated_space compares every partial match with every uncarved
        # interval of the region: quadratic in the page size, hence a large constant per page, not a hang), and that is not
        # what this property is about.  Quick tier: a base whose clean carving stage takes more than SLOW_CARVE seconds has
        # its damaged copies parsed and iterated but not carved (recorded in the evidence; the thorough tier carves them).
        jobs = []
        carve_ok = {}
        for bi, (b, tparse, tcarve, clean_sha) in enumerate(bases):
            ok = ctx.thorough() or tcarve <= SLOW_CARVE
            if not ok:
                ctx.extra.setdefault("bases_not_carved_in_quick_tier", []).append(
                    {"base": bi, "page_size": b.cfg["page_size"], "rows": b.cfg["rows"],
                     "clean_carve_s": round(tcarve, 1) if tcarve != float("inf") else "more than 17 s"})
            limit = min(CAP, max(10.0, 40 * (tparse + (tcarve if ok else 0.0))))
            for ci, (desc, data) in enumerate(K.corruptions(b.path, r, per_db)):
                p = sc.path(f"c{bi}_{ci}.db")
                with open(p, "wb") as fh:
                    fh.write(data)
                carve_ok[p] = ok
                jobs.append((p, desc, limit, clean_sha, b.cfg, None))
        # damaged write-ahead logs: header fields, frame header fields, truncations, flips
        for hi in range(4 if ctx.thorough() else 2):
            cfg = F.random_cfg(r, page_sizes=[512, 1024], small=True)
            cfg.update(rows=20, wide_table=0, fragmenter=None, index_boundary=False)
            h = H.make_history(sc.path(f"wh{hi}"), cfg, r, kind=["plain", "ddl", "spill", "checkpoint_restart"][hi % 4], n_commits=3)
            if not h.wal:
                continue
            t0 = time.time()
            clean, vh, e = D.dump_history(h.db, h.wal)
            tparse = time.time() - t0
            tcarve = clean_carve_seconds(ctx, h.db, h.wal, tparse, lambda: carve_stage(vh.versions[0], vh))
            wal_carve_ok = ctx.thorough() or tcarve <= SLOW_CARVE
            limit = min(CAP, max(10.0, 40 * (tparse + (tcarve if wal_carve_ok else 0.0))))
            clean_sha = hashlib.sha1(clean.encode()).hexdigest()
            walb = open(h.wal, "rb").read()
            ps = int.from_bytes(walb[8:12], "big")
            nfr = (len(walb) - 32) // (24 + ps)
            muts = []
            for off in range(0, 32, 4):
                for v in (0, 1, 0xFFFFFFFF, 3007000, 0x377F0682, 512, 65536, r.randint(0, 2 ** 32 - 1)):
                    muts.append(({"kind": "wal.header", "off": off, "value": v}, off, v))
            for fi in r.sample(range(nfr), min(nfr, 8)) + [nfr - 1]:
                base = 32 + fi * (24 + ps)
                for fo, name in ((0, "frame.page"), (4, "frame.size"), (8, "frame.salt1"), (12, "frame.salt2")):
                    for v in (0, 1, 2, 0xFFFFFFFF, 10 ** 6, r.randint(0, 2 ** 32 - 1)):
                        muts.append(({"kind": "wal." + name, "frame": fi, "value": v}, base + fo, v))
            r.shuffle(muts)
            for ci, (desc, off, v) in enumerate(muts[: (per_db if ctx.thorough() else per_db // 2)]):
                d = bytearray(walb)
                d[off:off + 4] = int(v).to_bytes(4, "big")
                p = sc.path(f"w{hi}_{ci}.db-wal")
                with open(p, "wb") as fh:
                    fh.write(d)
                carve_ok[p] = wal_carve_ok
                jobs.append((h.db, desc, limit, clean_sha, cfg, p))
            for ci in range(10):
                cut = r.randint(0, len(walb))
                p = sc.path(f"w{hi}_t{ci}.db-wal")
                with open(p, "wb") as fh:
                    fh.write(walb[:cut])
                carve_ok[p] = wal_carve_ok
                jobs.append((h.db, {"kind": "wal.truncate", "at": cut}, limit, clean_sha, cfg, p))

        # relaxed format checking must not relax the resource bounds: every damaged header field, and every eleventh other
        # damaged copy, is also processed with strict_format_checking=False
        jobs = [j + (True,) for j in jobs] + [j + (False,) for k, j in enumerate(jobs)
                                              if str(j[1].get("kind", "")).startswith(("hdr.", "wal.header")) or k % 11 == 3]

        def one(ij):
            idx, job = ij
            p, desc, limit, clean_sha, cfg, wal, strict = job
            # quick tier: the carving stages run on the targeted cycles and on every third other damaged copy
            carve_too = carve_ok.get(wal or p, True) and (ctx.thorough() or "cycle" in desc["kind"] or (idx % 3 == 0))
            impl = run_impl(p, limit, wal, carve_too, strict)
            model = None
            if "sha" in impl:
                model = run_model(p, impl["frames"], max(90.0, 6 * limit) * (10 if ctx.thorough() else 1), wal, strict)
            return job, impl, model

        ex = ThreadPoolExecutor(max_workers=14)
        slowest = 0.0
        hangs = 0
        model_retry = []
        hang_candidates = []
        results = ex.map(one, enumerate(jobs))
        # (results are judged as they arrive, so that an interrupted search keeps what it found; when the search
        # budget's alarm interrupts the wait the jobs still queued are not started)
        for (p, desc, limit, clean_sha, cfg, wal, strict), impl, model in _guarded_iter(results, ex):
            case = {"corruption": desc, "cfg": {k: cfg[k] for k in ("page_size", "auto_vacuum", "rows", "churn")}, "seed": ctx.seed,
                    "strict_format_checking": strict}
            if not strict:
                ctx.branch("relaxed-format-checking")
            ctx.evals += 1
            n0 = len(ctx.oracle_failures)
            if impl.get("timeout"):
                # judged after the pool has drained: the same file is processed again with the machine to itself, and only
                # a second time-out is a hang (fourteen workers share the cores; a time-out under load is not evidence)
                ctx.branch("impl:timeout-under-load")
                hang_candidates.append((p, wal, strict, limit, case))
                hangs += 1
                if hangs >= 3:
                    # three workers ran into their time limit: that decides the run; the copies still queued are not started
                    ctx.notes.append("stopped after three time-outs")
                    break
            elif impl.get("crashed"):
                ctx.branch("impl:crashed")
                ctx.oracle_fail("crash", f"the interpreter died (exit code {impl.get('exitcode')}) on a damaged file", case, "crash", "result or exception")
            else:
                slowest = max(slowest, impl["time"])
                if impl["time"] > 5.0:
                    ctx.extra.setdefault("cases_over_5s", []).append(
                        {"corruption": desc, "strict": strict, "seconds": round(impl["time"], 1), "limit": round(limit, 1),
                         "outcome": impl["prefix"][:60], "carve": impl.get("carve")})
                kind = impl["prefix"].split(D.SEP)[0][:40] if not impl["prefix"].startswith("ok") else "ok"
                ctx.branch(f"impl:{kind}")
                ctx.branch(f"corruption:{desc['kind']}")
                for c in impl.get("carve", "").split(","):
                    ctx.branch(f"carve-stage:{c}")
                if impl["sha"] != clean_sha:
                    ctx.nontrivial.add(impl["sha"] + str(desc))
                if impl["prefix"].startswith("memory-error") or impl["rss_kb"] > 1 << 20:
                    ctx.oracle_fail("memory", "memory use beyond 1 GiB on a damaged file", case, impl["rss_kb"], "< 1 GiB")
                if model is None:
                    # the model did not answer in time while fourteen workers shared the machine: asked again, alone,
                    # after the pool has drained (a time-out of the model is not evidence about the code)
                    model_retry.append((p, desc, wal, strict, impl))
                elif "@schema-sql" in impl["prefix"] or model.startswith("err outsideModel"):
                    ctx.branch("outside-model")
                else:
                    msha = hashlib.sha1(model.encode()).hexdigest()
                    if msha != impl["sha"]:
                        full = impl.get("full") or impl["prefix"]
                        k = next((i for i, (a, b) in enumerate(zip(full, model)) if a != b), min(len(full), len(model)))
                        keep = os.path.join(C.ROOT, "replays", "files")
                        os.makedirs(keep, exist_ok=True)
                        kept = os.path.join(keep, f"C18-disagree-{len(ctx.disagreements)}" + (".db-wal" if wal else ".db"))
                        if len(ctx.disagreements) < 4:
                            shutil.copyfile(wal or p, kept)
                        ctx.disagreements.append({"label": "db.dump(corrupt)", "op": str(desc)[:300], "file": os.path.relpath(kept, C.ROOT),
                                                  "at": k, "impl": full[max(0, k - 200):k + 120], "model": model[max(0, k - 200):k + 120]})
            if len(ctx.oracle_failures) > n0:
                C.keep_failing_files(ctx, n0, p, wal)
            ctx.sample({"corruption": desc, "impl": impl.get("prefix", str(impl))[:80]}, cap=6)
        for p, wal, strict, limit, case in hang_candidates:
            n0 = len(ctx.oracle_failures)
            again = run_impl(p, limit, wal, carve_ok.get(wal or p, True), strict)
            if again.get("timeout"):
                ctx.branch("impl:timeout")
                ctx.oracle_fail("hang", f"processing a damaged file did not finish within {limit:.0f} s (twice; the second time alone)",
                                case, "timeout", f"<= {limit:.0f} s")
                C.keep_failing_files(ctx, n0, p, wal)
            elif again.get("crashed"):
                ctx.oracle_fail("crash", f"the interpreter died (exit code {again.get('exitcode')}) on a damaged file", case, "crash", "result or exception")
                C.keep_failing_files(ctx, n0, p, wal)
            else:
                slowest = max(slowest, again["time"])
        for p, desc, wal, strict, impl in model_retry[:40]:
            model = run_model(p, impl["frames"], 600.0, wal, strict)
            ctx.branch("model:asked-again")
            if model is None:
                ctx.disagreements.append({"label": "db.dump(corrupt)", "op": str(desc), "div": "model timed out (600 s, alone)"})
            elif "@schema-sql" in impl["prefix"] or model.startswith("err outsideModel"):
                ctx.branch("outside-model")
            elif hashlib.sha1(model.encode()).hexdigest() != impl["sha"]:
                full = impl.get("full") or impl["prefix"]
                k = next((i for i, (a, b) in enumerate(zip(full, model)) if a != b), min(len(full), len(model)))
                ctx.disagreements.append({"label": "db.dump(corrupt)", "op": str(desc)[:300], "at": k,
                                          "impl": full[max(0, k - 200):k + 120], "model": model[max(0, k - 200):k + 120]})
        if len(model_retry) > 40:
            ctx.notes.append(f"{len(model_retry) - 40} model time-outs not asked again")
        ctx.extra["slowest_parse_s"] = round(slowest, 2)
        ctx.extra["time_limit_rule"] = "min(cap, max(10 s, 40 x clean run)); cap 120 s quick / 900 s thorough; a time-out is judged again alone; quick tier does not carve copies of bases whose clean carving stage exceeds 3 s"
    finally:
        sc.close()


def search(ctx, broken):
    run(ctx, 400, 400)


def replay(ctx, data):
    if ((data.get("failure") or {}).get("case") or {}).get("regex_cost"):
        sc = C.Scratch()
        try:
            return RC.run(ctx, sc)
        finally:
            sc.close()
    if ((data.get("failure") or {}).get("case") or {}).get("walindex"):
        return W.replay_scan(ctx, data)
    files = C.replay_files(data)
    if files:
        case = (data.get("failure") or {}).get("case", {})
        strict = bool(case.get("strict_format_checking", True))
        impl = run_impl(files[0], 20.0, strict=strict)
        ctx.evals += 1
        ctx.nontrivial.add(files[0])
        if impl.get("timeout"):
            ctx.oracle_fail("hang", "processing a damaged file did not finish within 20 s", case, "timeout", "<= 20 s")
        elif impl.get("crashed"):
            ctx.oracle_fail("crash", "the interpreter died on a damaged file", case, "crash", "result or exception")
        else:
            model = run_model(files[0], impl["frames"], 30.0, strict=strict)
            if model is None or hashlib.sha1(model.encode()).hexdigest() != impl["sha"]:
                ctx.disagreements.append({"label": "db.dump(corrupt)", "op": files[0], "impl": impl["prefix"][:120],
                                          "model": (model or "timeout")[:120]})
        return
    run(ctx, 40, 40)


MATCHERS = {"regex_blob_text_backtracking": RC.m_regex_blob_text_backtracking}
