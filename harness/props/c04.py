"""C04 — evidence files are never modified, created or removed; everything written goes beneath the output
directory or the log file the user named."""
import contextlib
import io
import json
import os
import shutil
import tempfile
import time
from concurrent.futures import ProcessPoolExecutor

from ..leanio import driver
from ..translate import fs_effects, options
from . import clicommon as K
from . import clilattice as L

ID = "C04"
LEAN_MODULES = ["SqliteDissect.Properties.C04"]
TRANSLATORS = [fs_effects, options]
RULE = ("every run of the C12 option lattice (CLI in a fresh subprocess per option vector, incl. damaged inputs, every "
        "refusal / exit(0) / usage error, several inputs, pre-existing exports, env and config-file forms) and a set of "
        "library scenarios (Database, WriteAheadLog, WriteAheadLogIndex, VersionHistory, signatures, carving, the four "
        "exporters, RollbackJournal carver, CASE exporter, hashing helpers) run in-process, all under sys.addaudithook "
        "+ wrappers around os.stat/lstat/fstat/access/readlink inside a private sandbox (ev/ out/ logs/ cfg/ tmp/ cwd/). "
        "Rules: (1) the evidence directory — database, -wal, -shm, -journal and decoy files — is identical before and "
        "after (names, sizes, mtime_ns, mode, inode, link count, sha256); (2) every event on a path inside it is a "
        "read-only open (O_RDONLY, no O_CREAT/O_TRUNC/O_APPEND) or stat-like; (3) every mutating event lies beneath "
        "the output directory or the log file; (4) nothing else in the sandbox changes and the private TMPDIR is empty "
        "afterwards; (5) every event maps to a call site of Generated.fsEffects with a compatible mode and a provenance "
        "containing the location class it landed in (completeness of the translator); (6) the files that appear are the "
        "ones Model.Cli.writtenFiles plans (plus renamed previous exports). non-trivial = distinct run with at least "
        "one event on an evidence path")
ASSUMPTIONS = ["the sandbox runs as root: read-only media cannot be simulated with permissions; it is covered by rule (2) "
               "(a write-capable open or a mutating os.* call on an evidence path fails the check whether or not it "
               "would have succeeded)",
               "C-level file access that raises no audit event (the SQLite library writing the export database and its "
               "temporary journal, the C runtime reading time-zone data) is seen only through the before/after snapshots",
               "no symlinks or hard links among the evidence or output paths; the user does not name the evidence "
               "directory (or a path inside it) as --directory / --log-file; atime is not compared"]
TRUSTED_EXTRA = ["translator harness/translate/fs_effects.py: the tables of FS-capable callables, DEST_LABEL (option -> "
                 "provenance), API_PARAM_LABELS (library entry points), the basename rule, 'a handle is not a path'; its "
                 "completeness is measured by rule (5) on every run",
                 "CPython audit events (PEP 578) for open / os.* / shutil.* / sqlite3.connect / tempfile.*",
                 "harness/impl/run_cli.py instrumentation (no change to /repo)"]


# ---- known findings -----------------------------------------------------------------------------
def m_xlsx_tempfiles(f):
    ev = f["case"].get("event") or {}
    return f["kind"] == "temp-file-outside-named-locations" and (ev.get("site") or [""])[0].endswith("export/xlsx_export.py")


# C04-F2 (--file-prefix escaping the output directory) and C04-F3 (a table name steering the CSV file out of it)
# are fixed in /repo (430cb54, ccb6063); their inputs stay in corpus/C04, so a regression is a VIOLATION.
MATCHERS = {"xlsx_tempfiles": m_xlsx_tempfiles}


# ---- library scenarios (executed inside a pool worker, in-process under the hook) -------------------
_installed = [False]


def lib_execute(job):
    from ..impl import run_cli
    if not _installed[0]:
        run_cli.install()
        _installed[0] = True
    sb, m = K.prepare_sandbox(job)
    os.makedirs(m["out"], exist_ok=True)
    old_tmp = os.environ.get("TMPDIR")
    os.environ["TMPDIR"] = os.path.join(sb, "tmp")
    tempfile.tempdir = None
    try:
        ev_before = K.snapshot(m["ev"])
        all_before = K.snapshot(sb)
        n0 = len(run_cli.events())
        steps = {}
        cwd0 = os.getcwd()
        os.chdir(m["cwd"])
        have = {s: os.path.exists(m["db"] + s) for s in ("-wal", "-shm", "-journal")}
        run_cli.start()
        try:
            with contextlib.redirect_stdout(io.StringIO()):
                _scenarios(m, steps, have)
        finally:
            run_cli.stop()
            os.chdir(cwd0)
        events = run_cli.events()[n0:]
        del run_cli.events()[n0:]
        ev_after = K.snapshot(m["ev"])
        all_after = K.snapshot(sb)
        fails, dis, stats = K.judge(events, K.Locator(sb), K.norm_table(job["table"]))
        for kind, name in K.snap_diff(ev_before, ev_after):
            fails.append(("evidence-changed", {"what": kind, "name": name}))
        for kind, name in K.snap_diff(all_before, all_after):
            top = name.split(os.sep)[0].rstrip("/")
            if top not in ("out", "logs", "ev"):
                fails.append(("sandbox-changed-outside-output", {"what": kind, "name": name}))
        return {"id": job["id"], "fails": fails, "dis": dis, "stats": stats, "steps": steps, "events_n": len(events),
                "argv": ["<library>", job["id"]], "env": {}, "map": m}
    finally:
        if old_tmp is None:
            os.environ.pop("TMPDIR", None)
        else:
            os.environ["TMPDIR"] = old_tmp
        tempfile.tempdir = None
        shutil.rmtree(sb, ignore_errors=True)


def _scenarios(m, steps, have):
    import logging

    from sqlite_dissect import interface, utilities
    from sqlite_dissect.carving.rollback_journal_carver import RollBackJournalCarver
    from sqlite_dissect.carving.signature import Signature
    from sqlite_dissect.constants import BASE_VERSION_NUMBER
    from sqlite_dissect.export.case_export import CaseExporter
    from sqlite_dissect.export.csv_export import CommitCsvExporter, VersionCsvExporter
    from sqlite_dissect.export.sqlite_export import CommitSqliteExporter
    from sqlite_dissect.export.text_export import CommitConsoleExporter, CommitTextExporter
    from sqlite_dissect.export.xlsx_export import CommitXlsxExporter
    from sqlite_dissect.file.database.database import Database
    from sqlite_dissect.file.journal.jounal import RollbackJournal
    from sqlite_dissect.file.schema.master import OrdinaryTableRow
    from sqlite_dissect.file.wal.wal import WriteAheadLog
    from sqlite_dissect.file.wal_index.wal_index import WriteAheadLogIndex
    from sqlite_dissect.version_history import VersionHistory
    logging.getLogger("sqlite_dissect").setLevel(logging.CRITICAL + 1)
    import warnings
    warnings.filterwarnings("ignore")
    db_path, out = m["db"], m["out"]
    box = {}

    def step(name, fn):
        try:
            box[name] = fn()
            steps[name] = "ok"
        except Exception as ex:  # noqa: BLE001
            steps[name] = type(ex).__name__
            box[name] = None
        return box[name]

    step("is_sqlite_file", lambda: utilities.is_sqlite_file(db_path))
    step("get_sqlite_files", lambda: utilities.get_sqlite_files(m["ev"]))
    step("hash_file", lambda: utilities.hash_file(db_path))
    db = step("Database", lambda: Database(db_path))
    step("Database-mem", lambda: Database(db_path, store_in_memory=True))
    step("create_database", lambda: interface.create_database(db_path, strict_format_checking=False))
    wal = None
    if have["-wal"]:
        wal = step("WriteAheadLog", lambda: WriteAheadLog(db_path + "-wal"))
        step("create_write_ahead_log", lambda: interface.create_write_ahead_log(db_path + "-wal"))
    if have["-shm"]:
        step("WriteAheadLogIndex", lambda: WriteAheadLogIndex(db_path + "-shm"))
    if db is None:
        return
    vh = step("VersionHistory", lambda: VersionHistory(db, wal))
    if vh is None:
        return
    entries = list(vh.versions[BASE_VERSION_NUMBER].master_schema.master_schema_entries)
    sigs = {}
    for e in entries:
        if isinstance(e, OrdinaryTableRow) and not e.without_row_id and not e.internal_schema_object:
            s = step("Signature:" + e.name, lambda e=e: Signature(vh, e))
            if s is not None:
                sigs[e.name] = s
                step("carve_table:" + e.name, lambda e=e, s=s: interface.carve_table(e.name, s, db))
    step("get_table_names", lambda: (interface.get_table_names(db), interface.get_index_names(db)))
    for e in entries:
        if e.root_page_number:
            step("iterate:" + e.name, lambda e=e: [c for c in interface.get_version_history_iterator(
                e.name, vh, sigs.get(e.name), e.name in sigs)])
    step("export_csv", lambda: interface.export_version_history_to_csv(db_path, out, vh, list(sigs.values()), True))
    step("export_csv_one", lambda: interface.export_table_or_index_version_history_to_csv(db_path, out, vh, "t2"))
    step("export_sqlite", lambda: interface.export_version_history_to_sqlite(out, "lib.db3", vh, list(sigs.values())))
    step("export_sqlite_one", lambda: interface.export_table_or_index_version_history_to_sqlite(out, "one.db3", vh, "t2"))
    step("export_sqlite_again", lambda: interface.export_version_history_to_sqlite(out, "lib.db3", vh, list(sigs.values())))

    def text():
        with CommitTextExporter(out, "lib.txt") as t:
            for e in entries:
                if e.root_page_number:
                    it = interface.get_version_history_iterator(e.name, vh)
                    t.write_header(e, it.page_type)
                    for c in it:
                        t.write_commit(c)
    step("text_export", text)

    def xlsx():
        with CommitXlsxExporter(out, "lib.xlsx") as x:
            for e in entries:
                if e.root_page_number and e.name in ("t2", "i0"):
                    for c in interface.get_version_history_iterator(e.name, vh):
                        x.write_commit(e, c)
    step("xlsx_export", xlsx)

    def console():
        for e in entries[:2]:
            if e.root_page_number:
                for c in interface.get_version_history_iterator(e.name, vh):
                    CommitConsoleExporter.write_commit(c)
    step("console_export", console)
    step("version_csv", lambda: VersionCsvExporter.write_version(db_path, out, db))
    if have["-journal"]:
        jn = step("RollbackJournal", lambda: RollbackJournal(db_path + "-journal"))
        if jn is not None:
            for e in entries:
                if e.name in sigs:
                    step("journal_carve:" + e.name, lambda e=e: RollBackJournalCarver.carve(jn, db, e, sigs[e.name]))

    def case():
        c = CaseExporter(logging.getLogger("sqlite_dissect"))
        c.generate_header()
        c.add_observable_file(db_path, "sqlite-file")
        c.add_export_artifacts([os.path.join(out, "lib.txt")])
        c.export_case_file(os.path.join(out, "case.json"))
    step("case_export", case)


# ---- checks -------------------------------------------------------------------------------------------
def case_of(res, sp):
    sb = res["map"]["sb"]
    return {"id": res["id"], "ev": sp["ev"] if sp else "", "argv": [a.replace(sb, "<sb>") for a in res["argv"]],
            "env": {k: v.replace(sb, "<sb>") for k, v in (res.get("env") or {}).items()},
            "opts": {k: v for k, v in sp["opts"].items() if v not in (None, False)} if sp else {},
            "form": sp["form"] if sp else "library", "entry": (sp or {}).get("entry", "cli")}


WHAT = {
    "evidence-write": "a write-capable open or a mutating call on a path inside the evidence directory",
    "evidence-changed": "the evidence directory differs after the run",
    "write-outside-named-locations": "something was written outside the output directory and the log file",
    "temp-file-outside-named-locations": "a temporary file was created outside the output directory (system temp dir)",
    "config-write": "the configuration file location was written to",
    "sandbox-changed-outside-output": "a file appeared or changed outside the output directory and the log file",
}


def collect(ctx, res, sp):
    case = case_of(res, sp)
    for kind, detail in res["fails"]:
        c = dict(case)
        c["event"] = detail
        ctx.oracle_fail(kind, WHAT.get(kind, kind), c, impl=detail, oracle="read-only on evidence; writes only beneath --directory / --log-file")
    for d in res["dis"]:
        d = dict(d)
        d["op"] = json.dumps({"run": case["id"], "argv": case["argv"]})[:600] + " " + d["op"]
        ctx.disagreements.append(d)
    ctx.evals += res.get("events_n", 0)
    for k, v in res["stats"].items():
        ctx.branch("events:" + k, v)
    if any(k.startswith("EVIDENCE:") for k in res["stats"]):
        ctx.nontrivial.add("run:" + res["id"])


def check_written_files(ctx, results, specs):
    """(6) files that appear in the sandbox = the files Model.Cli plans (formatFiles ++ item files ++ journal ++ case)"""
    lines, keys = [], []
    for rid, res in results.items():
        sp = specs[rid]
        post = res.get("post") or {}
        if sp.get("no_model") or len(post.get("segs", [])) != 1 or post["segs"][0]["kind"] != "ready":
            continue
        api = post.get("api") or {}
        if "entries" not in api:
            continue
        ents = []
        for e in api["entries"]:
            rr = api["rows"].get(e["name"])
            ents.append(dict(e, updated=(rr["updated"] if rr else True)))
        lines.append(K.model_line(sp["opts"], res["map"], post["segs"][0]["path"], res["pre"]["world"], ents))
        keys.append(rid)
    answers = driver.ask(lines) if lines else []
    for rid, ans in zip(keys, answers):
        res, sp = results[rid], specs[rid]
        if not ans.startswith("ready"):
            continue
        mod = K.parse_model(ans)
        m = res["map"]
        planned = set(mod["files"].values()) | {i["file"] for i in mod["items"] if i["writes"] and i["file"]} \
            | set(mod["journal"]) | ({mod["case"]} if mod["case"] else set())
        planned = {os.path.relpath(os.path.normpath(p), m["sb"]) for p in planned}
        appeared = [x for x in res["out_listing"] if x not in res["out_before"] and not x.endswith("/")]
        appeared += [n for k, n in res["new_outside"] if not n.endswith("/")]
        ctx.evals += 1
        extra = []
        for f in appeared:
            if f in planned:
                continue
            # a previous export renamed to <name>-<uuid4>
            if any(f.startswith(p + "-") and len(f) == len(p) + 37 for p in planned):
                continue
            extra.append(f)
        missing = [p for p in mod["files"].values()
                   if os.path.relpath(os.path.normpath(p), m["sb"]) not in res["out_listing"] + [n for k, n in res["new_outside"]]]
        ctx.branch("written-files:" + ("agree" if not extra and not missing else "differ"))
        if extra or missing:
            under = all(f.startswith("out" + os.sep) for f in extra)
            if under:
                ctx.disagreements.append({"label": "written-files", "op": json.dumps(case_of(res, sp)),
                                          "impl": json.dumps({"appeared": extra, "missing": missing}),
                                          "model": json.dumps(sorted(planned))})
            else:
                c = case_of(res, sp)
                c["event"] = {"appeared": extra}
                ctx.oracle_fail("unplanned-file", "a file the model does not plan appeared outside the output directory",
                                c, impl=extra, oracle=sorted(planned))


def translator_sensitivity(ctx):
    """the generated table reacts to the changes the theorems are there to catch (mutated copies of the sources)"""
    src = os.path.join(fs_effects.REPO, "sqlite_dissect")
    muts = [
        ("file/file_handle.py", 'open(file_identifier, "rb")', 'open(file_identifier, "r+b")', "evidence_read_only"),
        ("carving/rollback_journal_carver.py", "        logger = getLogger(LOGGER_NAME)",
         "        logger = getLogger(LOGGER_NAME)\n        import os\n        os.remove(rollback_journal.file_handle.file_object.name)",
         "fully_classified"),
        ("entrypoint.py", "    database = Database(sqlite_file_path, strict_format_checking=strict_format_checking)",
         "    import sqlite3\n    sqlite3.connect(sqlite_file_path).close()\n"
         "    database = Database(sqlite_file_path, strict_format_checking=strict_format_checking)", "no_sqlite_connect_on_evidence"),
        ("entrypoint.py", "    zero_length_sqlite_file = False",
         "    zero_length_sqlite_file = False\n    open(sqlite_file_path + \"-shm\", \"wb\").close()", "writes_under_output"),
        ("utilities.py", "    return exists(dir_path) and isdir(dir_path)",
         "    import shutil\n    shutil.rmtree(\"sqlite-dissect.tmp\", True)\n    return exists(dir_path) and isdir(dir_path)", None),
        ("entrypoint.py", "    zero_length_sqlite_file = False",
         "    zero_length_sqlite_file = False\n    from pathlib import Path\n    Path(sqlite_file_path).touch()", "fully_classified"),
    ]
    if not ctx.thorough():
        muts = muts[:4]
    base = fs_effects.extract()
    for rel, old, new, theorem in muts:
        d = tempfile.mkdtemp(prefix="sdverif-mut-")
        try:
            shutil.copytree(src, os.path.join(d, "sqlite_dissect"), ignore=shutil.ignore_patterns("tests", "__pycache__"))
            p = os.path.join(d, "sqlite_dissect", rel)
            text = open(p, encoding="utf-8").read()
            if old not in text:
                ctx.notes.append(f"translator sensitivity: anchor not found in {rel} (source changed) — mutation skipped")
                continue
            open(p, "w", encoding="utf-8").write(text.replace(old, new, 1))
            t = fs_effects.extract(d)
            ok_ro = all(("EVIDENCE" not in e["prov"]) or e["mode"] in ("read", "stat") for e in t)
            ok_wr = all(e["mode"] not in ("write", "create", "delete") or set(e["prov"]) <= {"OUTPUT", "LOG"}
                        or (e["api"] == "tempFile" and e["prov"] == ["TEMP"]) for e in t)
            ok_cn = all(e["api"] != "sqliteConnect" or set(e["prov"]) <= {"OUTPUT"} for e in t)
            ok_cl = all("OTHER" not in e["prov"] and e["api"] != "other" for e in t)
            caught = not (ok_ro and ok_wr and ok_cn and ok_cl)
            ctx.evals += 1
            ctx.branch("translator-mutation:" + ("caught" if caught else "MISSED"))
            if not caught:
                ctx.disagreements.append({"label": "translator-sensitivity", "op": f"{rel}: {old[:60]} -> {new[:80]}",
                                          "impl": "mutated source", "model": "the regenerated table still satisfies every C04 table theorem"})
            elif len(t) <= len(base) and new.count("(") > old.count("("):
                ctx.notes.append(f"mutation in {rel} caught although the table did not grow")
        finally:
            shutil.rmtree(d, ignore_errors=True)


def run_all(ctx, specs, scratch, pool, table):
    jobs = [L.to_job(s, pool, table, scratch, post=L.post_plan, pre=L.pre_world) for s in specs]
    for j in jobs:
        j["keep_events"] = True
    lib_sets = ["plain", "wal", "journal", "both", "plain4k", "flip_db", "trunc_wal", "flip_wal", "junk_jn", "trunc_db"]
    lib_jobs = [{"id": "lib-" + n, "scratch": scratch, "evidence": pool.sets[n], "table": table} for n in lib_sets]
    with ProcessPoolExecutor(max_workers=min(16, os.cpu_count() or 2)) as ex:
        fut_lib = [ex.submit(lib_execute, j) for j in lib_jobs]
        results = list(ex.map(K.execute, jobs, chunksize=1))
        libs = [f.result() for f in fut_lib]
    for r in results:
        r["events"] = []
    return dict((r["id"], r) for r in results), dict((s["id"], s) for s in specs), libs


def run(ctx):
    scratch = tempfile.mkdtemp(prefix="sdverif-c04-")
    try:
        t0 = time.time()
        pool = K.get_pool(ctx)
        table = fs_effects.table()
        specs = L.thorough_specs(ctx.rng, 420) if ctx.thorough() else L.quick_specs()
        results, by, libs = run_all(ctx, specs, scratch, pool, table)
        ctx.extra["cli_runs"] = len(results)
        ctx.extra["library_scenarios"] = {l["id"]: l["steps"] for l in libs}
        ctx.extra["fs_table_sites"] = len(table)
        for rid, res in results.items():
            collect(ctx, res, by[rid])
            post = res.get("post") or {}
            kinds = [s["kind"] + (":" + s["reason"] if s["reason"] else "") for s in post.get("segs", [])] or \
                [":".join(post.get("head_kind") or ("?",))]
            for k in kinds:
                ctx.branch("outcome:" + k)
        for l in libs:
            collect(ctx, l, None)
            for name, st in l["steps"].items():
                ctx.branch("lib:" + name.split(":")[0] + ":" + st)
        check_written_files(ctx, results, by)
        translator_sensitivity(ctx)
        ctx.extra["cli_wall_s"] = round(time.time() - t0, 1)
        ctx.sample({"run": "fmt10", "events": results["fmt10"]["stats"]} if "fmt10" in results else {})
        if libs:
            ctx.sample({"run": libs[0]["id"], "events": libs[0]["stats"], "steps": libs[0]["steps"]})
        ctx.rule = RULE
    finally:
        shutil.rmtree(scratch, ignore_errors=True)


def search(ctx, broken):
    ctx.tier = "search"
    scratch = tempfile.mkdtemp(prefix="sdverif-c04s-")
    try:
        pool = K.get_pool(ctx)
        table = fs_effects.table()
        results, by, libs = run_all(ctx, L.thorough_specs(ctx.rng, 250), scratch, pool, table)
        for rid, res in results.items():
            res["dis"] = []
            collect(ctx, res, by[rid])
        for l in libs:
            l["dis"] = []
            collect(ctx, l, None)
    finally:
        shutil.rmtree(scratch, ignore_errors=True)


def replay(ctx, data):
    want = (data.get("failure") or data).get("case", {}).get("id") or data.get("spec_id")
    if not want:
        return
    scratch = tempfile.mkdtemp(prefix="sdverif-c04r-")
    try:
        pool = K.get_pool(ctx)
        table = fs_effects.table()
        specs = [s for s in L.quick_specs() if s["id"] == want]
        if not specs:
            ctx.notes.append(f"replay: spec {want} is not part of the quick lattice")
            return
        jobs = [L.to_job(s, pool, table, scratch, post=L.post_plan, pre=L.pre_world) for s in specs]
        for j in jobs:
            j["keep_events"] = True
        for j, s in zip(jobs, specs):
            res = K.execute(j)
            collect(ctx, res, s)
    finally:
        shutil.rmtree(scratch, ignore_errors=True)
