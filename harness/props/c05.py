"""C05 — a torn or half-written WAL never yields uncommitted or phantom state."""
import os
import shutil
import sqlite3

from ..gen import histories as H, sqlite_factory as F, walreader as W
from ..impl import dump as D
from . import dbcommon as C
from .c02 import check_version_rows, sqlite_view

ID = "C05"
LEAN_MODULES = ["SqliteDissect.Properties.C05", "SqliteDissect.Properties.C02", "SqliteDissect.Properties.C02b"]
RULE = ("every WAL of the C02 history kinds truncated at frame boundaries, +-1, inside frame headers, inside page "
        "images and inside the WAL header (quick: 12 offsets per frame on a few WALs; thorough: every byte offset "
        "of small WALs and 64 offsets per frame on many); outcome class and versions compared with the Lean model, "
        "every accepted version with the snapshot SQLite gave after that commit, the last one with what SQLite "
        "recovers from a scratch copy of the same pair. non-trivial = distinct (WAL, offset) accepted with >= 2 versions")
ASSUMPTIONS = ["truncation only: torn writes inside a frame (checksum damage) are outside the quantifier",
               "SQLite 3.40.1 recovery of the scratch copy is the oracle for the last version"]


def offsets_for(ctx, size, ps, per_frame):
    fs = 24 + ps
    n = (size - 32) // fs
    offs = {0, 1, 16, 31, 32, 33, size - 1, size}
    r = ctx.rng
    for i in range(n + 1):
        b = 32 + i * fs
        offs.update([b - 1, b, b + 1, b + 8, b + 23, b + 24, b + 25, b + 24 + ps // 2, b + fs - 1])
        for _ in range(max(0, per_frame - 9)):
            offs.add(b + r.randint(0, fs))
    return sorted(o for o in offs if 0 <= o <= size)


def run(ctx, n_quick=8, n_thorough=64):
    sc = C.Scratch()
    try:
        r = ctx.rng
        n = C.n_databases(ctx, n_quick, n_thorough)
        kinds = ["plain", "empty_out", "ddl", "spill", "checkpoint_restart", "overflow_inplace", "grow_shrink", "header_pragmas"]
        for i in range(n):
            cfg = F.random_cfg(r, page_sizes=[512, 1024] if i % 3 else [4096], small=True)
            cfg["rows"] = min(cfg["rows"], 20)
            kind = kinds[i % len(kinds)]
            if kind == "empty_out":
                cfg["page_size"] = r.choice([1024, 4096])      # (a page image ending in at least 512 zero bytes)
            try:
                h = H.make_history(sc.path(f"h{i}"), cfg, r, kind=kind, n_commits=4 if kind == "empty_out" else r.randint(2, 4))
            except sqlite3.Error as e:
                ctx.notes.append(f"history generator error: {e}")
                continue
            if not h.wal:
                continue
            walb = open(h.wal, "rb").read()
            full = W.read_wal(walb)
            if not full:
                continue
            ps = full["page_size"]
            every_byte = ctx.thorough() and i < 3 and len(walb) < 40000
            offs = range(0, len(walb) + 1) if every_byte else offsets_for(ctx, len(walb), ps, 64 if ctx.thorough() else 12)
            tw = sc.path(f"t{i}.db-wal")
            for off in offs:
                with open(tw, "wb") as fh:
                    fh.write(walb[:off])
                # relaxed format checking must not let an uncommitted tail through either: every third offset
                for strict in ((True, False) if off % 3 == 1 else (True,)):
                    case = {"kind": h.kind, "cfg": cfg, "events": h.events, "offset": off, "wal_size": len(walb), "seed": ctx.seed,
                            "strict_format_checking": strict}
                    n0 = len(ctx.oracle_failures)
                    impl, vh, exc = C.compare_history_dump(ctx, h.db, tw, "vh.dump", strict=strict, with_trees=False)
                    check_torn(ctx, sc, h, i, off, walb, tw, case, n0, vh)
            for f in (h.db, h.wal, tw):
                if f and os.path.exists(f):
                    os.unlink(f)
    finally:
        sc.close()


def check_torn(ctx, sc, h, i, off, walb, tw, case, n0, vh):
    info = W.read_wal(walb[:off])
    ncommit = len(info["commits"]) if info else 0
    if vh is None:
        ctx.branch("declined")
        return
    versions = vh.versions
    ctx.mark(("torn", i, off, case["strict_format_checking"]), nontrivial=len(versions) >= 2)
    ctx.branch(f"accepted-with-{min(len(versions), 5)}-versions")
    # only committed states, in commit order
    if len(versions) > len(h.snapshots) or len(versions) != ncommit + 1:
        ctx.oracle_fail("phantom-version", "a torn WAL yields a version that is not a committed transaction",
                        case, len(versions), ncommit + 1)
    else:
        ks = sorted(versions)
        # rows of every version (sampled on quick) against the snapshot of that commit
        check = ks if (ctx.thorough() or off % 7 == 0) else [ks[-1]]
        for k in check:
            check_version_rows(ctx, versions[k], h.snapshots[k], h.tables, dict(case, version=k))
        if off % 5 == 0 or ctx.thorough():
            view = sqlite_view(h.db, tw, h.tables, sc, f"{i}-{off}")
            check_version_rows(ctx, versions[ks[-1]], view, h.tables, dict(case, version="last-vs-sqlite-recovery"))
    if len(ctx.oracle_failures) > n0:
        C.keep_failing_files(ctx, n0, h.db, tw)


def search(ctx, broken):
    run(ctx, 30, 30)


def replay(ctx, data):
    run(ctx, 2, 2)


MATCHERS = {}
