"""C18 — cost of the signature regular expression on the real code (finding C18-R1).

A column that holds both TEXT and BLOB values gets the pattern `(?:blob|text)` (or `(?:[basic]|blob|text)`) from
`generate_signature_regex`, and the two alternatives accept the same single byte.  `re` backtracks: with n such columns
and free space holding (n-1 printable bytes, newline)* every start position costs 2^(n-1) attempts before it fails
(Lean: Properties/C18Regex `regex_exponential`, and the linear bound under `NoBlobTextColumn`).

What runs here on every C18 run (real `Database`, real `Signature`, real `SignatureCarver` through the version history
iterator, in a forked worker under a wall-clock limit that reports its progress stage by stage):

  * control `text-only`: the same wide table with TEXT values only and the same filler in its unallocated space must
    finish within the limit (it does in a fraction of a second) — a time-out here is an unlisted violation;
  * control `both-10`: ten blob/text columns (2^9 attempts per start) must finish within the limit;
  * `both-26`: twenty-six blob/text columns — the known finding; reaching the limit *inside the carving stage* is matched
    by `regex_blob_text_backtracking`, a time-out in any earlier stage is not.

The database is a file SQLite accepts (`PRAGMA integrity_check` = ok is asserted): unallocated space is not covered by
any consistency rule, so the filler is "damage" no reader can refuse.
"""
import multiprocessing as mp
import os
import re
import sqlite3
import time

LIMIT = 10.0
FINDING_COLUMNS = 26


def build(path, ncols, both, page_size=4096):
    """table w(c0..c{n-1}) without declared types; one row of one-character TEXT values and — when `both` — one row of
    one-byte BLOB values; the unallocated space of its only page is filled with (n-1 x 'a', newline)*"""
    if os.path.exists(path):
        os.unlink(path)
    con = sqlite3.connect(path)
    con.execute(f"PRAGMA page_size={page_size}")
    con.execute("PRAGMA secure_delete=OFF")
    cols = ", ".join(f"c{i}" for i in range(ncols))
    con.execute(f"CREATE TABLE w({cols})")
    con.execute(f"INSERT INTO w VALUES ({', '.join(['?'] * ncols)})", ["a"] * ncols)
    con.execute(f"INSERT INTO w VALUES ({', '.join(['?'] * ncols)})", [b"a"] * ncols if both else ["b"] * ncols)
    con.commit()
    root = con.execute("SELECT rootpage FROM sqlite_master WHERE name='w'").fetchone()[0]
    con.close()
    data = bytearray(open(path, "rb").read())
    base = (root - 1) * page_size
    assert data[base] == 0x0D
    ncell = int.from_bytes(data[base + 3:base + 5], "big")
    content = int.from_bytes(data[base + 5:base + 7], "big") or 65536
    lo, hi = base + 8 + 2 * ncell, base + content
    unit = b"a" * (ncols - 1) + b"\n"
    fill = (unit * ((hi - lo) // len(unit) + 1))[:hi - lo]
    data[lo:hi] = fill
    with open(path, "wb") as fh:
        fh.write(data)
    con = sqlite3.connect(path)
    ok = con.execute("PRAGMA integrity_check").fetchone()[0]
    con.close()
    assert ok == "ok", ok
    return hi - lo


def _worker(path, conn):
    import logging
    import warnings
    warnings.filterwarnings("ignore")
    logging.disable(logging.CRITICAL)
    from sqlite_dissect import interface
    from sqlite_dissect.file.database.database import Database
    from sqlite_dissect.version_history import VersionHistory
    t0 = time.time()
    try:
        db = Database(path)
        vh = VersionHistory(db)
        conn.send(("parsed", time.time() - t0))
        sig = interface.create_table_signature("w", db, vh)
        simplified = [sorted(c) for c in sig.simplified_signature]
        conn.send(("signature", time.time() - t0, simplified))
        n = 0
        for commit in interface.get_version_history_iterator("w", vh, sig, True):
            n += len(commit.carved_cells)
        conn.send(("carved", time.time() - t0, n))
    except Exception as e:  # noqa
        conn.send(("error", time.time() - t0, type(e).__name__ + ": " + str(e)[:200]))
    conn.close()


def run_one(path, limit=LIMIT):
    """-> dict(stages reached, simplified signature, timeout flag, seconds)"""
    c = mp.get_context("fork")
    parent, child = c.Pipe(duplex=False)
    p = c.Process(target=_worker, args=(path, child))
    t0 = time.time()
    p.start()
    child.close()
    out = {"stages": [], "signature": None, "timeout": False, "carved": None, "error": None}
    while True:
        left = limit - (time.time() - t0)
        if left <= 0 or not parent.poll(left):
            out["timeout"] = p.is_alive()
            break
        try:
            msg = parent.recv()
        except EOFError:
            break
        out["stages"].append(msg[0])
        if msg[0] == "signature":
            out["signature"] = msg[2]
        if msg[0] == "carved":
            out["carved"] = msg[2]
            break
        if msg[0] == "error":
            out["error"] = msg[2]
            break
    if p.is_alive():
        p.kill()
    p.join()
    out["seconds"] = round(time.time() - t0, 2)
    return out


def growth(ns=(10, 12, 14, 16)):
    """seconds of re.finditer over 4 units of the failing subject for n blob/text columns (the real regex)"""
    from sqlite_dissect.carving.utilities import generate_signature_regex
    res = {}
    for n in ns:
        rx = re.compile(generate_signature_regex([[-1, -2]] * n))
        s = (b"a" * (n - 1) + b"\n") * 4
        t = time.perf_counter()
        assert list(rx.finditer(s)) == []
        res[n] = time.perf_counter() - t
    return res


def run(ctx, sc):
    """the three scenarios; oracle failures are recorded in ctx (the known finding through its matcher)"""
    for label, ncols, both in (("text-only", FINDING_COLUMNS, False), ("both-10", 10, True),
                               (f"both-{FINDING_COLUMNS}", FINDING_COLUMNS, True)):
        p = sc.path(f"regex_{label}.db")
        free = build(p, ncols, both)
        r = run_one(p)
        if r["timeout"] and label != f"both-{FINDING_COLUMNS}":
            r = run_one(p, 3 * LIMIT)      # a control that ran into the limit on a loaded machine is given a second, longer run
        ctx.evals += 1
        sig = r["signature"] or []
        nboth = sum(1 for c in sig if -1 in c and -2 in c)
        case = {"regex_cost": label, "columns": ncols, "blob_and_text_columns": nboth, "unallocated_bytes": free,
                "stages_reached": r["stages"], "seed": ctx.seed}
        ctx.branch(f"regex-cost:{label}:{'timeout' if r['timeout'] else 'finished'}")
        ctx.sample({"regex_cost": label, "stages": r["stages"], "seconds": r["seconds"], "timeout": r["timeout"]}, cap=9)
        if r["error"]:
            ctx.oracle_fail("regex-cost-error", f"the well-formed wide table was not processed: {r['error']}", case, r["error"], "carved")
        elif r["timeout"]:
            n0 = len(ctx.oracle_failures)
            in_carving = r["stages"] == ["parsed", "signature"]
            ctx.oracle_fail("hang-regex" if in_carving else "hang",
                            f"carving {free} bytes of unallocated space of a {ncols}-column table ({nboth} columns holding both "
                            f"TEXT and BLOB) did not finish within {LIMIT:.0f} s (stages reached: {r['stages']})",
                            case, "timeout", f"<= {LIMIT:.0f} s")
            from . import dbcommon as C
            C.keep_failing_files(ctx, n0, p)
        else:
            ctx.nontrivial.add(f"regex-cost:{label}:{r['carved']}")
    # the pattern the Lean lower bound is about (Properties/C18Regex.exponential_pattern_text: n times these 55 bytes) is
    # the pattern the real generator returns for n blob-and-text columns
    from sqlite_dissect.carving.utilities import generate_signature_regex
    unit = (b"(?:(?:[\x0D-\x7F]|[\x80-\xFF]{1,7}[\x00-\x7F])|(?:[\x0C-\x7F]|[\x80-\xFF]{1,7}[\x00-\x7F]))")
    assert len(unit) == 55
    for n in (1, 2, 7, FINDING_COLUMNS):
        ctx.evals += 1
        got = generate_signature_regex([[-1, -2]] * n)
        if got != unit * n:
            ctx.disagreements.append({"label": "regex-cost pattern", "op": f"generate_signature_regex([[-1,-2]]*{n})",
                                      "impl": repr(got)[:200], "model": f"{n} x {unit!r}"})
    g = growth()
    ctx.extra["regex_seconds_by_blob_text_columns"] = {str(k): round(v, 5) for k, v in g.items()}
    ctx.extra["regex_growth_per_column"] = round((g[16] / max(g[10], 1e-9)) ** (1 / 6), 2)


def m_regex_blob_text_backtracking(f):
    c = f.get("case") or {}
    return (f.get("kind") == "hang-regex" and c.get("blob_and_text_columns", 0) >= 20
            and c.get("stages_reached") == ["parsed", "signature"])
