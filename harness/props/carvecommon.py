"""Shared by C08 / C09: canonical forms of carved cells, signature encodings, stub objects for the real carver,
taps on the real SignatureCarver, an independent page reader."""
import hashlib
import struct

import sqlite_dissect.carving.carved_cell as CC
import sqlite_dissect.carving.carver as CV
from sqlite_dissect.carving.carver import SignatureCarver
from sqlite_dissect.constants import CELL_LOCATION, CELL_SOURCE

from ..impl.canon import err, hx

LOC = {CELL_LOCATION.UNALLOCATED_SPACE: "unalloc", CELL_LOCATION.FREEBLOCK: "freeblock",
       CELL_LOCATION.ALLOCATED_SPACE: "allocated"}
LOC_REV = {v: k for k, v in LOC.items()}


def fnv(b):
    h = 14695981039346656037
    for x in bytes(b):
        h = ((h ^ x) * 1099511628211) % 18446744073709551616
    return h


# ------------------------------------------------------------------------------------ signature encoding
def enc_cols(sig):
    if not sig:
        return "-"
    return ";".join(",".join(map(str, c)) if c else "e" for c in sig)


def enc_prob(prob, denoms=None):
    """prob: list (per column) of [(type, probability)]; probabilities are float(n)/d with d = the column count;
    they are sent as exact fractions over a common denominator found from the floats"""
    if not prob:
        return "-"
    out = []
    for ci, col in enumerate(prob):
        if not col:
            out.append("e")
            continue
        d = denoms[ci] if denoms else None
        ents = []
        for t, p in col:
            if d is None:
                # smallest denominator that reproduces the float
                dd = 1
                while dd < 100000 and float(round(p * dd)) / dd != p:
                    dd += 1
                n, dn = int(round(p * dd)), dd
            else:
                n, dn = int(round(p * d)), d
            ents.append(f"{t}:{n}/{dn}")
        out.append(",".join(ents))
    return ";".join(out)


class StubSig:
    """what SignatureCarver / CarvedRecord read from a Signature"""

    def __init__(self, simplified, nc=None, total=None, recommended=None, prob=None):
        self.simplified_signature = simplified
        self.recommended_schema_signature = recommended if recommended is not None else []
        eff = simplified or self.recommended_schema_signature
        self.number_of_columns = nc if nc is not None else len(eff)
        self.total_records = total if total is not None else (5 if simplified else 0)
        self.simplified_probabilistic_signature = prob if prob is not None else []
        self.name = "t"
        self.table_name = "t"
        self._denoms = None

    def __bool__(self):
        return True


def sig_tokens(sig):
    """the five wire tokens for a real Signature or a StubSig"""
    prob = sig.simplified_probabilistic_signature
    denoms = getattr(sig, "_denoms", None)
    if denoms is None and hasattr(sig, "table_column_signatures"):
        denoms = [t.count for t in sig.table_column_signatures]
    return (f"{sig.number_of_columns} {sig.total_records} {enc_cols(sig.simplified_signature)} "
            f"{enc_cols(sig.recommended_schema_signature)} {enc_prob(prob, denoms)}")


class StubVersion:
    def __init__(self, page_size, version_number=0):
        self.page_size = page_size
        self.version_number = version_number
        self.database_text_encoding = "utf-8"

    def get_page_offset(self, n):
        raise AssertionError("page offset is given explicitly")


class StubFreeblock:
    def __init__(self, page_number, index, start_offset, byte_size, content):
        self.page_number = page_number
        self.index = index
        self.start_offset = start_offset
        self.content_start_offset = start_offset + 4
        self.byte_size = byte_size
        self.content = content


# ------------------------------------------------------------------------------------ canonical cells
def show_value(col):
    v = col.value
    if v is None:
        return "null"
    if col.truncated_value:
        return "raw:" + hx(v)
    if isinstance(v, bool):
        return "int:%d" % int(v)
    if isinstance(v, int):
        return "int:%d" % v
    if isinstance(v, float):
        return "real:%d" % struct.unpack(">Q", struct.pack(">d", v))[0]
    if isinstance(v, (bytes, bytearray)):
        return ("blob:" if col.serial_type % 2 == 0 else "text:") + hx(v)
    return "other:" + type(v).__name__


def b01(x):
    return "1" if x else "0"


def show_col(c):
    return (f"{c.serial_type}:{c.serial_type_varint_length}:{int(c.content_size)}:{show_value(c)}:"
            f"{b01(c.truncated_value)}{b01(c.truncated_first_serial_type)}"
            f"{b01(getattr(c, 'probabilistic_first_serial_type', False))}")


def show_rec(p, cs=None, ce=None):
    cs = int(p.cell_start_offset) if cs is None else cs
    ce = int(p.cell_end_offset) if ce is None else ce
    return (f"cs={cs},ce={ce},bs={int(p.body_start_offset)},tb={b01(p.truncated_beginning)},"
            f"te={b01(p.truncated_ending)},cols=[{'|'.join(show_col(c) for c in p.record_columns)}]")


def show_cell(c, data=None):
    data = getattr(c, "_vdata", None) if data is None else data
    p = c.payload
    if data is None:
        dg = "nodata"
    else:
        raw = bytes(data[p.serial_type_definition_start_offset:c.end_offset])
        dg = f"{len(raw)}/{fnv(raw)}" if hashlib.md5(raw).hexdigest().upper() == c.md5_hex_digest else "bad-md5"
    if c.byte_size != c.end_offset - c.start_offset:
        dg += "!size"
    return (f"fo={c.file_offset},pn={c.page_number},loc={LOC.get(c.location, '?')},ix={c.index},"
            f"ms={p.serial_type_definition_start_offset},me={p.serial_type_definition_end_offset},"
            f"co={p.cutoff_offset},dg={dg},{show_rec(p, c.start_offset, c.end_offset)}")


def show_cells(cells, data=None):
    cells = list(cells)
    return "ok " + (";".join(show_cell(c, data) for c in cells) if cells else "-")


# ------------------------------------------------------------------------------------ tap
class CellTap:
    """keeps the data every CarvedBTreeCell was built from (needed to check its digest), and optionally records the
    arguments and results of every SignatureCarver call made by the code under test"""

    def __enter__(self):
        self.calls = []
        self._init = CC.CarvedBTreeCell.__init__
        init = self._init

        def wrapped(cell, version, file_offset, source, page_number, location, index, data, *a, **k):
            init(cell, version, file_offset, source, page_number, location, index, data, *a, **k)
            cell._vdata = data
            cell._vversion = version
        CC.CarvedBTreeCell.__init__ = wrapped
        self._cu = SignatureCarver.carve_unallocated_space
        self._cf = SignatureCarver.carve_freeblocks
        cu, cf = self._cu, self._cf
        tap = self

        def carve_unallocated_space(version, source, page_number, start, data, signature, page_offset=None):
            rec = {"kind": "unalloc", "version": version, "source": source, "page": page_number, "start": start,
                   "data": data, "sig": signature, "page_offset": page_offset}
            tap.calls.append(rec)
            try:
                out = cu(version, source, page_number, start, data, signature, page_offset)
            except Exception as e:  # noqa
                rec["exc"] = e
                raise
            rec["out"] = out
            return out

        def carve_freeblocks(version, source, freeblocks, signature):
            rec = {"kind": "freeblocks", "version": version, "source": source, "freeblocks": list(freeblocks),
                   "sig": signature}
            tap.calls.append(rec)
            try:
                out = cf(version, source, freeblocks, signature)
            except Exception as e:  # noqa
                rec["exc"] = e
                raise
            rec["out"] = out
            return out
        SignatureCarver.carve_unallocated_space = staticmethod(carve_unallocated_space)
        SignatureCarver.carve_freeblocks = staticmethod(carve_freeblocks)
        return self

    def __exit__(self, *a):
        CC.CarvedBTreeCell.__init__ = self._init
        SignatureCarver.carve_unallocated_space = staticmethod(self._cu)
        SignatureCarver.carve_freeblocks = staticmethod(self._cf)


# ------------------------------------------------------------------------------------ region ops
def region_line(sig, loc, page_size, page_offset, start, fb_size, data):
    return (f"carve.region {sig_tokens(sig)} {loc} {page_size} {page_offset} {start} "
            f"{fb_size if fb_size is not None else '-'} {hx(data)}")


def run_region(sig, loc, page_size, page_offset, start, data, fb_size=None):
    """the real carver on one region through stub objects; data's Python type is kept (bytes / bytearray)"""
    v = StubVersion(page_size)
    v.get_page_offset = lambda n: page_offset
    try:
        if loc == "unalloc":
            cells = SignatureCarver.carve_unallocated_space(v, CELL_SOURCE.B_TREE, 1, start, data, sig, page_offset)
        else:
            fb = StubFreeblock(1, 0, start, fb_size, data)
            cells = SignatureCarver.carve_freeblocks(v, CELL_SOURCE.B_TREE, [fb], sig)
        return show_cells(cells, data), cells, None
    except Exception as e:  # noqa
        return err(e), None, e


# ------------------------------------------------------------------------------------ independent readers
def get_varint(b, off):
    """SQLite varint (fileformat §"varint"), independent of sqlite_dissect"""
    v = 0
    for i in range(9):
        if off + i >= len(b):
            return None, 0
        x = b[off + i]
        if i == 8:
            return (v << 8) | x, 9
        v = (v << 7) | (x & 0x7F)
        if not x & 0x80:
            return v, i + 1
    return None, 0


def put_varint(v):
    if v < 0:
        v += 1 << 64
    if v <= 0x7F:
        return bytes([v])
    if v >> 56:
        out = [v & 0xFF]
        v >>= 8
        for _ in range(8):
            out.insert(0, (v & 0x7F) | 0x80)
            v >>= 7
        return bytes(out)
    out = [v & 0x7F]
    v >>= 7
    while v:
        out.insert(0, (v & 0x7F) | 0x80)
        v >>= 7
    return bytes(out)


def serial_size(st):
    if st < 12:
        return [0, 1, 2, 3, 4, 6, 8, 8, 0, 0, None, None][st]
    return (st - 12) // 2


def decode_body(st, b):
    """value of serial type st from exactly its body bytes, as canonical string (format spec §2.1)"""
    if st == 0:
        return "null"
    if st in (1, 2, 3, 4, 5, 6):
        return "int:%d" % int.from_bytes(b, "big", signed=True)
    if st == 7:
        return "real:%d" % int.from_bytes(b, "big")
    if st == 8:
        return "int:0"
    if st == 9:
        return "int:1"
    if st >= 12:
        return ("blob:" if st % 2 == 0 else "text:") + hx(b)
    return "invalid"


def page_layout(page, page_no, usable=None):
    """independent reading of a b-tree page: returns dict(kind, cells=[(start,end)], freeblocks=[(start,size)],
    unalloc=(start,end)) or None when the page is not a table b-tree page.  Overflowing cells are cut at the local
    payload (btree.c btreeParseCellPtr)."""
    u = usable or len(page)
    h = 100 if page_no == 1 else 0
    t = page[h]
    if t not in (0x0D, 0x05, 0x0A, 0x02):
        return None
    hdr = 8 if t in (0x0D, 0x0A) else 12
    first_fb, ncell, content = struct.unpack(">HHH", page[h + 1:h + 7])
    content = content or 65536
    ptrs = [struct.unpack(">H", page[h + hdr + 2 * i:h + hdr + 2 * i + 2])[0] for i in range(ncell)]
    cells = []
    for p in ptrs:
        o = p
        if t in (0x05, 0x02):
            o += 4
        if t == 0x05:
            _, n = get_varint(page, o)
            cells.append((p, o + n))
            continue
        pay, n = get_varint(page, o)
        o += n
        if t == 0x0D:
            _, n = get_varint(page, o)
            o += n
            maxl = u - 35
        else:
            maxl = (u - 12) * 64 // 255 - 23
        minl = (u - 12) * 32 // 255 - 23
        if pay <= maxl:
            cells.append((p, o + pay))
        else:
            k = minl + (pay - minl) % (u - 4)
            cells.append((p, o + (k if k <= maxl else minl) + 4))
    fbs = []
    f = first_fb
    guard = 0
    while f and guard < 10000:
        nxt, size = struct.unpack(">HH", page[f:f + 4])
        fbs.append((f, size))
        f = nxt
        guard += 1
    return {"kind": t, "cells": cells, "freeblocks": fbs, "unalloc": (h + hdr + 2 * ncell, content)}


# ------------------------------------------------------------------------------------ exceptions
def exc_info(e):
    """class, message and innermost sqlite_dissect frame of an exception (what the finding matchers look at)"""
    import traceback
    where = "?"
    for fr in traceback.extract_tb(e.__traceback__):
        if "sqlite_dissect" in fr.filename:
            where = f"{fr.filename.split('sqlite_dissect/')[-1]}:{fr.name}"
    return {"class": type(e).__name__, "msg": str(e)[:160], "where": where}


# ------------------------------------------------------------------------------------ scenarios (SQL scripts)
import os
import shutil
import sqlite3


def canon_sql_value(ty, hexv, val):
    """canonical value string (as show_value prints) of what SQLite reports as (typeof, hex, value)"""
    if ty == "null":
        return "null"
    if ty == "integer":
        return "int:%d" % val
    if ty == "real":
        return "real:%d" % struct.unpack(">Q", struct.pack(">d", val))[0]
    if ty == "text":
        return "text:" + (hexv.lower() if hexv else "-")
    if ty == "blob":
        return "blob:" + (hexv.lower() if hexv else "-")
    return "?"


def table_rows(con, table):
    cols = [r[1] for r in con.execute(f'PRAGMA table_info("{table}")')]
    info = list(con.execute(f'PRAGMA table_info("{table}")'))
    pk = [r for r in info if r[5]]
    alias = len(pk) == 1 and (pk[0][2] or "").upper() == "INTEGER" and pk[0][0] == 0
    sel = ", ".join(f'typeof("{c}"), hex("{c}"), "{c}"' for c in cols)
    rows = {}
    for row in con.execute(f'SELECT rowid, {sel} FROM "{table}"'):
        vals = [canon_sql_value(row[1 + 3 * i], row[2 + 3 * i], row[3 + 3 * i]) for i in range(len(cols))]
        if alias:
            vals[0] = "null"          # the rowid alias is stored as NULL in the record
        rows[row[0]] = vals
    return rows


class Scenario:
    """files + what SQLite said: rows[k] = {rowid: [canonical values]} after step k (k = 0: after setup)"""

    def __init__(self):
        self.db = self.wal = self.journal = None
        self.rows = []
        self.spec = None
        self.pre = []          # pre[k] = (db copy, wal copy or None) taken before step k+1


def build_scenario(dirpath, spec, name="s", snapshots=False):
    """spec: page_size, mode db|wal|journal, encoding?, auto_vacuum?, table (default t), setup [sql], steps [[sql]]"""
    work = os.path.join(dirpath, name + ".work.db")
    for suf in ("", "-wal", "-shm", "-journal"):
        if os.path.exists(work + suf):
            os.unlink(work + suf)
    mode = spec.get("mode", "db")
    table = spec.get("table", "t")
    con = sqlite3.connect(work, isolation_level=None)
    con.execute(f"PRAGMA page_size={spec.get('page_size', 1024)}")
    con.execute(f"PRAGMA encoding='{spec.get('encoding', 'UTF-8')}'")
    con.execute(f"PRAGMA auto_vacuum={spec.get('auto_vacuum', 0)}")
    con.execute("PRAGMA secure_delete=OFF")
    keeper = None
    if mode == "wal":
        con.execute("PRAGMA journal_mode=WAL")
        con.execute("PRAGMA wal_autocheckpoint=0")
        con.execute("PRAGMA synchronous=OFF")
        keeper = sqlite3.connect(work, isolation_level=None)
        keeper.execute("PRAGMA wal_autocheckpoint=0")
    elif mode == "journal":
        con.execute("PRAGMA journal_mode=PERSIST")
    sc = Scenario()
    sc.spec = spec
    con.execute("BEGIN")
    for q in spec.get("setup", []):
        con.execute(q)
    con.execute("COMMIT")
    if mode == "wal":
        con.execute("PRAGMA wal_checkpoint(TRUNCATE)")
    sc.rows.append(table_rows(con, table))
    for si, step in enumerate(spec.get("steps", [])):
        if snapshots:
            pdb = os.path.join(dirpath, f"{name}.pre{si}.db")
            shutil.copyfile(work, pdb)
            pwal = None
            if mode == "wal" and os.path.exists(work + "-wal") and os.path.getsize(work + "-wal") > 0:
                pwal = pdb + "-wal"
                shutil.copyfile(work + "-wal", pwal)
            sc.pre.append((pdb, pwal))
        con.execute("BEGIN")
        for q in step:
            con.execute(q)
        con.execute("COMMIT")
        sc.rows.append(table_rows(con, table))
    sc.db = os.path.join(dirpath, name + ".db")
    if mode == "wal":
        shutil.copyfile(work, sc.db)
        if os.path.exists(work + "-wal") and os.path.getsize(work + "-wal") > 0:
            sc.wal = sc.db + "-wal"
            shutil.copyfile(work + "-wal", sc.wal)
        keeper.close()
        con.close()
    else:
        con.close()
        shutil.copyfile(work, sc.db)
        if mode == "journal" and os.path.exists(work + "-journal"):
            sc.journal = sc.db + "-journal"
            shutil.copyfile(work + "-journal", sc.journal)
    for suf in ("", "-wal", "-shm", "-journal"):
        if os.path.exists(work + suf):
            os.unlink(work + suf)
    return sc


def differential(ctx, cases, label, nontrivial):
    """ctx.differential, except that a case the model declares outside its fragment (a content size that no longer
    fits a float exactly) is counted and not compared"""
    from ..core import h
    from ..leanio import driver as _driver
    if not cases:
        return []
    answers = _driver.ask([c[0] for c in cases])
    shown = 0
    for (line, impl), model in zip(cases, answers):
        if "outsideModel" in model:
            ctx.branch(f"{label}:outside-model(float-range)")
            continue
        ctx.evals += 1
        if nontrivial(line, impl):
            ctx.nontrivial.add(h(line))
        kind = impl.split(" ", 1)[0] if " " in impl[:12] and "ok" in impl[:12] else impl
        ctx.branches[f"{label}:{kind[:40]}"] += 1
        if impl != model:
            ctx.disagreements.append({"label": label, "op": line[:3000], "impl": impl[:2000], "model": model[:2000]})
        elif shown < 2 and nontrivial(line, impl):
            ctx.sample({"op": line[:300], "impl": impl[:300], "model": model[:300]})
            shown += 1
    return answers


# ------------------------------------------------------------------------------------ independent table reader
def leaf_cells(page, page_no):
    """table leaf cells of a page image: list of dict(rowid, start, hs (first serial type), he (end of the serial
    types), be (end of the body), types, local) — local False when the payload overflows"""
    u = len(page)
    h = 100 if page_no == 1 else 0
    if page[h] != 0x0D:
        return []
    ncell = struct.unpack(">H", page[h + 3:h + 5])[0]
    out = []
    for i in range(ncell):
        p = struct.unpack(">H", page[h + 8 + 2 * i:h + 10 + 2 * i])[0]
        pay, n1 = get_varint(page, p)
        rid, n2 = get_varint(page, p + n1)
        if rid >= 1 << 63:
            rid -= 1 << 64
        o = p + n1 + n2
        hsz, n3 = get_varint(page, o)
        hs, he = o + n3, o + hsz
        types, q = [], hs
        while q < he:
            t, k = get_varint(page, q)
            types.append(t)
            q += k
        local = pay <= u - 35
        be = he + sum(serial_size(t) or 0 for t in types)
        out.append({"rowid": rid, "start": p, "hs": hs, "he": he, "be": be, "types": types, "local": local,
                    "payload_end": o + pay})
    return out


def table_leaves(read_page, root):
    """page numbers of the leaves of the table b-tree rooted at root (read_page(n) -> page image)"""
    out, stack, guard = [], [root], 0
    while stack and guard < 100000:
        guard += 1
        n = stack.pop()
        page = read_page(n)
        h = 100 if n == 1 else 0
        t = page[h]
        if t == 0x0D:
            out.append(n)
        elif t == 0x05:
            ncell = struct.unpack(">H", page[h + 3:h + 5])[0]
            for i in range(ncell):
                p = struct.unpack(">H", page[h + 12 + 2 * i:h + 14 + 2 * i])[0]
                stack.append(struct.unpack(">I", page[p:p + 4])[0])
            stack.append(struct.unpack(">I", page[h + 8:h + 12])[0])
    return out


def table_root(path, table):
    con = sqlite3.connect(f"file:{path}?mode=ro&immutable=1", uri=True)
    try:
        return con.execute("SELECT rootpage FROM sqlite_master WHERE name=?", (table,)).fetchone()[0]
    finally:
        con.close()


def table_pages(read_page, root, usable):
    """every page of the table b-tree rooted at root: interior and leaf pages and the overflow pages of its cells"""
    out, stack, guard = set(), [root], 0
    while stack and guard < 100000:
        guard += 1
        n = stack.pop()
        if n in out or n == 0:
            continue
        out.add(n)
        page = read_page(n)
        h = 100 if n == 1 else 0
        t = page[h]
        if t == 0x05:
            ncell = struct.unpack(">H", page[h + 3:h + 5])[0]
            for i in range(ncell):
                p = struct.unpack(">H", page[h + 12 + 2 * i:h + 14 + 2 * i])[0]
                stack.append(struct.unpack(">I", page[p:p + 4])[0])
            stack.append(struct.unpack(">I", page[h + 8:h + 12])[0])
        elif t == 0x0D:
            ncell = struct.unpack(">H", page[h + 3:h + 5])[0]
            for i in range(ncell):
                p = struct.unpack(">H", page[h + 8 + 2 * i:h + 10 + 2 * i])[0]
                pay, n1 = get_varint(page, p)
                _, n2 = get_varint(page, p + n1)
                if pay > usable - 35:
                    minl = (usable - 12) * 32 // 255 - 23
                    k = minl + (pay - minl) % (usable - 4)
                    local = k if k <= usable - 35 else minl
                    o = p + n1 + n2 + local
                    ov = struct.unpack(">I", page[o:o + 4])[0]
                    g2 = 0
                    while ov and ov not in out and g2 < 100000:
                        out.add(ov)
                        ov = struct.unpack(">I", read_page(ov)[:4])[0]
                        g2 += 1
    return out
