"""C10 — a table's generated signature admits every live row of that table."""
import os
import re
import sqlite3

import sqlite_dissect.carving.signature as S
from sqlite_dissect import interface
from sqlite_dissect.carving.signature import Signature
from sqlite_dissect.carving.utilities import generate_signature_regex
from sqlite_dissect.file.database.database import Database
from sqlite_dissect.file.database.page import TableInteriorPage, TableLeafPage, IndexInteriorPage, IndexLeafPage
from sqlite_dissect.file.schema.master import IndexRow, OrdinaryTableRow, VirtualTableRow
from sqlite_dissect.version_history import VersionHistory
from sqlite_dissect.file.wal.wal import WriteAheadLog
from sqlite_dissect.utilities import get_serial_type_signature

from ..gen import histories as H, sqlite_factory as F
from ..gen.values import put_varint
from ..impl.canon import classify, err, guarded, hx
from ..leanio import driver
from . import dbcommon as C

ID = "C10"
LEAN_MODULES = ["SqliteDissect.Properties.C10"]
RULE = ("(a) generate_signature_regex on generated signatures (1-200 columns, every subset shape of {-2,-1,0..9}, "
        "duplicates, out-of-range and empty arrays, both skip_first values) compared byte for byte with the model's "
        "printer; Model.Regex.fullMatch / search / finditer compared with Python re on the real regex bytes over "
        "generated serial-type headers (valid, multi-byte and nine-byte varints, near misses, random bytes); real "
        "Signature objects built (1) over synthetic row sets through a stub version history (every storage class in one "
        "column, 1-200 columns, serial types needing 2-9 byte varints, duplicate digests inside and across versions, "
        "ADD COLUMN shapes, reserved/negative serial types, rows wider than the schema, every affinity, every entry "
        "kind, entry absent) and (2) over SQLite-written databases and WAL histories, fed to the model with exactly the "
        "cells the real code examined (tap on aggregate_leaf_cells). (b) for every version in the signature's range and "
        "every live row SQLite reports there: stored serial type in the focused signature, class in the simplified "
        "signature, full-width rows full-match the real regex, unique/total counts, probabilities sum to 1, empty "
        "tables get the affinity table. non-trivial = distinct accepted signature dumps with at least one row, distinct "
        "accepted regexes, distinct (regex, header) pairs that match")
ASSUMPTIONS = [
    "md5 is collision-free on the cell byte strings seen: the model carries a digest as an opaque number and the theorems assume equal digests imply equal serial types",
    "which versions of a history are re-parsed (b_tree_updated) is VersionParser / version-history logic (C03); the signature model takes the parsed versions as input",
    "Python re implements ordered alternation and greedy bounded repetition for the emitted fragment as Model.Regex.m does (validated on every run, not proved)",
    "serial types are below 2^56 (blobs/texts under 2^55 bytes): the emitted pattern admits varints of at most eight bytes",
    "probabilities are exact rationals in the model; the code's float(n)/d is checked to be that quotient bit for bit",
]
TRUSTED_EXTRA = ["Python re for the emitted regex fragment (compared with Model.Regex.fullMatch/search/finditer on every run)"]

AFF_LETTER = {"INTEGER": "I", "REAL": "R", "TEXT": "T", "BLOB": "B", "NUMERIC": "N"}
LETTER_AFF = {v: k for k, v in AFF_LETTER.items()}
LETTER_AFF["X"] = "BOGUS"


# ------------------------------------------------------------------------------------ encodings
def or_dash(s):
    return s if s else "-"


def enc_versions(versions):
    if versions is None:
        return "none"
    if not versions:
        return "."
    out = []
    for v in versions:
        out.append(";".join(",".join(map(str, ts)) + "#" + str(d) for d, ts in v) if v else "-")
    return "/".join(out)


def enc_sig(sig):
    if not sig:
        return "-"
    return ";".join(",".join(map(str, c)) if c else "e" for c in sig)


def show_ints(l):
    return or_dash(",".join(map(str, l)))


def show_cols(l):
    return or_dash("|".join(show_ints(c) for c in l))


def frac(p, n, d):
    """the model prints n/d; the code computed float(n)/d — print n/d only if that is what p is"""
    if d == 0:
        return "0" if (p == 0 and isinstance(p, int)) else "bad:" + repr(p)
    if isinstance(p, float) and float(n) / d == p:
        return f"{n}/{d}"
    return "bad:" + repr(p)


def numer(p, d):
    n = int(round(p * d)) if isinstance(p, float) else -1
    return n


def show_prob(l, d):
    return or_dash(",".join(f"{t}:{frac(p, numer(p, d), d)}" for t, p in l))


def show_signature(sig):
    alt = getattr(sig, "altered_columns", None)
    alt = "-" if alt is None else str(int(alt))
    bd = getattr(sig, "column_breakdown", None)
    if bd is None:
        bd = "none"
    else:
        bd = or_dash(",".join(f"{k}:{c}:{frac(p, c, sig.unique_records)}" for k, (c, p) in bd.items()))
    rows = or_dash(";".join(f"{k}:{r.count}:{len(r.column_signatures)}" for k, r in sig.table_row_signatures.items()))
    tcs = or_dash("|".join(f"{t.index}:{t.count}" for t in sig.table_column_signatures))
    fp = or_dash("|".join(show_prob(t.focused_probabilistic_signature, t.count) for t in sig.table_column_signatures))
    sp = or_dash("|".join(show_prob(t.simplified_probabilistic_signature, t.count) for t in sig.table_column_signatures))
    # the Signature-level properties are what the property observes: they must equal the per-column ones
    if [show_prob(x, t.count) for x, t in zip(sig.focused_probabilistic_signature, sig.table_column_signatures)] != \
            [show_prob(t.focused_probabilistic_signature, t.count) for t in sig.table_column_signatures]:
        fp = "inconsistent"
    return (f"ok nc={sig.number_of_columns} tot={sig.total_records} uniq={sig.unique_records} alt={alt} bd={bd} "
            f"rows={rows} tcs={tcs} f={show_cols(sig.focused_signature)} s={show_cols(sig.simplified_signature)} "
            f"fp={fp} sp={sp} rec={show_cols(sig.recommended_schema_signature)} "
            f"cmp={show_cols(sig.complete_schema_signature)}")


def regex_out(sig, skip):
    return guarded(lambda: "ok " + hx(generate_signature_regex([list(c) for c in sig], skip)))


# ------------------------------------------------------------------------------------ regex correspondence
BASIC = list(range(10))


def gen_column(r):
    k = r.random()
    if k < 0.30:
        return [r.choice([-2, -1] + BASIC)]
    if k < 0.80:
        n = r.randint(2, 12)
        return sorted(r.sample([-2, -1] + BASIC, n))
    if k < 0.86:                      # unsorted / duplicated
        return [r.choice([-2, -1] + BASIC) for _ in range(r.randint(2, 12))]
    if k < 0.90:
        return r.choice([[-1, -1], [-2, -2], [-1, -1, -1], [-2, -2, 3], [-1, -1, 3], [-1, -2], [-2, -1], [-1, -2, -1]])
    if k < 0.93:
        return []
    if k < 0.96:                      # too many
        return [r.choice([-2, -1] + BASIC) for _ in range(r.randint(13, 16))]
    return [r.choice([10, 11, 12, 13, -3, 255, 2 ** 40, -(2 ** 65), 0, 1])] + \
           ([r.choice(BASIC + [10, -3, 100])] if r.random() < 0.5 else [])


def gen_valid_column(r):
    k = r.random()
    if k < 0.35:
        return [r.choice([-2, -1] + BASIC)]
    return sorted(r.sample([-2, -1] + BASIC, r.randint(2, 12)))


def regex_correspondence(ctx):
    r = ctx.rng
    n = 9000 if ctx.thorough() else 2500
    sigs = []
    # every single alternative, every pair, all twelve
    for t in [-2, -1] + BASIC + [10, 11, 12, -3]:
        sigs.append([[t]])
    for a in [-2, -1] + BASIC:
        for b in [-2, -1] + BASIC:
            sigs.append([[a, b]])
    sigs.append([[-2, -1] + BASIC])
    sigs.append([])
    sigs.append([[1]])
    # the nine literal signatures of the repository's own test are a subset of these shapes
    for _ in range(n):
        k = r.random()
        ncols = r.choice([1, 1, 2, 3, 4, 6, 10, 25]) if k < 0.9 else r.choice([60, 128, 200])
        if r.random() < 0.75:
            sigs.append([gen_valid_column(r) for _ in range(ncols)])
        else:
            sigs.append([gen_column(r) for _ in range(ncols)])
    cases = []
    for s in sigs:
        for skip in (0, 1):
            out = regex_out(s, bool(skip))
            cases.append((f"sig.regex {enc_sig(s)} {skip}", out))
            ctx.branch("regex:multi-col" if len(s) > 1 else "regex:0-1-col")
    ctx.differential(cases, "sig.regex")
    return sigs


# ------------------------------------------------------------------------------------ matcher vs re
def type_for(r, alt):
    """a serial type whose simplified form is `alt`"""
    if alt == -1:
        return r.choice([12, 12, 14, 16, 126, 128, 130, 254, 16382, 16384, 2 ** 21 + 2, 2 ** 28, 2 ** 35 + 4, 2 ** 42,
                         2 ** 49 + 6, 2 ** 56 - 2, 2 ** 56, 2 ** 63 - 1 - 1, 12 + 2 * r.randint(0, 5000)])
    if alt == -2:
        return r.choice([13, 13, 15, 17, 127, 129, 131, 255, 16383, 16385, 2 ** 21 + 1, 2 ** 28 + 1, 2 ** 35 + 5,
                         2 ** 42 + 1, 2 ** 49 + 7, 2 ** 56 - 1, 2 ** 56 + 1, 2 ** 63 - 1, 13 + 2 * r.randint(0, 5000)])
    return alt


def header_of(types):
    return b"".join(put_varint(t) for t in types)


class RowRegex:
    """re.fullmatch of the real regex on a row's serial-type header, without Python re's exponential backtracking:
    a column holding both -1 and -2 matches a one-byte text/blob type in two ways, so a header that fails at a late
    column costs 2^(such columns before it).  The header is a concatenation of canonical varints below 2^56 and
    every column pattern matches exactly one varint-shaped token, so the whole pattern matches iff every column
    pattern matches its own varint; the whole pattern is still run whenever that is cheap (all columns match, or
    few two-way columns) and is the verdict then."""

    def __init__(self, sim):
        self.whole = re.compile(generate_signature_regex(sim))
        self.cols = [re.compile(generate_signature_regex([c])) for c in sim]
        self.doubles = sum(1 for c in sim if -1 in c and -2 in c)

    def admits(self, types):
        per = all(rx.fullmatch(put_varint(t)) for rx, t in zip(self.cols, types))
        if per or self.doubles <= 14:
            return self.whole.fullmatch(header_of(types)) is not None
        return False


def gen_headers(r, sig, n):
    """valid headers for sig, near misses, and noise"""
    out = []
    cols = [c for c in sig if c]
    for _ in range(n):
        k = r.random()
        types = [type_for(r, r.choice(c)) for c in cols]
        hdr = bytearray(header_of(types))
        if k < 0.45:
            pass
        elif k < 0.55 and hdr:
            i = r.randrange(len(hdr))
            hdr[i] = r.choice([0, 9, 10, 11, 12, 13, 14, 0x7F, 0x80, 0x81, 0xFF, hdr[i] ^ 1, hdr[i] ^ 0x80])
        elif k < 0.62 and hdr:
            del hdr[r.randrange(len(hdr))]
        elif k < 0.69:
            hdr.insert(r.randint(0, len(hdr)), r.choice([0, 1, 12, 13, 0x80, 0xFF, 0x7F]))
        elif k < 0.80:
            # a type the column does not list
            types = [type_for(r, r.choice([-2, -1] + BASIC)) for _ in cols]
            hdr = bytearray(header_of(types))
        elif k < 0.86:
            hdr = hdr[:r.randint(0, len(hdr))]
        elif k < 0.92:
            hdr += bytes(r.choice([0, 1, 12, 13, 0x80, 0xFF]) for _ in range(r.randint(1, 3)))
        else:
            hdr = bytearray(r.choice([0, 1, 8, 9, 12, 13, 14, 0x7F, 0x80, 0x81, 0xFF, r.randrange(256)])
                            for _ in range(r.randint(0, len(hdr) + 3)))
        out.append(bytes(hdr))
    return out


def matcher_validation(ctx):
    r = ctx.rng
    n_sigs = 2400 if ctx.thorough() else 420
    per = 40 if ctx.thorough() else 30
    lines, want = [], []
    for i in range(n_sigs):
        ncols = r.choice([1, 1, 2, 3, 4, 6, 9]) if r.random() < 0.93 else r.choice([30, 80])
        sig = [gen_valid_column(r) for _ in range(ncols)]
        # both sides backtrack exponentially in the number of columns listing -1 and -2 (see RowRegex)
        doubles = 0
        for c in sig:
            if -1 in c and -2 in c:
                doubles += 1
                if doubles > 10:
                    c.remove(r.choice([-1, -2]))
        skip = r.random() < 0.15
        try:
            rx = re.compile(generate_signature_regex(sig, skip))
        except Exception as e:  # noqa
            ctx.notes.append(f"matcher validation: valid signature rejected {sig}: {e}")
            continue
        eff = sig[1:] if skip else sig
        for hdr in gen_headers(r, eff, per):
            got = rx.fullmatch(hdr) is not None
            lines.append(f"re.fullmatch {enc_sig(sig)} {int(skip)} {hx(hdr)}")
            want.append("true" if got else "false")
            ctx.branch("re.fullmatch:" + ("match" if got else "no-match"))
        # scanning: a buffer with embedded headers and noise
        for _ in range(3):
            buf = bytearray()
            for _ in range(r.randint(0, 4)):
                buf += bytes(r.choice([0, 1, 5, 12, 13, 0x80, 0xFF, r.randrange(256)]) for _ in range(r.randint(0, 6)))
                if r.random() < 0.7:
                    buf += gen_headers(r, eff, 1)[0]
            buf = bytes(buf)
            lines.append(f"re.finditer {enc_sig(sig)} {int(skip)} {hx(buf)}")
            want.append("ok " + or_dash(",".join(f"{m.start()}-{m.end()}" for m in rx.finditer(buf))))
            m = rx.search(buf)
            lines.append(f"re.search {enc_sig(sig)} {int(skip)} {hx(buf)}")
            want.append(f"ok {m.start()}-{m.end()}" if m else "none")
            ctx.branch("re.scan")
    # the empty pattern (single-column table with skip_first)
    for buf in (b"", b"\x00", b"\x01\x02\x03"):
        rx = re.compile(generate_signature_regex([[1]], True))
        lines.append(f"re.finditer 1 1 {hx(buf)}")
        want.append("ok " + or_dash(",".join(f"{m.start()}-{m.end()}" for m in rx.finditer(buf))))
        lines.append(f"re.fullmatch 1 1 {hx(buf)}")
        want.append("true" if rx.fullmatch(buf) else "false")
    for op in ("re.fullmatch", "re.search", "re.finditer"):
        ctx.differential([(l, w) for l, w in zip(lines, want) if l.startswith(op + " ")], op,
                         nontrivial=lambda line, out: out not in ("false", "none", "ok -"))
    ctx.extra["matcher_vs_re_cases"] = len(lines)


# ------------------------------------------------------------------------------------ stub version history
class _Obj:
    def __init__(self, **kw):
        self.__dict__.update(kw)


def stub_record(digest, types):
    cols = [_Obj(serial_type=t) for t in types]
    payload = _Obj(record_columns=cols,
                   serial_type_signature="".join(str(get_serial_type_signature(t)) for t in types))
    return _Obj(md5_hex_digest="%032x" % digest, payload=payload, has_overflow=False)


def stub_leaf(number, cells):
    p = object.__new__(TableLeafPage)
    p.number = number
    p.cells = cells
    return p


def stub_tree(r, number, cells):
    """a leaf, or (sometimes) an interior page over two leaves: aggregate_leaf_cells visits the right-most
    child first; returns (root page, cells in visiting order)"""
    if len(cells) >= 2 and r.random() < 0.3:
        k = r.randint(1, len(cells) - 1)
        left, right = cells[:k], cells[k:]
        p = object.__new__(TableInteriorPage)
        p.number = number
        p.right_most_page = stub_leaf(number + 1000, right)
        p.cells = [_Obj(left_child_page=stub_leaf(number + 2000, left), has_overflow=False)]
        return p, right + left
    return stub_leaf(number, cells), cells


def stub_entry(kind, affs, root, sql="CREATE TABLE t (…)"):
    coldefs = [_Obj(column_name=f"c{i}", derived_data_type_name=None, data_type=None, type_affinity=LETTER_AFF[a])
               for i, a in enumerate(affs)]
    if kind == "v":
        e = object.__new__(VirtualTableRow)
        e.row_type = "table"
    elif kind == "i":
        e = object.__new__(IndexRow)
        e.row_type = "index"
        e.internal_schema_object = False
    else:
        e = object.__new__(OrdinaryTableRow)
        e.row_type = "table"
        e.without_row_id = kind == "w"
        e.internal_schema_object = False
    if kind != "i":
        e.column_definitions = coldefs
    e.name = e.table_name = "t"
    e.sql = sql
    e.root_page_number = root
    e.md5_hash_identifier = "entry-t"
    return e


def build_stub_signature(r, kind, affs, versions, plan):
    """plan[k] = ('parse', cells) | ('same', None) per version; versions None => entry absent.
    Returns (output string, parsed versions as the model's input)."""
    nv = len(plan)
    vobjs = {}
    parsed = []
    for k, (what, cells) in enumerate(plan):
        root = 2
        if versions is None:
            entries = []
            page = None
        else:
            entries = [stub_entry(kind, affs, root)]
            if what == "parse":
                page, order = stub_tree(r, root, [stub_record(d, ts) for d, ts in cells])
                parsed.append([(int(c.md5_hex_digest, 16), [x.serial_type for x in c.payload.record_columns]) for c in order])
            else:
                page = None
        ms = _Obj(master_schema_entries=entries)
        upd = [root] if what == "parse" else []
        vobjs[k] = _Obj(master_schema_modified=True, master_schema=ms, last_master_schema=ms,
                        updated_b_tree_page_numbers=upd, get_b_tree_root_page=(lambda n, p=page: p))
    vh = _Obj(number_of_versions=nv, versions=vobjs)
    entry = stub_entry(kind, affs, 2)
    out = guarded(lambda: show_signature(Signature(vh, entry)))
    return out, (None if versions is None else parsed)


POOLS = {
    "all": [0, 1, 2, 3, 4, 5, 6, 7, 8, 9, 12, 13, 14, 15, 126, 127, 128, 129, 255, 16383, 16384, 2 ** 21 + 1, 2 ** 31,
            2 ** 56 - 1, 2 ** 56, 2 ** 63 - 1],
    "int": [1, 2, 3, 4, 5, 6, 8, 9],
    "intnull": [0, 1, 2, 8, 9],
    "text": [13, 15, 17, 41, 127, 129, 1001],
    "blob": [12, 14, 16, 40, 128, 130, 1000],
    "emptyblob": [12],
    "blobnull": [0, 12, 14],
    "textblob": [12, 13, 14, 15],
    "real": [7],
    "one": None,
}


def gen_rowset(r, big=False):
    """(kind, affinity letters, versions-or-None, plan) for the stub"""
    k = r.random()
    ncols = r.choice([1, 1, 2, 3, 4, 6]) if k < 0.85 else r.choice([13, 40, 100, 200])
    if big:
        ncols = r.choice([60, 128, 200])
    extra = r.choice([0, 0, 0, 0, 0, 0, 0, 1, 2])
    ndefs = ncols + extra
    affs = "".join(r.choice("IRTBN") for _ in range(ndefs))
    kind = "o"
    q = r.random()
    if q < 0.04:
        kind = "w"
    elif q < 0.07:
        kind = "v"
    elif q < 0.09:
        kind = "i"
    if r.random() < 0.02 and ndefs:
        i = r.randrange(ndefs)
        affs = affs[:i] + "X" + affs[i + 1:]
    pools = []
    for _ in range(ncols):
        name = r.choice(list(POOLS))
        pools.append(POOLS[name] if POOLS[name] else [r.choice(POOLS["all"])])
    lengths = [ncols]
    if r.random() < 0.35 and ncols > 1:
        lengths = sorted({ncols, r.randint(1, ncols), r.randint(1, ncols)})
    if r.random() < 0.08:
        lengths = [l for l in lengths if l < ncols] or [max(1, ncols - 1)]   # nothing carries the last column(s)
    if r.random() < 0.03:
        lengths.append(ndefs + 1)                                            # wider than the schema
    if r.random() < 0.03:
        lengths.append(0)
    nrows = r.choice([0, 0, 1, 2, 5, 12, 30]) if ncols <= 13 else r.choice([0, 1, 3, 6])
    next_digest = [1]

    def new_row():
        L = r.choice(lengths)
        ts = [r.choice(pools[i]) if i < ncols else r.choice(POOLS["all"]) for i in range(L)]
        if r.random() < 0.01 and ts:
            ts[r.randrange(len(ts))] = r.choice([10, 11, -1, -2, -7, 2 ** 64])
        d = next_digest[0]
        next_digest[0] += 1
        if r.random() < 0.02:
            d = r.randint(1, max(1, d))                                       # digest collision
        return (d, ts)

    live = [new_row() for _ in range(nrows)]
    if r.random() < 0.05 and len(live) >= 2:
        # key collision shapes: "10" is [1,0] or [10]
        live[0] = (live[0][0], [1, 0][:max(1, min(2, ndefs))])
    nv = r.choice([1, 1, 2, 3, 4])
    plan = []
    for v in range(nv):
        if v > 0:
            if r.random() < 0.25:
                plan.append(("same", None))
                continue
            keep = [row for row in live if r.random() < 0.7]
            r.shuffle(keep) if r.random() < 0.2 else None
            live = keep + [new_row() for _ in range(r.choice([0, 1, 3, 8]))]
            if r.random() < 0.1 and live:
                live.append(live[0])                                          # same cell twice in one version
        plan.append(("parse", list(live)))
    versions = [c for w, c in plan if w == "parse"]
    if r.random() < 0.03:
        versions = None
    return kind, affs, versions, plan


def stub_correspondence(ctx):
    r = ctx.rng
    n = 5000 if ctx.thorough() else 1100
    cases = []
    for i in range(n):
        kind, affs, versions, plan = gen_rowset(r, big=(i % 97 == 0))
        out, parsed = build_stub_signature(r, kind, affs, versions, plan)
        line = f"sig.build {kind} {or_dash(affs)} {enc_versions(parsed)}"
        cases.append((line, out))
        if out.startswith("ok"):
            stub_oracle(ctx, out, parsed, kind, affs, line)
    ctx.differential(cases, "sig.build/stub",
                     nontrivial=lambda line, out: out.startswith("ok") and " uniq=0 " not in out)


def simp(t):
    return t if t < 12 else (-1 if t % 2 == 0 else -2)


def dec_versions(s):
    if s == "none":
        return None
    if s == ".":
        return []
    out = []
    for v in s.split("/"):
        rows = []
        if v != "-":
            for row in v.split(";"):
                ts, d = row.split("#")
                rows.append((int(d), [int(x) for x in ts.split(",")] if ts else []))
        out.append(rows)
    return out


def replay_stub(ctx, line):
    """re-run one `sig.build` line through the stub version history, the model and the oracle"""
    _, kind, affs, vs = line.split(" ")
    versions = dec_versions(vs)
    affs = "" if affs == "-" else affs
    plan = [("parse", v) for v in (versions or [])] or [("parse", [])]
    # rows are visited in the given order: build plain leaves (rng that never picks an interior page)
    class _R:
        def random(self):
            return 1.0
    out, parsed = build_stub_signature(_R(), kind, affs, versions, plan)
    line2 = f"sig.build {kind} {or_dash(affs)} {enc_versions(parsed)}"
    ctx.differential([(line2, out)], "sig.build/stub")
    if out.startswith("ok"):
        stub_oracle(ctx, out, parsed, kind, affs, line2)


def stub_oracle(ctx, out, parsed, kind, affs, line=""):
    """the property itself on the synthetic row sets (the rows are the oracle's own data)"""
    f = dict(x.split("=", 1) for x in out[3:].split(" "))
    def cols_of(v):
        return [] if v == "-" else [[int(x) for x in c.split(",")] if c != "-" else [] for c in v.split("|")]
    foc, sim = cols_of(f["f"]), cols_of(f["s"])
    if parsed is None or kind == "v":
        return
    seen = {}
    for v in parsed:
        for d, ts in v:
            seen.setdefault(d, ts)
    if int(f["uniq"]) != len(seen) or int(f["tot"]) != sum(len(v) for v in parsed):
        ctx.oracle_fail("counts", "unique/total records differ from the distinct / total cells examined",
                        {"stub": True, "op": line[:6000]}, (f["uniq"], f["tot"]), len(seen))
    rx = None
    for d, ts in seen.items():
        for i, t in enumerate(ts):
            if i >= len(foc) or t not in foc[i] or simp(t) not in sim[i]:
                ctx.oracle_fail("not-admitted", "a live row's serial type is not in the focused/simplified signature",
                                {"stub": True, "row": ts[:50], "col": i, "op": line[:6000]},
                                (foc[i] if i < len(foc) else None), t)
                break
        if len(ts) == int(f["nc"]) and sim and all(0 <= t < 2 ** 56 for t in ts):
            if rx is None:
                rx = RowRegex(sim)
            if not rx.admits(ts):
                lone = [i for i, t in enumerate(ts) if t == 12 and -2 not in sim[i]]
                ctx.oracle_fail("regex-rejects-live-row", "the regex built from the simplified signature does not match a live full-width row's serial-type header",
                                {"stub": True, "row": ts[:50], "simplified": sim[:50], "lone_empty_blob_columns": lone,
                                 "header": hx(header_of(ts))[:200], "op": line[:6000]}, False, True)
    for tag in ("fp", "sp"):
        if f[tag] in ("-", "inconsistent"):
            continue
        for col in f[tag].split("|"):
            if col == "-" or "bad:" in col:
                ctx.oracle_fail("prob-sum", "a column has no (well-formed) probabilities", {"stub": True, "col": col, "op": line[:6000]}, col, 1)
                continue
            tot = 0.0
            for e in col.split(","):
                n, d = e.split(":")[1].split("/")
                tot += float(n) / int(d)
            if abs(tot - 1.0) > 1e-9:
                ctx.oracle_fail("prob-sum", "per-column probabilities do not sum to 1", {"stub": True, "col": col, "op": line[:6000]}, tot, 1)


# ------------------------------------------------------------------------------------ real databases / histories
def walk_cells(page):
    """leaf cells in the order aggregate_leaf_cells visits them"""
    if isinstance(page, (TableLeafPage, IndexLeafPage)):
        return list(page.cells)
    out = walk_cells(page.right_most_page)
    for c in page.cells:
        out += walk_cells(c.left_child_page)
    return out


class Tap:
    """records the cells of every b-tree the Signature constructor aggregates"""

    def __enter__(self):
        self.versions = []
        self.cells = []
        self.orig = S.aggregate_leaf_cells

        def wrap(root, accounted=None, payloads_only=False):
            cells = walk_cells(root)
            self.cells.append(cells)
            self.versions.append([(int(c.md5_hex_digest, 16), [x.serial_type for x in c.payload.record_columns])
                                  for c in cells])
            return self.orig(root, accounted, payloads_only)
        S.aggregate_leaf_cells = wrap
        return self

    def __exit__(self, *a):
        S.aggregate_leaf_cells = self.orig


def sqlite_affinity(decl):
    """datatype3 §3.1, the five ordered rules (independent of sqlite_dissect's column parser)"""
    d = (decl or "").upper()
    if "INT" in d:
        return "INTEGER"
    if "CHAR" in d or "CLOB" in d or "TEXT" in d:
        return "TEXT"
    if "BLOB" in d or d.strip() == "":
        return "BLOB"
    if "REAL" in d or "FLOA" in d or "DOUB" in d:
        return "REAL"
    return "NUMERIC"


RECOMMENDED = {"INTEGER": [1, 2, 3, 4, 5, 6, 8, 9], "REAL": [1, 2, 3, 4, 5, 6, 7, 8, 9], "TEXT": [-2], "BLOB": [-1],
               "NUMERIC": [1, 2, 3, 4, 5, 6, 7, 8, 9]}
# what a column of that affinity can hold on disk (datatype3 §3): TEXT affinity never stores a number
ADMISSIBLE = {"TEXT": {-2, -1, 0}}


def int_serial(v):
    if v == 0:
        return 8
    if v == 1:
        return 9
    for st, bits in ((1, 7), (2, 15), (3, 23), (4, 31), (5, 47), (6, 63)):
        if -(1 << bits) <= v < (1 << bits):
            return st
    return None


def expected_types(ty, hexv, val):
    """serial types SQLite may have stored for a value it reports as (typeof, hex, value)"""
    if ty == "null":
        return {0}
    if ty == "integer":
        return {int_serial(val)}
    if ty == "real":
        out = {7}
        if isinstance(val, float) and val == int(val) and abs(val) < 2 ** 63:
            s = int_serial(int(val))
            if s:
                out.add(s)
        return out
    if ty == "text":
        return {13 + len(hexv)}          # hex() of the stored bytes: two digits per byte
    if ty == "blob":
        return {12 + len(hexv)}
    return set()


def version_cells(version, name):
    try:
        return {c.row_id: c for c in interface.select_all_from_table(name, version)}
    except Exception:  # noqa
        return None


def check_table(ctx, vh, entry, name, snaps, case, alias):
    """One Signature over one master schema entry: correspondence with the model on the examined cells, and the
    property against the rows SQLite reports in every version of the signature's range.
    snaps: version number -> {"cols": [...], "rows": [(rowid, [(typeof, hex, value)])]} or None"""
    with Tap() as tap:
        try:
            sig = Signature(vh, entry)
            out = show_signature(sig)
        except Exception as e:  # noqa
            sig = None
            out = err(e)
            exc = e
    affs = "".join(AFF_LETTER.get(cd.type_affinity, "X") for cd in entry.column_definitions)
    kind = "w" if entry.without_row_id else "o"
    line = f"sig.build {kind} {or_dash(affs)} {enc_versions(tap.versions) if tap.versions else 'none'}"
    model = driver.ask1(line)
    ctx.evals += 1
    ctx.branch("sig.build/real:" + (out if not out.startswith("ok") else "ok"))
    if out.startswith("ok") and " uniq=0 " not in out:
        ctx.nontrivial.add(core_h(out))
    if out != model:
        ctx.disagreements.append({"label": "sig.build/real", "op": line[:2000], "impl": out[:2000], "model": model[:2000]})
    ctx.sample({"op": line[:200], "impl": out[:200], "agree": out == model})
    # ------------------------------------------------------------------ oracle
    examined = {}
    for v in tap.versions:
        for d, ts in v:
            examined.setdefault(d, ts)
    stored_max = max([len(ts) for ts in examined.values()] or [0])
    ndefs = len(entry.column_definitions)
    if sig is None:
        ctx.oracle_fail("signature-rejected",
                        f"no signature for a table written by SQLite: {classify(exc)}",
                        dict(case, table=name, schema_columns=ndefs, widest_stored_row=stored_max,
                             rows=len(examined), altered_without_full_row=bool(examined) and stored_max < ndefs),
                        out, "a signature")
        return
    first, last = sig.parser_starting_version_number, sig.parser_ending_version_number
    if first is None:
        return
    foc, sim = sig.focused_signature, sig.simplified_signature
    try:
        rx = RowRegex(sim) if sim else None
    except Exception as exc:  # noqa
        # a table SQLite wrote whose simplified signature yields no regular expression: no live row is admitted
        ctx.oracle_fail("no-regex", f"no regular expression for the signature of a table written by SQLite: {classify(exc)}",
                        dict(case, table=name, simplified=[list(c) for c in sim][:8]), str(exc)[:200], "a pattern")
        rx = None
    if sig.unique_records != len(examined) or sig.total_records != sum(len(v) for v in tap.versions):
        ctx.oracle_fail("counts", "unique/total records differ from the distinct / total cells examined",
                        dict(case, table=name), (sig.unique_records, sig.total_records),
                        (len(examined), sum(len(v) for v in tap.versions)))
    logical = set()
    live_rows = 0
    for k in range(first, last + 1):
        snap = snaps(k)
        if snap is None:
            continue
        cells = version_cells(vh.versions[k], name)
        if cells is None or sorted(cells) != [rid for rid, _ in snap["rows"]]:
            ctx.branch("oracle-skip:rows-differ-from-sqlite(C01/C02)")
            continue
        for rid, vals in snap["rows"]:
            cols = cells[rid].payload.record_columns
            types = [c.serial_type for c in cols]
            logical.add((rid, tuple((v[0], v[1]) for v in vals[:len(types)]), len(types)))
            live_rows += 1
            ctx.mark(("row", case.get("tag"), name, k, rid))
            bad = None
            for i, t in enumerate(types):
                exp = {0} if (i == 0 and alias) else expected_types(*vals[i])
                if t not in exp:
                    ctx.branch("oracle-skip:stored-type-differs-from-sqlite(C01)")
                    bad = "skip"
                    break
                if i >= len(foc) or t not in foc[i] or simp(t) not in sim[i]:
                    ctx.oracle_fail("not-admitted", "a live row's serial type is not in the focused/simplified signature",
                                    dict(case, table=name, version=k, rowid=rid, col=i, row=types[:40]),
                                    (foc[i] if i < len(foc) else None), t)
                    bad = "fail"
                    break
            if bad:
                continue
            if len(types) == sig.number_of_columns and rx is not None:
                hdr = header_of(types)
                if not rx.admits(types):
                    lone = [i for i, t in enumerate(types) if t == 12 and -2 not in sim[i]]
                    ctx.oracle_fail("regex-rejects-live-row",
                                    "the regex built from the simplified signature does not match a live full-width row's serial-type header",
                                    dict(case, table=name, version=k, rowid=rid, row=types[:40], simplified=sim[:40],
                                         lone_empty_blob_columns=lone, header=hx(hdr)[:200]), False, True)
                else:
                    ctx.branch("oracle:regex-admits")
    ctx.extra["live_rows_checked"] = ctx.extra.get("live_rows_checked", 0) + live_rows
    if case.get("count_logical") and len(logical) != sig.unique_records:
        ctx.oracle_fail("counts-sqlite", "unique_records differs from the number of distinct live rows SQLite reported over the versions",
                        dict(case, table=name), sig.unique_records, len(logical))
    for t in sig.table_column_signatures:
        for tag, l in (("focused", t.focused_probabilistic_signature), ("simplified", t.simplified_probabilistic_signature)):
            tot = sum(p for _, p in l)
            if abs(tot - 1.0) > 1e-9:
                ctx.oracle_fail("prob-sum", f"{tag} probabilities of a column do not sum to 1",
                                dict(case, table=name, col=t.index), tot, 1.0)
    if not examined:
        # schema-derived fall-back
        decls = case.get("decls", {}).get(name)
        if decls is not None:
            want = [RECOMMENDED[sqlite_affinity(d)] for d in decls]
            got = sig.recommended_schema_signature
            ok = got == want and all(set(g) <= ADMISSIBLE.get(sqlite_affinity(d), set(range(-2, 10)))
                                     for g, d in zip(got, decls))
            ctx.branch("oracle:schema-fallback")
            if not ok or sig.table_column_signatures:
                ctx.oracle_fail("schema-fallback", "an empty table's schema-derived signature is not the one its column affinities call for",
                                dict(case, table=name, decls=decls), got, want)


def core_h(s):
    import hashlib
    return hashlib.sha1(s.encode()).hexdigest()[:16]


def table_decls(path):
    con = sqlite3.connect(f"file:{path}?mode=ro&immutable=1", uri=True)
    try:
        out = {}
        for (name,) in con.execute("SELECT name FROM sqlite_master WHERE type='table'"):
            out[name] = [row[2] for row in con.execute(f'PRAGMA table_info("{name}")')]
        return out
    finally:
        con.close()


def rowid_entries(version):
    out = []
    for e in version.master_schema.master_schema_entries:
        if isinstance(e, OrdinaryTableRow) and not e.without_row_id and not e.name.startswith("sqlite_"):
            out.append(e)
    return out


def check_db_file(ctx, path, tables, case):
    """tables: name -> (column names, alias)"""
    try:
        db = Database(path)
        vh = VersionHistory(db)
    except Exception as e:  # noqa
        ctx.branch("open-failed(C01)")
        return
    case = dict(case, decls=table_decls(path), count_logical=True)
    for e in rowid_entries(db):
        if e.name not in tables:
            continue
        names, alias = tables[e.name]
        rows = F.oracle_rows(path, e.name, list(names))
        snap = {"cols": names, "rows": rows}
        check_table(ctx, vh, e, e.name, lambda k, s=snap: s, case, alias)
        # the public entry point gives the same object
        s2 = guarded(lambda: show_signature(interface.create_table_signature(e.name, db, vh)))
        s1 = guarded(lambda: show_signature(Signature(vh, e)))
        if s1 != s2:
            ctx.disagreements.append({"label": "interface.create_table_signature", "op": e.name, "impl": s2[:500], "model": s1[:500]})


def live_columns(path, table):
    con = sqlite3.connect(f"file:{path}?mode=ro&immutable=1", uri=True)
    try:
        info = list(con.execute(f'PRAGMA table_info("{table}")'))
        names = [r[1] for r in info]
        pk = [r for r in info if r[5]]
        alias = len(pk) == 1 and (pk[0][2] or "").upper() == "INTEGER" and pk[0][0] == 0
        return names, alias
    finally:
        con.close()


ALTER_SHAPES = ["all-predate", "some-full", "all-full", "empty-then-alter", "two-alters", "every-class", "empty-blob",
                "nullable-blob", "wide"]


def build_shape(path, shape, r):
    """hand-shaped databases: ALTER TABLE ADD COLUMN variants, every storage class in one column, empty blobs"""
    for suffix in ("", "-wal", "-shm", "-journal"):
        if os.path.exists(path + suffix):
            os.unlink(path + suffix)
    con = sqlite3.connect(path, isolation_level=None)
    con.execute(f"PRAGMA page_size={r.choice([512, 1024, 4096])}")
    con.execute("PRAGMA secure_delete=OFF")
    vals = [None, 0, 1, 5, -300, 70000, 2 ** 40, 1.5, "", "x", "héllo" * 30, b"", b"\x00", b"z" * 100, "t" * 70, b"b" * 9000]
    if shape == "every-class":
        con.execute("CREATE TABLE t (a, b INTEGER, c TEXT)")
        for v in vals:
            con.execute("INSERT INTO t VALUES (?,?,?)", (v, r.choice([0, 1, 2, 99999]), r.choice(["", "a", "bb"])))
    elif shape == "empty-blob":
        con.execute("CREATE TABLE t (a INTEGER, b BLOB)")
        for i in range(r.randint(1, 5)):
            con.execute("INSERT INTO t VALUES (?, x'')", (i + 2,))
    elif shape == "nullable-blob":
        con.execute("CREATE TABLE t (a INTEGER, b BLOB)")
        con.execute("INSERT INTO t VALUES (2, NULL)")
        con.execute("INSERT INTO t VALUES (3, x'')")
        con.execute("INSERT INTO t VALUES (4, x'0102')")
    elif shape == "wide":
        n = r.choice([64, 120, 200])
        con.execute("CREATE TABLE t (%s)" % ", ".join(f"c{i}" for i in range(n)))
        for _ in range(r.randint(1, 6)):
            con.execute("INSERT INTO t VALUES (%s)" % ",".join("?" * n), [r.choice(vals[:14]) for _ in range(n)])
    else:
        con.execute("CREATE TABLE t (a INTEGER, b TEXT)")
        pre = 0 if shape == "empty-then-alter" else r.randint(1, 6)
        for i in range(pre):
            con.execute("INSERT INTO t VALUES (?, ?)", (i + 2, r.choice(["", "q", "rst"])))
        con.execute("ALTER TABLE t ADD COLUMN c BLOB")
        if shape == "two-alters":
            con.execute("INSERT INTO t VALUES (50, 'm', x'aa')")
            con.execute("ALTER TABLE t ADD COLUMN d REAL DEFAULT 2.5")
            if r.random() < 0.5:
                con.execute("INSERT INTO t VALUES (51, 'n', x'', 1.25)")
        elif shape == "some-full":
            for i in range(r.randint(1, 4)):
                con.execute("INSERT INTO t VALUES (?, ?, ?)", (100 + i, "w", r.choice([b"", b"1", None])))
        elif shape == "all-full":
            con.execute("UPDATE t SET c = x'0a'")
    con.close()


def run_real(ctx, n_db, n_hist, n_shapes):
    sc = C.Scratch()
    r = ctx.rng
    try:
        for b in C.build_databases(ctx, sc, n_db, page_sizes=[512, 1024, 4096, 65536], tag="c10db"):
            n0 = len(ctx.oracle_failures)
            check_db_file(ctx, b.path, b.tables, {"cfg": b.cfg, "seed": ctx.seed, "tag": os.path.basename(b.path)})
            C.keep_failing_files(ctx, n0, b.path)
        for i in range(n_shapes):
            shape = ALTER_SHAPES[i % len(ALTER_SHAPES)]
            p = sc.path(f"shape{i}.db")
            build_shape(p, shape, r)
            ctx.branch(f"shape:{shape}")
            n0 = len(ctx.oracle_failures)
            check_db_file(ctx, p, {"t": live_columns(p, "t")}, {"shape": shape, "seed": ctx.seed, "tag": f"shape{i}"})
            C.keep_failing_files(ctx, n0, p)
        kinds = ["deep_append", "plain", "rootmove", "ddl", "plain", "overflow_inplace", "rootmove", "ddl", "grow_shrink", "spill", "checkpoint_restart", "fresh_wal"]
        for i in range(n_hist):
            cfg = F.random_cfg(r, page_sizes=[512, 1024, 4096], small=True)
            cfg["auto_vacuum"] = [0, 1, 2][i % 3]
            kind = kinds[i % len(kinds)]
            if kind == "deep_append":
                cfg["page_size"] = 512       # a three-level table b-tree with few rows
                cfg["auto_vacuum"] = 0
            try:
                h = H.make_history(sc.path(f"c10h{i}"), cfg, r, kind=kind)
            except sqlite3.Error as e:
                ctx.notes.append(f"history generator error: {e}")
                continue
            ctx.branch(f"history:{kind}")
            check_history(ctx, h, {"kind": kind, "cfg": cfg, "events": h.events, "seed": ctx.seed, "tag": f"h{i}"})
            for f in (h.db, h.wal):
                if f and os.path.exists(f):
                    os.unlink(f)
    finally:
        sc.close()


def check_history(ctx, h, case):
    try:
        db = Database(h.db)
        wal = WriteAheadLog(h.wal) if h.wal else None
        vh = VersionHistory(db, wal)
    except Exception:  # noqa
        ctx.branch("open-failed(C02)")
        return
    aligned = len(vh.versions) == len(h.snapshots)
    n0 = len(ctx.oracle_failures)
    seen = set()
    # count_logical: distinct rows by content — an overflow chain that moves gives one row two cell images
    case = dict(case, count_logical=(h.kind in ("plain", "ddl", "deep_append") and h.cfg["auto_vacuum"] == 0))
    for k in sorted(vh.versions):
        v = vh.versions[k]
        if k and not v.master_schema_modified:
            continue
        for e in rowid_entries(v):
            if e.md5_hash_identifier in seen:
                continue
            seen.add(e.md5_hash_identifier)
            alias = h.tables.get(e.name, ([], False))[1]

            def snaps(j, name=e.name):
                if not aligned:
                    return None
                return h.snapshots[j]["tables"].get(name)
            check_table(ctx, vh, e, e.name, snaps, dict(case, entry_version=k), alias)
    C.keep_failing_files(ctx, n0, h.db, h.wal)


# ------------------------------------------------------------------------------------ entry points
WITNESSES = [
    {"name": "lone_empty_blob", "sql": ["CREATE TABLE t (a INTEGER, b BLOB)", "INSERT INTO t VALUES (2, x'')"]},
    {"name": "add_column_no_full_row", "sql": ["CREATE TABLE t (a INTEGER, b TEXT)", "INSERT INTO t VALUES (2, 'q')",
                                               "ALTER TABLE t ADD COLUMN c BLOB"]},
]


def run_sql_case(ctx, statements, tag):
    sc = C.Scratch()
    try:
        p = sc.path("w.db")
        con = sqlite3.connect(p, isolation_level=None)
        con.execute("PRAGMA secure_delete=OFF")
        for s in statements:
            con.execute(s)
        con.close()
        tables = {}
        con = sqlite3.connect(p)
        names = [x[0] for x in con.execute("SELECT name FROM sqlite_master WHERE type='table'")]
        con.close()
        for n in names:
            tables[n] = live_columns(p, n)
        check_db_file(ctx, p, tables, {"sql": statements, "tag": tag})
    finally:
        sc.close()


def run(ctx):
    sigs = regex_correspondence(ctx)
    matcher_validation(ctx)
    stub_correspondence(ctx)
    if ctx.thorough():
        run_real(ctx, 160, 120, 90)
    else:
        run_real(ctx, 20, 14, 18)
    # the Lean counterexample of regex_admits (FullStatement) replayed on the implementation
    for w in WITNESSES:
        run_sql_case(ctx, w["sql"], "witness:" + w["name"])
    # report the smallest failing case of each kind first (the verdict keeps the first per kind)
    import json as _json
    ctx.oracle_failures.sort(key=lambda f: len(_json.dumps(f.get("case"), default=str)))


def search(ctx, broken):
    ctx.tier = "thorough"
    regex_correspondence(ctx)
    matcher_validation(ctx)
    stub_correspondence(ctx)
    run_real(ctx, 60, 40, 45)


def replay(ctx, data):
    case = (data.get("failure") or {}).get("case", data.get("case", {}))
    if data.get("sql") or case.get("sql"):
        run_sql_case(ctx, data.get("sql") or case["sql"], "replay")
        return
    files = C.replay_files(data)
    if files:
        db = files[0]
        wal = files[1] if len(files) > 1 else None
        if wal:
            h = H.History()
            h.db, h.wal, h.kind, h.cfg, h.snapshots, h.tables = db, wal, "replay", {"auto_vacuum": 1}, [], {}
            check_history(ctx, h, {"replay": True})
        else:
            con = sqlite3.connect(f"file:{db}?mode=ro&immutable=1", uri=True)
            names = [x[0] for x in con.execute("SELECT name FROM sqlite_master WHERE type='table'")]
            con.close()
            check_db_file(ctx, db, {n: live_columns(db, n) for n in names}, {"replay": True})
        return
    if case.get("stub"):
        if case.get("op") and len(case["op"]) < 6000:
            replay_stub(ctx, case["op"])
        else:
            stub_correspondence(ctx)


def _m_lone_empty_blob(f):
    c = f.get("case", {})
    return f.get("kind") == "regex-rejects-live-row" and bool(c.get("lone_empty_blob_columns"))


def _m_add_column(f):
    c = f.get("case", {})
    return (f.get("kind") == "signature-rejected" and c.get("altered_without_full_row") is True
            and str(f.get("impl")) == "err parseError")


MATCHERS = {"lone_empty_blob": _m_lone_empty_blob, "add_column_no_full_row": _m_add_column}
