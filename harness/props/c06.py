"""C06 — every page accounted for exactly once; space inside each page adds up."""
import os
from sqlite_dissect.file.database.page import BTreePage

from ..gen import histories as H, sqlite_factory as F
from ..translate import pyfun
from . import dbcommon as C, specvalid as V

ID = "C06"
LEAN_MODULES = ["SqliteDissect.Properties.C06", "SqliteDissect.Properties.C06Census", "SqliteDissect.Properties.C16", "SqliteDissect.Properties.C01Tree",
                "SqliteDissect.Properties.GenPage"]
TRANSLATORS = [pyfun]
TRUSTED_EXTRA = [pyfun.TRUSTED]
RULE = ("factory databases (grid as C01, churn leaving freeblocks / fragments / freelist pages / pointer-map pages) "
        "and WAL histories; per version the page census (version.pages) and every b-tree page layout are compared "
        "with the Lean model and with SQLite's dbstat, page_count, freelist_count and integrity_check. "
        "non-trivial = distinct accepted dump")
ASSUMPTIONS = ["dbstat/integrity_check of SQLite 3.40.1 are the oracle for census and per-page free space"]

KIND = {"B_TREE_TABLE_LEAF": "leaf", "B_TREE_INDEX_LEAF": "leaf", "B_TREE_TABLE_INTERIOR": "internal",
        "B_TREE_INDEX_INTERIOR": "internal", "OVERFLOW": "overflow"}


def check_census(ctx, version, path, case):
    rows, pc, fl, ic = C.dbstat(path)
    if ic != "ok":
        ctx.spec_fail("integrity_check not ok on a factory database", case, ic)
        return
    try:
        pages = version.pages
    except Exception as e:  # noqa
        ctx.oracle_fail("census-rejected", f"page census fails on a consistent database: {type(e).__name__}", case,
                        str(e)[:300], "ok")
        return
    if sorted(pages) != list(range(1, pc + 1)):
        ctx.oracle_fail("census-pages", "census does not cover pages 1..N exactly once", case, len(pages), pc)
    nfree = sum(1 for p in pages.values() if str(p.page_type).startswith("FREELIST"))
    if nfree != fl:
        ctx.oracle_fail("freelist-count", "freelist pages differ from PRAGMA freelist_count", case, nfree, fl)
    stat = {r[0]: r for r in rows}
    for n, p in pages.items():
        k = KIND.get(str(p.page_type))
        if k is None:
            if n in stat:
                ctx.oracle_fail("census-kind", "page classified as freelist/pointer-map but dbstat lists it in a b-tree",
                                dict(case, page=n), str(p.page_type), stat[n][1])
            continue
        if n not in stat or stat[n][1] != k:
            ctx.oracle_fail("census-kind", "page class differs from dbstat", dict(case, page=n), str(p.page_type),
                            stat.get(n, (None, None))[1])
            continue
        if isinstance(p, BTreePage):
            ctx.mark(("page", path, n), nontrivial=bool(p.freeblocks or p.fragments))
            unused = stat[n][2]
            if p.size == 65536 and p.header.cell_content_offset == 65536:
                # dbstat reads the content-offset field with get2byte (0) instead of get2byteNotZero (65536): its
                # figure for such a page is 65536 too small (SQLite's btreeComputeFreeSpace itself uses 65536)
                unused += 65536
            if C.page_free_space(p) != unused:
                ctx.oracle_fail("free-space", "free space derived from the layout differs from SQLite's figure",
                                dict(case, page=n), C.page_free_space(p), unused)
            if len(p.cells) != stat[n][3]:
                ctx.oracle_fail("ncell", "cell count differs from dbstat", dict(case, page=n), len(p.cells), stat[n][3])
            # tiling: regions in address order are contiguous from the content offset to the page end
            # (a cell is allocated at least four bytes: SQLite's cellSizePtr; a 3-byte index cell is padded)
            regs = sorted([(c.start_offset, max(c.end_offset, c.start_offset + 4)) for c in p.cells] +
                          [(f.start_offset, f.end_offset) for f in p.freeblocks] +
                          [(f.start_offset, f.end_offset) for f in p.fragments])
            pos = p.unallocated_space_end_offset
            for s, e in regs:
                if s != pos or e <= s:
                    ctx.oracle_fail("tiling", "cells/freeblocks/fragments overlap or leave a gap", dict(case, page=n),
                                    regs[:12], pos)
                    break
                pos = e
            else:
                if regs and pos != p.size:
                    ctx.oracle_fail("tiling", "regions do not reach the end of the page", dict(case, page=n), pos, p.size)
            if p.fragments:
                ctx.branch("pages-with-fragments")
                if p.fragments[-1].end_offset == p.size:
                    ctx.branch("pages-with-end-fragment")
            if p.freeblocks:
                ctx.branch("pages-with-freeblocks")
                if len(p.freeblocks) > 1:
                    ctx.branch("pages-with-chained-freeblocks")
        if str(p.page_type) == "POINTER_MAP":
            ctx.branch("ptrmap-pages")


# boundary shapes every run must contain: exactly 60 fragmented bytes on a page (20 x 3), just below, a wide table
FORCE = {"fragmenter": lambda i: [(20, 3), None, (19, 3), None, (21, 3), None, (40, 2), None][i % 8],
         "wide_table": lambda i: [0, 0, 0, 300, 0, 0, 0, 150][i % 8],
         "table_boundary": lambda i: i % 2 == 0}      # rows whose payload is exactly (u-35) + k(u-4), and around it


def run(ctx, n_quick=40, n_thorough=500):
    sc = C.Scratch()
    try:
        for b in C.build_databases(ctx, sc, C.n_databases(ctx, n_quick, n_thorough), force=FORCE):
            case = {"cfg": b.cfg, "seed": ctx.seed}
            impl, db, exc = C.compare_db_dump(ctx, b.path, "db.dump")
            if db is None:
                ctx.oracle_fail("rejected", f"a database written by SQLite is rejected: {impl}", case, impl, "accepted")
                continue
            check_census(ctx, db, b.path, case)
            # (V) the page specification the tree theorems quantify over holds of the pages SQLite wrote
            ctx.extra["pages_validating_the_spec"] = ctx.extra.get("pages_validating_the_spec", 0) + V.validate_pages(
                ctx, b.path, case, max_pages=40 if ctx.thorough() else 14, max_page_size=65536 if ctx.thorough() else 8192)
        # an auto-vacuum database with several pointer-map pages (more than 2 x (page_size/5 + 1) pages): the entry count
        # of the last pointer-map page depends on the earlier ones
        r = ctx.rng
        for i, av in enumerate((1, 2)):
            cfg = F.random_cfg(r, small=True)
            cfg.update(page_size=512, auto_vacuum=av, rows=150 + 100 * i, n_tables=2, big_values=True, wide_table=0, fragmenter=None)
            try:
                b = F.build(sc.path(f"pm{i}.db"), cfg, r)
            except Exception as e:  # noqa
                ctx.notes.append(f"factory error skipped: {e}")
                continue
            case = {"cfg": b.cfg, "seed": ctx.seed, "shape": "several pointer-map pages"}
            impl, db, exc = C.compare_db_dump(ctx, b.path, "db.dump")
            ctx.branch("gen:several-ptrmap-pages" if os.path.getsize(b.path) > 512 * 2 * 104 else "gen:one-ptrmap-page")
            if db is None:
                ctx.oracle_fail("rejected", f"a database written by SQLite is rejected: {impl}", case, impl, "accepted")
                continue
            check_census(ctx, db, b.path, case)
        # versions of WAL histories: census per version against the model (dbstat only sees the newest state)
        kinds = ["freelist_drain", "grow_shrink", None, "ddl", "freelist_drain", "rootmove", None, "spill"]
        for i in range(24 if ctx.thorough() else 6):
            cfg = F.random_cfg(r, page_sizes=[512, 1024, 4096], small=True)
            kind = kinds[i % len(kinds)]
            h = H.make_history(sc.path(f"h{i}"), cfg, r, kind=kind, n_commits=(r.randint(3, 6) if kind == "freelist_drain" else None))
            n0 = len(ctx.oracle_failures)
            case = {"kind": h.kind, "cfg": h.cfg, "events": h.events, "seed": ctx.seed}
            impl, vh, exc = C.compare_history_dump(ctx, h.db, h.wal, "vh.dump")
            ctx.branch(f"history:{h.kind}")
            if vh is None:
                ctx.oracle_fail("history-rejected", f"a WAL history written by SQLite is rejected: {impl}", case, impl, "accepted")
            elif len(vh.versions) == len(h.snapshots):
                # per version: SQLite's page_count / freelist_count recorded right after that commit
                for k, snap in enumerate(h.snapshots):
                    if h.kind == "passive_checkpoint" and k != len(h.snapshots) - 1:
                        # a passive checkpoint has copied later frames into the database file: the older versions of this
                        # pair are mixtures no snapshot corresponds to; only the newest is SQLite's state (as in C02)
                        continue
                    vcase = dict(case, version=k)
                    try:
                        pages = vh.versions[k].pages
                    except Exception as e:  # noqa
                        ctx.oracle_fail("census-rejected", f"page census of a version fails: {type(e).__name__}", vcase, str(e)[:300], "ok")
                        continue
                    pc, fl = snap["pragmas"]["page_count"], snap["pragmas"]["freelist_count"]
                    ctx.mark(("version-census", i, k), nontrivial=fl > 0)
                    if sorted(pages) != list(range(1, pc + 1)):
                        ctx.oracle_fail("census-pages", "census of a version does not cover pages 1..page_count exactly once", vcase, len(pages), pc)
                    nfree = sum(1 for p in pages.values() if str(p.page_type).startswith("FREELIST"))
                    if nfree != fl:
                        ctx.oracle_fail("freelist-count", "freelist pages of a version differ from PRAGMA freelist_count after that commit", vcase, nfree, fl)
                    if fl == 0 and k and h.snapshots[k - 1]["pragmas"]["freelist_count"]:
                        ctx.branch("history:freelist-drained-to-zero")
            C.keep_failing_files(ctx, n0, h.db, h.wal)
    finally:
        sc.close()


def search(ctx, broken):
    run(ctx, 200, 200)


def replay(ctx, data):
    files = C.replay_files(data)
    if files and not files[0].endswith("-wal"):
        case = {"replay": True, "corpus_file": (data.get("failure") or {}).get("case", {}).get("corpus_file")}
        impl, db, exc = C.compare_db_dump(ctx, files[0], "db.dump")
        if db is None:
            ctx.oracle_fail("rejected", f"a database written by SQLite is rejected: {impl}", case, impl, "accepted")
        else:
            check_census(ctx, db, files[0], case)
        return
    run(ctx, 10, 10)


MATCHERS = {}
