"""Shared machinery of C04 and C12.

  * an evidence pool built with the real SQLite library (database alone, database + WAL (+ -shm), database +
    persistent rollback journal, zero-length cases, a directory with several databases, damaged copies, odd
    table names), every set with decoy files next to the evidence;
  * `execute(job)`: one CLI run in a FRESH SUBPROCESS (harness/impl/run_cli.py: audit hook + stat wrappers) inside
    a private sandbox directory (ev/ out/ logs/ cfg/ tmp/ cwd/), with snapshots of the evidence directory and of
    the whole sandbox before and after;
  * `judge(...)`: every audit event is classified by where its path lies and what it does, checked against the
    C04 rules and mapped to a call site of the generated table (harness/translate/fs_effects.py);
  * parsers for the exported CSV / SQLite / text files and the API iteration they are compared with."""
import csv
import hashlib
import json
import os
import shutil
import sqlite3
import subprocess
import sys
import tempfile
import time

from ..gen import sqlite_factory as F

ROOT = os.path.dirname(os.path.dirname(os.path.dirname(os.path.abspath(__file__))))
PY = sys.executable
RUNNER = os.path.join(ROOT, "harness", "impl", "run_cli.py")

O_ACCMODE, O_CREAT, O_EXCL, O_TRUNC, O_APPEND = 3, os.O_CREAT, os.O_EXCL, os.O_TRUNC, os.O_APPEND


def hx(s):
    b = s.encode("utf-8", "surrogateescape") if isinstance(s, str) else bytes(s)
    return b.hex() if b else "-"


# =================================================================================================
# evidence pool
# =================================================================================================
TEXTS = ["alpha", "beta gamma", "naïve café", "日本語", "=SUM(A1)", 'quo"te', "com,ma", "line\nbreak", "x" * 40]


def _fill(con, r, table, n, cols=("c1", "c2", "c3")):
    q = table.replace('"', '""')
    if n >= 6:
        # edge values: empty text, empty blob, NULL, the one-byte-less integers 0 and 1
        for row in (("", b"", None), ("0", b"\x00", 0), ("", b"x", 1)):
            con.execute(f'INSERT INTO "{q}" ({",".join(cols)}) VALUES (?,?,?)', row)
        n -= 3
    for _ in range(n):
        con.execute(f'INSERT INTO "{q}" ({",".join(cols)}) VALUES (?,?,?)',
                    (r.choice(TEXTS) + str(r.randint(0, 999)), bytes(r.randint(1, 255) for _ in range(r.randint(1, 24))),
                     r.choice([1.5, -2.25, 1e10, 3.0]) if r.random() < 0.5 else r.randint(-10 ** 9, 10 ** 9)))


def _schema(con):
    con.execute("CREATE TABLE t0 (c0 INTEGER PRIMARY KEY, c1 TEXT, c2 BLOB, c3 REAL)")
    con.execute("CREATE TABLE t1 (c1 TEXT, c2 BLOB, c3)")
    con.execute("CREATE TABLE t2 (c1 TEXT, c2 BLOB, c3 INT)")
    con.execute("CREATE INDEX i0 ON t0 (c1)")
    con.execute("CREATE TABLE w0 (k TEXT, k2 INTEGER, v BLOB, PRIMARY KEY (k, k2)) WITHOUT ROWID")
    con.execute("CREATE VIEW v0 AS SELECT c0, c1 FROM t0")
    con.execute("CREATE TRIGGER tr0 AFTER DELETE ON t2 BEGIN SELECT 1; END")


def build_plain(path, r, page_size=1024, rows=60):
    con = F.connect(path, {"page_size": page_size, "encoding": "UTF-8", "auto_vacuum": 0, "journal_mode": "DELETE"})
    _schema(con)
    con.execute("BEGIN")
    _fill(con, r, "t0", rows)
    _fill(con, r, "t1", rows // 3)
    _fill(con, r, "t2", rows // 2)
    for i in range(12):
        con.execute("INSERT INTO w0 VALUES (?,?,?)", (f"key{i}", i, b"v" * (i + 1)))
    con.execute("COMMIT")
    con.execute("BEGIN")
    ids = [x[0] for x in con.execute("SELECT c0 FROM t0")]
    r.shuffle(ids)
    for rid in ids[: rows // 3]:
        con.execute("DELETE FROM t0 WHERE c0=?", (rid,))          # residue for carving (secure_delete is OFF)
    for rid in ids[rows // 3: rows // 2]:
        con.execute("UPDATE t0 SET c1=? WHERE c0=?", ("upd" + str(rid), rid))
    con.execute("DELETE FROM t2 WHERE rowid % 3 = 0")
    con.execute("COMMIT")
    con.close()


def build_large(path, r):
    """the plain schema on 64 KiB pages plus a table of large blobs: an evidence file of more than 8 MiB (a threshold at
    which a reader may switch to another way of opening the file) that is still cheap to parse"""
    build_plain(path, r, page_size=65536, rows=30)
    con = sqlite3.connect(path, isolation_level=None)
    con.execute("CREATE TABLE bulk (id INTEGER PRIMARY KEY, payload BLOB)")
    con.execute("BEGIN")
    for i in range(150):
        con.execute("INSERT INTO bulk VALUES (?, zeroblob(60000))", (i,))
    con.execute("COMMIT")
    con.close()
    assert os.path.getsize(path) > (8 << 20), os.path.getsize(path)


def build_wal(path, r, commits=4, page_size=1024):
    """database + -wal (+ -shm) copied while the connections are open, so nothing is checkpointed"""
    work = path + ".work"
    con = F.connect(work, {"page_size": page_size, "encoding": "UTF-8", "auto_vacuum": 0, "journal_mode": "WAL"})
    con.execute("PRAGMA wal_autocheckpoint=0")
    keeper = sqlite3.connect(work, isolation_level=None)
    keeper.execute("PRAGMA wal_autocheckpoint=0")
    _schema(con)
    # a table whose name the exporters have to sanitise, changed in every commit
    con.execute('CREATE TABLE "call log" (c1 TEXT, c2 BLOB, c3)')
    con.execute("BEGIN")
    _fill(con, r, "t0", 30)
    _fill(con, r, "t2", 10)
    _fill(con, r, "call log", 4)
    con.execute("COMMIT")
    con.execute("PRAGMA wal_checkpoint(TRUNCATE)")
    for k in range(commits):
        con.execute("BEGIN")
        _fill(con, r, "call log", 2)
        if k % 3 == 0:
            _fill(con, r, "t0", 8)
            _fill(con, r, "t1", 3)
        elif k % 3 == 1:
            for rid in [x[0] for x in con.execute("SELECT c0 FROM t0 LIMIT 6")]:
                con.execute("UPDATE t0 SET c1=? WHERE c0=?", (f"w{k}-{rid}", rid))
        else:
            con.execute("DELETE FROM t0 WHERE c0 IN (SELECT c0 FROM t0 ORDER BY c0 DESC LIMIT 5)")
            _fill(con, r, "t2", 4)
        con.execute("COMMIT")
    shutil.copyfile(work, path)
    shutil.copyfile(work + "-wal", path + "-wal")
    if os.path.exists(work + "-shm"):
        shutil.copyfile(work + "-shm", path + "-shm")
    con.close()
    keeper.close()
    for s in ("", "-wal", "-shm", "-journal"):
        if os.path.exists(work + s):
            os.unlink(work + s)


def build_journal(path, r, page_size=1024):
    """database + persistent rollback journal (journal_mode=PERSIST leaves the page records behind)"""
    con = F.connect(path, {"page_size": page_size, "encoding": "UTF-8", "auto_vacuum": 0, "journal_mode": "PERSIST"})
    _schema(con)
    con.execute("BEGIN")
    _fill(con, r, "t0", 40)
    _fill(con, r, "t2", 20)
    con.execute("COMMIT")
    con.execute("BEGIN")
    con.execute("DELETE FROM t0 WHERE c0 % 2 = 0")
    con.execute("UPDATE t2 SET c1 = 'journalled' WHERE rowid < 8")
    con.execute("COMMIT")
    con.close()


def build_freelist(path, r, page_size=1024):
    """tables without a signature (WITHOUT ROWID, sqlite_sequence) listed in the schema *before* an ordinary table whose
    deleted rows sit on freelist pages (whole leaves released; secure_delete is OFF)"""
    con = F.connect(path, {"page_size": page_size, "encoding": "UTF-8", "auto_vacuum": 0, "journal_mode": "DELETE"})
    con.execute("CREATE TABLE w0 (k TEXT, k2 INTEGER, v BLOB, PRIMARY KEY (k, k2)) WITHOUT ROWID")
    con.execute("CREATE TABLE seq (id INTEGER PRIMARY KEY AUTOINCREMENT, c1 TEXT)")
    con.execute("CREATE TABLE later (c1 TEXT, c2 BLOB, c3)")
    con.execute("CREATE TABLE t2 (c1 TEXT, c2 BLOB, c3 INT)")
    con.execute("BEGIN")
    for i in range(6):
        con.execute("INSERT INTO w0 VALUES (?,?,?)", (f"key{i}", i, b"v" * (i + 1)))
        con.execute("INSERT INTO seq (c1) VALUES (?)", (f"s{i}",))
    _fill(con, r, "later", 200)
    _fill(con, r, "t2", 12)
    con.execute("COMMIT")
    con.execute("DELETE FROM later WHERE rowid > 4")
    con.close()


def build_odd_name(path, r, name):
    """one ordinary table plus one table with an unusual (but legal) name"""
    con = F.connect(path, {"page_size": 1024, "encoding": "UTF-8", "auto_vacuum": 0, "journal_mode": "DELETE"})
    q = name.replace('"', '""')
    con.execute("CREATE TABLE plainname (c1 TEXT, c2 BLOB, c3)")
    con.execute(f'CREATE TABLE "{q}" (c1 TEXT, c2 BLOB, c3)')
    con.execute("BEGIN")
    _fill(con, r, "plainname", 5)
    _fill(con, r, name, 5)
    con.execute("COMMIT")
    con.close()


def _decoys(d, main):
    with open(os.path.join(d, "notes.txt"), "w") as fh:
        fh.write("case notes - not part of the database\n")
    with open(os.path.join(d, "unrelated.db-wal"), "wb") as fh:
        fh.write(b"\x37\x7f\x06\x82" + b"\0" * 60)
    with open(os.path.join(d, main + ".bak"), "wb") as fh:
        fh.write(b"SQLite format 3\0" + b"\1" * 100)


class Pool:
    """evidence sets under <dir>/<name>/…; `sets[name] = {"dir":…, "main": file name, "files":[…]}`"""

    def __init__(self, d, r):
        self.dir = d
        self.sets = {}
        os.makedirs(d, exist_ok=True)
        self._build(r)

    def _new(self, name, main):
        sd = os.path.join(self.dir, name)
        os.makedirs(sd)
        self.sets[name] = {"dir": sd, "main": main}
        return sd, os.path.join(sd, main)

    def _build(self, r):
        d, p = self._new("plain", "plain.db")
        build_plain(p, r)
        d, p = self._new("plain4k", "big.sqlite")
        build_plain(p, r, page_size=4096, rows=150)
        d, p = self._new("wal", "hist.db")
        build_wal(p, r)
        d, p = self._new("journal", "jn.db")
        build_journal(p, r)
        d, p = self._new("large", "large.db")
        build_large(p, r)
        d, p = self._new("freelist", "fl.db")
        build_freelist(p, r)
        d, p = self._new("both", "both.db")
        build_wal(p, r, commits=2)
        shutil.copyfile(os.path.join(self.sets["journal"]["dir"], "jn.db-journal"), p + "-journal")
        for nm, tn in (("odd_space", "sp ace"), ("odd_slash", "a/b"), ("odd_quote", 'q"uote'), ("odd_dots", "/../../esc")):
            d, p = self._new(nm, "odd.db")
            build_odd_name(p, r, tn)
        # zero-length cases
        for name, wal, jn in (("zero", None, None), ("zero_wal0", b"", None), ("zero_wal", b"x" * 64, None),
                              ("zero_jn0", None, b""), ("zero_jn", None, b"y" * 64)):
            d, p = self._new(name, "empty.db")
            open(p, "wb").close()
            if wal is not None:
                open(p + "-wal", "wb").write(wal)
            if jn is not None:
                open(p + "-journal", "wb").write(jn)
        # wal present but empty beside a real database; journal present but empty
        d, p = self._new("wal0", "w0.db")
        shutil.copyfile(os.path.join(self.sets["plain"]["dir"], "plain.db"), p)
        open(p + "-wal", "wb").close()
        d, p = self._new("jn0", "j0.db")
        shutil.copyfile(os.path.join(self.sets["plain"]["dir"], "plain.db"), p)
        open(p + "-journal", "wb").close()
        # a directory with several inputs
        d, p = self._new("multi", "")
        shutil.copyfile(os.path.join(self.sets["plain"]["dir"], "plain.db"), os.path.join(d, "a.db"))
        shutil.copyfile(os.path.join(self.sets["journal"]["dir"], "jn.db"), os.path.join(d, "b.sqlite"))
        open(os.path.join(d, "c.db"), "wb").write(b"not a database at all" * 10)
        os.makedirs(os.path.join(d, "sub"))
        shutil.copyfile(os.path.join(self.sets["plain"]["dir"], "plain.db"), os.path.join(d, "sub", "d.db3"))
        # damaged copies
        src = open(os.path.join(self.sets["plain"]["dir"], "plain.db"), "rb").read()
        wsrc_db = open(os.path.join(self.sets["wal"]["dir"], "hist.db"), "rb").read()
        wsrc = open(os.path.join(self.sets["wal"]["dir"], "hist.db-wal"), "rb").read()
        d, p = self._new("trunc_db", "t.db")
        open(p, "wb").write(src[: 1024 * 3 + 517])
        d, p = self._new("short_db", "s.db")
        open(p, "wb").write(src[:50])
        d, p = self._new("flip_db", "f.db")
        b = bytearray(src)
        for _ in range(40):
            b[r.randrange(1024, len(b))] ^= 1 << r.randrange(8)
        open(p, "wb").write(bytes(b))
        d, p = self._new("hdr_flip", "h.db")
        b = bytearray(src)
        b[16:18] = b"\x03\xe8"
        open(p, "wb").write(bytes(b))
        d, p = self._new("trunc_wal", "tw.db")
        open(p, "wb").write(wsrc_db)
        open(p + "-wal", "wb").write(wsrc[: 32 + 24 + 1024 + 300])
        d, p = self._new("junk_wal", "jw.db")
        open(p, "wb").write(wsrc_db)
        open(p + "-wal", "wb").write(bytes(r.randint(0, 255) for _ in range(3000)))
        d, p = self._new("flip_wal", "fw.db")
        open(p, "wb").write(wsrc_db)
        b = bytearray(wsrc)
        for _ in range(25):
            b[r.randrange(32, len(b))] ^= 1 << r.randrange(8)
        open(p + "-wal", "wb").write(bytes(b))
        d, p = self._new("junk_jn", "jj.db")
        shutil.copyfile(os.path.join(self.sets["journal"]["dir"], "jn.db"), p)
        open(p + "-journal", "wb").write(bytes(r.randint(0, 255) for _ in range(2500)))
        for name, s in self.sets.items():
            if s["main"]:
                _decoys(s["dir"], s["main"])


_POOLS = {}


def get_pool(ctx):
    """one evidence pool per process and seed (built on first use, removed at exit)"""
    import atexit
    key = ctx.seed
    if key not in _POOLS:
        d = tempfile.mkdtemp(prefix="sdverif-pool-")
        atexit.register(shutil.rmtree, d, True)
        import random
        _POOLS[key] = Pool(os.path.join(d, "pool"), random.Random(ctx.seed))
    return _POOLS[key]


# =================================================================================================
# sandbox, snapshots
# =================================================================================================
def sha(path):
    h = hashlib.sha256()
    with open(path, "rb") as fh:
        for chunk in iter(lambda: fh.read(1 << 16), b""):
            h.update(chunk)
    return h.hexdigest()


def snapshot(d, skip=()):
    """relative name -> (kind, size, mtime_ns, mode, inode, nlink, sha256)"""
    out = {}
    for root, dirs, files in os.walk(d):
        dirs.sort()
        for n in dirs:
            p = os.path.join(root, n)
            st = os.lstat(p)
            out[os.path.relpath(p, d) + "/"] = ("dir", 0, 0, st.st_mode, st.st_ino, 0, "")
        for n in sorted(files):
            p = os.path.join(root, n)
            rel = os.path.relpath(p, d)
            if rel in skip:
                continue
            st = os.lstat(p)
            out[rel] = ("file", st.st_size, st.st_mtime_ns, st.st_mode, st.st_ino, st.st_nlink,
                        sha(p) if os.path.isfile(p) and not os.path.islink(p) else "")
    return out


def snap_diff(a, b):
    out = []
    for k in sorted(set(a) | set(b)):
        if k not in a:
            out.append(("created", k))
        elif k not in b:
            out.append(("removed", k))
        elif a[k] != b[k]:
            what = [n for n, x, y in zip(("kind", "size", "mtime", "mode", "inode", "nlink", "sha256"), a[k], b[k]) if x != y]
            out.append(("changed:" + "+".join(what), k))
    return out


def subst(s, m):
    for k, v in m.items():
        s = s.replace("{" + k + "}", v)
    return s


# =================================================================================================
# event classification and the C04 rules
# =================================================================================================
def event_mode(e):
    """read | stat | create | write | delete | rename | none"""
    ev = e["ev"]
    if ev == "stat" or ev in ("os.listdir", "os.scandir", "os.walk", "os.fwalk", "glob.glob", "glob.glob/2"):
        return "stat"
    if ev == "open":
        fl = e.get("flags")
        if isinstance(fl, int):
            if fl & (O_CREAT | O_TRUNC | O_APPEND):
                return "create"
            return "read" if (fl & O_ACCMODE) == os.O_RDONLY else "write"
        m = e.get("mode") or ""
        if any(c in m for c in "wax"):
            return "create"
        return "write" if "+" in m else "read"
    if ev in ("os.mkdir", "tempfile.mkstemp", "tempfile.mkdtemp", "sqlite3.connect", "os.symlink", "os.link",
              "os.mkfifo", "os.mknod"):
        return "create"
    if ev in ("os.remove", "os.unlink", "os.rmdir", "shutil.rmtree"):
        return "delete"
    if ev in ("os.rename", "shutil.move"):
        return "rename"
    if ev in ("shutil.copyfile", "shutil.copytree", "shutil.copymode", "shutil.copystat"):
        return "copy"
    if ev in ("sqlite3.connect/handle", "os.chdir", "os.getcwd"):
        return "none"
    return "write"


COMPAT = {   # table mode -> event modes it can explain
    "read": {"read", "stat"},
    "stat": {"stat"},
    "create": {"create", "write", "read", "stat"},
    "write": {"write", "read", "stat"},
    "delete": {"delete", "stat"},
}


def norm_table(table):
    for t in table:
        t["_modes"] = {m.replace("b", "").replace("t", "") for m in t["openModes"]}
    return table


class Locator:
    def __init__(self, sb, extra_out=()):
        self.sb = sb
        self.cwd = os.path.join(sb, "cwd")
        self.roots = [("EVIDENCE", os.path.join(sb, "ev")), ("OUTPUT", os.path.join(sb, "out")),
                      ("LOG", os.path.join(sb, "logs")), ("CONFIG", os.path.join(sb, "cfg")),
                      ("TEMP", os.path.join(sb, "tmp"))]
        # output locations a run names relative to its working directory: (label, path below the sandbox)
        self.roots = [(lab, os.path.join(sb, rel)) for lab, rel in extra_out] + self.roots

    def where(self, p):
        if not isinstance(p, str):
            return "NONE", None
        if p == ":memory:" or p == "":
            return "NONE", p
        ap = os.path.normpath(os.path.join(self.cwd, p))
        for lab, root in self.roots:
            if ap == root or ap.startswith(root + os.sep):
                return lab, ap
        if ap == self.sb or ap.startswith(self.sb + os.sep):
            return "SANDBOX", ap
        return "SYSTEM", ap


def match_table(table, site, mode, loc):
    """a call site of the generated table that explains this event"""
    if site is None:
        return None
    want = "OUTPUT" if loc == "SANDBOX" else loc
    for t in table:
        if t["file"] == site[0] and t["line"] <= site[1] <= t["endLine"] and want in t["prov"] \
                and mode in COMPAT[t["mode"]]:
            return t
    return None


def judge(events, loc, table, relaxed_temp=True):
    """returns (failures, disagreements, stats).  failures: C04 rule broken by the implementation;
    disagreements: an event the generated table does not explain (translator incomplete / stale)."""
    fails, dis = [], []
    stats = {}
    for e in events:
        if e.get("k") != "ev":
            continue
        mode = event_mode(e)
        if mode == "none":
            continue
        parts = [(mode, e.get("path"))]
        if mode == "rename":
            parts = [("delete", e.get("path")), ("create", e.get("path2"))]
        elif mode == "copy":
            parts = [("read", e.get("path")), ("create", e.get("path2"))]
        for m, p in parts:
            where, ap = loc.where(p)
            key = f"{where}:{m}"
            stats[key] = stats.get(key, 0) + 1
            site = e.get("site")
            mutating = m in ("create", "write", "delete")
            brief = {"ev": e["ev"], "fn": e.get("fn"), "mode": m, "where": where,
                     "path": os.path.relpath(ap, loc.sb) if ap and where not in ("SYSTEM", "NONE") else p,
                     "site": site, "open_mode": e.get("mode"), "flags": e.get("flags")}
            if where == "EVIDENCE" and m not in ("read", "stat"):
                fails.append(("evidence-write", brief))
            if mutating and where in ("SANDBOX", "SYSTEM"):
                fails.append(("write-outside-named-locations", brief))
            if mutating and where == "TEMP":
                fails.append(("temp-file-outside-named-locations", brief))
            if mutating and where == "CONFIG":
                fails.append(("config-write", brief))
            # completeness of the generated table
            if where in ("SYSTEM", "NONE"):
                continue
            if e.get("imp") and m in ("read", "stat"):
                continue
            t = match_table(table, site, m, where)
            if t is None:
                dis.append({"label": "fs-table", "op": json.dumps(brief, sort_keys=True),
                            "impl": f"event {e['ev']} {m} on {where}", "model": "no call site in Generated.fsEffects explains it"})
            elif e["ev"] == "open" and t["api"] == "open" and "?" not in t["_modes"]:
                om = (e.get("mode") or "").replace("b", "").replace("t", "")
                if om and om not in t["_modes"]:
                    dis.append({"label": "fs-table-mode", "op": json.dumps(brief, sort_keys=True),
                                "impl": f"open mode {om!r}", "model": f"table lists {sorted(t['_modes'])}"})
    return fails, dis, stats


# =================================================================================================
# one CLI run
# =================================================================================================
def prepare_sandbox(job):
    sb = tempfile.mkdtemp(prefix="run-", dir=job["scratch"])
    for d in ("ev", "logs", "cfg", "tmp", "cwd", "home"):
        os.makedirs(os.path.join(sb, d))
    es = job["evidence"]
    if es and job.get("only"):
        for name in job["only"]:
            shutil.copy2(os.path.join(es["dir"], name), os.path.join(sb, "ev", name))
    elif es:
        shutil.copytree(es["dir"], os.path.join(sb, "ev"), dirs_exist_ok=True, copy_function=shutil.copy2)
    for src, dst in job.get("copy", []):
        shutil.copy2(os.path.join(sb, "ev", src), os.path.join(sb, "ev", dst))
    for name in job.get("remove", []):
        os.unlink(os.path.join(sb, "ev", name))
    m = {"sb": sb, "ev": os.path.join(sb, "ev"), "out": os.path.join(sb, "out"), "log": os.path.join(sb, "logs", "run.log"),
         "cfg": os.path.join(sb, "cfg", "conf.ini"), "db": os.path.join(sb, "ev", es["main"]) if es else "",
         "cwd": os.path.join(sb, "cwd")}
    pre = job.get("pre_out", "none")
    if pre != "none":
        os.makedirs(m["out"])
    if pre == "files":
        for name in job.get("pre_files", []):
            with open(os.path.join(m["out"], name), "w") as fh:
                fh.write("previous export\n")
    if job.get("cfg") is not None:
        with open(m["cfg"], "w") as fh:
            fh.write(subst(job["cfg"], m))
    if job.get("pre_log"):
        with open(m["log"], "w") as fh:
            fh.write("earlier log line\n")
    for rel, content in (job.get("extra_files") or {}).items():
        p = os.path.join(sb, rel)
        os.makedirs(os.path.dirname(p), exist_ok=True)
        with open(p, "wb") as fh:
            fh.write(content)
    return sb, m


def run_subprocess(sb, m, job):
    argv = [subst(a, m) for a in job["argv"]]
    env = {"PATH": os.environ.get("PATH", "/usr/bin:/bin"), "HOME": os.path.join(sb, "home"), "TMPDIR": os.path.join(sb, "tmp"),
           "PYTHONDONTWRITEBYTECODE": "1", "LANG": "C.UTF-8", "PYTHONIOENCODING": "utf-8"}
    if os.environ.get("VERIF_REPO") and os.environ["VERIF_REPO"] != "/repo":
        env["PYTHONPATH"] = os.environ["VERIF_REPO"]     # a working copy under test instead of the installed tree
    for k, v in (job.get("env") or {}).items():
        env[k] = subst(v, m)
    evf = os.path.join(sb, "events.jsonl")
    t0 = time.time()
    try:
        p = subprocess.run([PY, "-B", RUNNER, "--events", evf, "--cwd", m["cwd"], "--entry", job.get("entry", "cli"), "--"]
                           + argv, env=env,
                           stdout=subprocess.PIPE, stderr=subprocess.PIPE, timeout=job.get("timeout", 180))
        rc, out, err = p.returncode, p.stdout, p.stderr
    except subprocess.TimeoutExpired as e:
        rc, out, err = -9, e.stdout or b"", (e.stderr or b"") + b"\nTIMEOUT"
    events = []
    if os.path.exists(evf):
        with open(evf) as fh:
            events = [json.loads(l) for l in fh]
    end = events[-1] if events and events[-1].get("k") == "end" else {"k": "end", "exit": rc, "exc": "argparse/usage" if rc == 2 else None,
                                                                      "msg": None}
    return {"argv": argv, "rc": rc, "stdout": out.decode("utf-8", "replace"), "stderr": err.decode("utf-8", "replace"),
            "events": events, "end": end, "wall": time.time() - t0, "env": {k: subst(v, m) for k, v in (job.get("env") or {}).items()}}


def execute(job):
    """top-level (picklable) worker: sandbox, snapshots, run, judgement, optional export parsing"""
    sb, m = prepare_sandbox(job)
    try:
        ev_before = snapshot(m["ev"])
        all_before = snapshot(sb)
        pre = job["pre"](job, sb, m) if job.get("pre") else None
        res = run_subprocess(sb, m, job)
        res["pre"] = pre
        ev_after = snapshot(m["ev"])
        all_after = snapshot(sb, skip=("events.jsonl",))
        extra = [tuple(x) for x in job.get("extra_roots", [])]
        loc = Locator(sb, extra)
        fails, dis, stats = judge(res["events"], loc, norm_table(job["table"]))
        evd = snap_diff(ev_before, ev_after)
        for kind, name in evd:
            fails.append(("evidence-changed", {"what": kind, "name": name}))
        tree = []
        for kind, name in snap_diff(all_before, all_after):
            top = name.split(os.sep)[0].rstrip("/")
            if top in ("out", "logs"):
                continue
            if any(name.rstrip("/") == rel or name.startswith(rel + os.sep) for _, rel in extra):
                continue
            if top == "ev":
                continue   # reported above
            tree.append((kind, name))
            fails.append(("sandbox-changed-outside-output", {"what": kind, "name": name}))
        res.update({"id": job["id"], "fails": fails, "dis": dis, "stats": stats, "map": m,
                    "out_listing": sorted(k for k in all_after if k.split(os.sep)[0].rstrip("/") == "out"),
                    "log_exists": os.path.exists(m["log"]),
                    "out_before": sorted(k for k in all_before if k.split(os.sep)[0].rstrip("/") == "out"),
                    "new_outside": tree})
        if job.get("post"):
            res["post"] = job["post"](job, res, sb, m)
        res["events_n"] = len(res["events"])
        if not job.get("keep_events"):
            res["events"] = [e for e in res["events"] if e.get("k") != "ev"] if job.get("keep_plan") else []
        return res
    finally:
        shutil.rmtree(sb, ignore_errors=True)


# =================================================================================================
# exported files and API iteration
# =================================================================================================
META = 8


def parse_csv(path):
    """rows keyed the way the exporter writes them: the 8 metadata columns (+ row id) and the value count"""
    rows = []
    header = None
    with open(path, newline="", encoding="utf-8") as fh:
        for rec in csv.reader(fh):
            if not rec:
                continue
            if header is None and rec[0] == "File Source":
                header = rec
                continue
            rows.append(rec)
    has_rowid = bool(header) and len(header) > META and header[META] == "Row ID"
    out = []
    for rec in rows:
        k = META + (1 if has_rowid else 0)
        out.append((tuple(rec[:k]), len(rec) - k))
    return header, out


def parse_sqlite_export(path):
    """table -> rows keyed like parse_csv (metadata as text)"""
    out = {}
    con = sqlite3.connect(f"file:{path}?mode=ro", uri=True)
    try:
        for (name,) in con.execute("SELECT name FROM sqlite_master WHERE type='table'").fetchall():
            cols = [c[1] for c in con.execute(f'PRAGMA table_info("{name}")')]
            has_rowid = len(cols) > META and cols[META] in ("sd_row_id", "row_id")
            k = META + (1 if has_rowid else 0)
            rows = []
            q = name.replace('"', '""')
            for rec in con.execute(f'SELECT * FROM "{q}"'):
                rows.append((tuple(str(x) for x in rec[:k]), len(rec) - k))
            # (internal schema objects - sqlite_sequence, sqlite_stat1 - are exported as "iso_<name>": SQLite reserves the
            # sqlite_ prefix; none of the evidence sets has a user table of such a name)
            out[name[4:] if name.startswith("iso_sqlite_") else name] = rows
    finally:
        con.close()
    return out


def parse_sqlite_classes(path):
    """table -> {metadata key: storage classes of the value columns} of the non-carved rows"""
    out = {}
    con = sqlite3.connect(f"file:{path}?mode=ro", uri=True)
    try:
        for (name,) in con.execute("SELECT name FROM sqlite_master WHERE type='table'").fetchall():
            cols = [c[1] for c in con.execute(f'PRAGMA table_info("{name}")')]
            has_rowid = len(cols) > META and cols[META] in ("sd_row_id", "row_id")
            k = META + (1 if has_rowid else 0)
            q = name.replace('"', '""')
            sel = ", ".join(['"%s"' % c.replace('"', '""') for c in cols[:k]] +
                            ['typeof("%s")' % c.replace('"', '""') for c in cols[k:]])
            d = {}
            for rec in con.execute(f'SELECT {sel} FROM "{q}"'):
                if str(rec[6]) == "Carved":
                    continue
                d["|".join(str(x) for x in rec[:k])] = list(rec[k:])
            out[name[4:] if name.startswith("iso_sqlite_") else name] = d
    finally:
        con.close()
    return out


def serial_class(st):
    if st == 0:
        return "null"
    if st == 7:
        return "real"
    if st in (1, 2, 3, 4, 5, 6, 8, 9):
        return "integer"
    return "blob" if st % 2 == 0 else "text"


def parse_text_headers(text):
    """names of the entries a text export (file or console) contains, in order"""
    names = []
    for line in text.split("\n"):
        if line.startswith("Master schema entry: ") and " row type: " in line:
            names.append(line[len("Master schema entry: "): line.index(" row type: ")])
    return names


def api_view(db_path, wal_path=None, tables=None, carve=False, signatures=False, freelists=False, strict=True):
    """what the library yields, in this tree, for the entries the options select (the steps of entrypoint.main
    after validation, through the public classes): base-version entries with the facts the CLI branches on, the
    signatures main() would generate, and the rows of every updated commit keyed like parse_csv"""
    import logging

    from sqlite_dissect import interface
    from sqlite_dissect.carving.signature import Signature
    from sqlite_dissect.constants import BASE_VERSION_NUMBER, MASTER_SCHEMA_ROW_TYPE, PAGE_TYPE
    from sqlite_dissect.file.database.database import Database
    from sqlite_dissect.file.schema.master import OrdinaryTableRow
    from sqlite_dissect.file.wal.wal import WriteAheadLog
    from sqlite_dissect.version_history import VersionHistory
    logging.getLogger("sqlite_dissect").setLevel(logging.CRITICAL + 1)
    import warnings
    warnings.filterwarnings("ignore")
    db = Database(db_path, strict_format_checking=strict)
    wal = WriteAheadLog(wal_path, strict_format_checking=strict) if wal_path else None
    vh = VersionHistory(db, wal)
    entries = []
    rows = {}
    sigs = {}
    base = list(vh.versions[BASE_VERSION_NUMBER].master_schema.master_schema_entries)
    if carve or signatures:
        for e in db.master_schema.master_schema_entries:
            if tables and e.name not in tables:
                continue
            if isinstance(e, OrdinaryTableRow) and not e.without_row_id and not e.internal_schema_object:
                sigs[e.name] = Signature(vh, e)
    for e in base:
        toi = e.row_type in (MASTER_SCHEMA_ROW_TYPE.INDEX, MASTER_SCHEMA_ROW_TYPE.TABLE)
        elig = isinstance(e, OrdinaryTableRow) and not e.without_row_id and not e.internal_schema_object
        entries.append({"name": e.name, "toi": bool(toi), "elig": bool(elig), "type": e.row_type})
        if not toi or (tables and e.name not in tables):
            continue
        sig = sigs.get(e.name) if carve else None
        it = interface.get_version_history_iterator(e.name, vh, sig, freelists if sig else False)
        rr = []
        classes = {}
        updated = False
        for commit in it:
            if not commit.updated:
                continue
            updated = True
            table_leaf = commit.page_type == PAGE_TYPE.B_TREE_TABLE_LEAF
            groups = [("Added", commit.added_cells.values()), ("Updated", commit.updated_cells.values()),
                      ("Deleted", commit.deleted_cells.values()), ("Carved", commit.carved_cells.values())]
            for op, cells in groups:
                for c in cells:
                    key = [commit.file_type, c.version_number, c.page_version_number, c.source, c.page_number,
                           c.location, op, c.file_offset]
                    if table_leaf:
                        key.append(c.row_id)
                    rr.append((tuple(str(x) for x in key), len(c.payload.record_columns)))
                    if op != "Carved":
                        classes["|".join(str(x) for x in key)] = [serial_class(rc.serial_type) for rc in c.payload.record_columns]
        rows[e.name] = {"rows": rr, "updated": updated, "sig": sig is not None, "classes": classes}
    return {"entries": entries, "rows": rows}


# =================================================================================================
# option vectors -> argv / environment / config file; observed plan of a run; model line
# =================================================================================================
ENV_NAMES = {"dir": "SQLD_OUTPUT_DIRECTORY", "prefix": "SQLD_FILE_PREFIX", "export": "SQLD_EXPORT_TYPE",
             "nj": "SQLD_NO_JOURNAL", "wal": "SQLD_WAL", "rj": "SQLD_ROLLBACK_JOURNAL", "ex": "SQLD_EXEMPTED_TABLES",
             "tables": "SQLD_TABLES", "sig": "SQLD_SIGNATURES", "carve": "SQLD_CARVE", "fl": "SQLD_CARVE_FREELISTS",
             "log": "SQLD_LOG_FILE", "level": "SQLD_LOG_LEVEL"}
CFG_NAMES = {"dir": "directory", "prefix": "file-prefix", "export": "export", "nj": "no-journal", "wal": "wal",
             "rj": "rollback-journal", "ex": "exempted-tables", "tables": "tables", "sig": "signatures", "carve": "carve",
             "fl": "carve-freelists", "log": "log-file", "level": "log-level"}
FLAGS = {"dir": "-d", "prefix": "-p", "export": "-e", "nj": "-n", "wal": "-w", "rj": "-j", "ex": "-r", "tables": "-b",
         "sig": "-g", "carve": "-c", "fl": "-f", "log": "-i", "level": "-l"}
BOOLS = ("nj", "sig", "carve", "fl")


def check_env_names(option_table):
    """the env / flag names used here are the ones of the generated option table"""
    by = {o["dest"]: o for o in option_table["options"]}
    dest = {"dir": "directory", "prefix": "file_prefix", "export": "export", "nj": "no_journal", "wal": "wal",
            "rj": "rollback_journal", "ex": "exempted_tables", "tables": "tables", "sig": "signatures", "carve": "carve",
            "fl": "carve_freelists", "log": "log_file", "level": "log_level"}
    bad = []
    for k, d in dest.items():
        o = by.get(d)
        if o is None or o["envVar"] != ENV_NAMES[k] or FLAGS[k] not in o["flags"] or "--" + CFG_NAMES[k] not in o["flags"]:
            bad.append(k)
    return bad


def render_opts(opts, form):
    """-> (argv tail after the database path, env, config text or None)"""
    argv, env, cfg = [], {}, None
    items = [(k, v) for k, v in opts.items() if v not in (None, False)]
    if form == "argv":
        for k, v in items:
            if k in BOOLS:
                argv.append(FLAGS[k])
            elif k == "export":
                argv += [FLAGS[k]] + list(v)
            else:
                argv += [FLAGS[k], v]
    elif form == "env":
        for k, v in items:
            if k in BOOLS:
                env[ENV_NAMES[k]] = "true"
            elif k == "export":
                env[ENV_NAMES[k]] = "[" + ", ".join(v) + "]"
            else:
                env[ENV_NAMES[k]] = v
    elif form == "config":
        lines = []
        for k, v in items:
            if k in BOOLS:
                lines.append(f"{CFG_NAMES[k]} = true")
            elif k == "export":
                lines.append(f"{CFG_NAMES[k]} = [" + ", ".join(v) + "]")
            else:
                lines.append(f"{CFG_NAMES[k]} = {v}")
        cfg = "\n".join(lines) + "\n"
        argv = ["--config", "{cfg}"]
    else:
        raise ValueError(form)
    return argv, env, cfg


def named_sites(table):
    def find(**kw):
        return [t for t in table if all(t[k] == v for k, v in kw.items())]
    return {
        "log": find(api="logFile"), "mkdir": find(api="mkdir"),
        "getsize_wal": find(func="main", callee="os.path.getsize", pathExpr="wal_file_name"),
        "getsize_rj": find(func="main", callee="os.path.getsize", pathExpr="rollback_journal_file_name"),
        "text_open": find(func="CommitTextExporter.__enter__", api="open"),
        "csv_open": find(func="CommitCsvExporter.write_commit", api="open"),
        "connect": find(api="sqliteConnect"), "save": find(api="workbookSave"),
        "case_open": find(func="CaseExporter.export_case_file", api="open"),
        "fh_open": find(func="FileHandle.__init__", api="open"),
    }


def _at(e, recs):
    s = e.get("site")
    return bool(s) and any(t["file"] == s[0] and t["line"] <= s[1] <= t["endLine"] for t in recs)


REFUSALS = [
    ("Freelist carving cannot be enabled", "carveFreelistsWithoutCarve"),
    ("if an export type other than text", "exportNeedsDirectory"),
    ("if a file prefix is", "prefixNeedsDirectory"),
    ("must not contain a path separator", "prefixHasSeparator"),
    ("Unable to create the new output directory", "cannotCreateDirectory"),
    ("Unable to create the new sub-directory", "cannotCreateSubDirectory"),
    ("Unable to find SQLite file", "sqliteFileMissing"),
    ("Unable to find wal file", "walMissing"),
    ("Unable to find rollback journal file", "journalMissing"),
    ("Exempted tables are only supported", "exemptedNeedsJournal"),
    ("Found a zero length SQLite file with a wal file", "zeroDbWithWal"),
    ("Found a zero length SQLite file with a rollback journal file", "zeroDbWithJournal"),
    ("Found both a rollback journal", "bothJournals"),
    ("No valid SQLite files were found", "cli:noValidSqliteFiles"),
    ("The specified path cannot be found", "cli:pathMissing"),
]
FMT_OF_FN = {"print_text": "text", "print_csv": "csv", "print_sqlite": "sqlite", "print_xlsx": "xlsx"}


def classify_end(end, text):
    """-> (kind, reason): refuse / exit0 / ready / crash / usage"""
    exc, msg = end.get("exc"), end.get("msg") or ""
    if exc is None:
        return "ready", ""
    if exc == "argparse/usage" or (exc == "SystemExit" and end.get("exit") == 2):
        return "usage", ""
    if exc == "SystemExit" and end.get("exit") == 0:
        if "with wal file:" in text and "has no content" in text:
            return "exit0", "emptyDbEmptyWal"
        if "with rollback journal file:" in text and "has no content" in text:
            return "exit0", "emptyDbEmptyJournal"
        if "has no content" in text:
            return "exit0", "emptyDb"
        return "exit0", "?"
    for needle, name in REFUSALS:
        if needle in msg:
            return "refuse", name
    return "crash", exc.split(".")[-1]


def observe(events, end, text, S, loc):
    """what one call of main() did, from the audit/plan events: effects, journal selection, files, items"""
    kind, reason = classify_end(end, text)
    obs = {"kind": kind, "reason": reason, "eff": [], "wal": ["", 0], "rj": ["", 0], "files": {}, "items": [],
           "journal": [], "case": None}
    cur = None
    mk_call = 0
    for e in events:
        k = e.get("k")
        if k == "ev" and not _at(e, S["mkdir"]):
            mk_call += 1      # any event from another call site separates two makedirs calls
        if k == "vhp":
            cur = {"fmt": FMT_OF_FN.get(e["fn"], e["fn"]), "entry": e["entry"], "carve": e["sig"], "fl": e["fl"], "files": []}
            obs["items"].append(cur)
            continue
        if k != "ev":
            continue
        mode = event_mode(e)
        chain = e.get("chain") or []
        if e["ev"] == "open" and _at(e, S["log"]):
            obs["eff"].append(("log", e["path"], -1))
        elif e["ev"] == "os.mkdir" and _at(e, S["mkdir"]):
            obs["eff"].append(("mkdir", e["path"], mk_call))
        elif e["ev"] == "stat" and _at(e, S["getsize_wal"]):
            obs["wal"][0] = e["path"]
        elif e["ev"] == "stat" and _at(e, S["getsize_rj"]):
            obs["rj"][0] = e["path"]
        elif e["ev"] == "open" and _at(e, S["fh_open"]):
            if any(c.startswith("sqlite_dissect/file/wal/wal.py:") for c in chain):
                obs["wal"][1] = 1
            if any(c.startswith("sqlite_dissect/file/journal/jounal.py:") for c in chain):
                obs["rj"][1] = 1
        elif e["ev"] == "open" and _at(e, S["text_open"]):
            obs["files"]["text"] = e["path"]
        elif e["ev"] == "sqlite3.connect" and _at(e, S["connect"]):
            obs["files"]["sqlite"] = e["path"]
        elif e["ev"] == "open" and _at(e, S["save"]) and mode == "create" and loc.where(e["path"])[0] != "TEMP":
            obs["files"]["xlsx"] = e["path"]
        elif e["ev"] == "open" and _at(e, S["case_open"]):
            obs["case"] = e["path"]
        elif e["ev"] == "open" and _at(e, S["csv_open"]):
            if any(c.endswith(":carve_rollback_journal") for c in chain):
                if e["path"] not in obs["journal"]:
                    obs["journal"].append(e["path"])
            elif cur is not None and cur["fmt"] == "csv" and e["path"] not in cur["files"]:
                cur["files"].append(e["path"])
    # the os.mkdir events of one makedirs(a/b/c) call: keep the deepest
    eff = []
    for rec in obs["eff"]:
        if rec[0] == "mkdir" and eff and eff[-1][0] == "mkdir" and eff[-1][2] == rec[2] \
                and rec[1].startswith(eff[-1][1].rstrip("/") + "/"):
            eff[-1] = rec
        else:
            eff.append(rec)
    obs["eff"] = [(r[0], r[1]) for r in eff]
    return obs


def model_line(opts, m, path, world, entries, multi=False, uuid_hex="", mkfail=()):
    """the `cli.plan` operation for one call of main(); opts hold templates, m the placeholder map"""
    def g(k):
        v = opts.get(k)
        return subst(v, m) if isinstance(v, str) else v
    ex = g("export")
    tables = g("tables")
    toks = ["cli.plan", "dir=" + hx(g("dir") or ""), "prefix=" + hx(g("prefix") or ""),
            "export=" + (",".join(ex) if ex else "-"), "nj=" + str(int(bool(g("nj")))), "wal=" + hx(g("wal") or ""),
            "rj=" + hx(g("rj") or ""), "ex=" + hx(g("ex") or ""),
            "tables=" + ("*" if not tables else ",".join(hx(t) for t in tables.split(","))),
            "sig=" + str(int(bool(g("sig")))), "carve=" + str(int(bool(g("carve")))), "fl=" + str(int(bool(g("fl")))),
            "log=" + hx(g("log") or ""), "path=" + hx(path), "multi=" + str(int(multi)), "uuid=" + hx(uuid_hex),
            "fs=" + (",".join(f"{hx(p)}:{sz}" for p, sz in world) or "-"),
            "mkfail=" + (",".join(hx(p) for p in mkfail) or "-"),
            "ent=" + (",".join(f"{hx(e['name'])}:{'t' if e['toi'] else 'o'}:{'s' if e['elig'] else 'n'}:{'u' if e.get('updated', True) else 'n'}"
                               for e in entries) or "-")]
    return " ".join(toks)


def parse_model(line):
    """-> dict with the same shape as observe()"""
    def unhex(h):
        return "" if h == "-" else bytes.fromhex(h).decode("utf-8", "surrogateescape")
    toks = line.split(" ")
    out = {"kind": toks[0], "reason": "", "eff": [], "wal": ["", 0], "rj": ["", 0], "files": {}, "items": [], "journal": [],
           "case": None}
    kv = dict(t.split("=", 1) for t in toks[1:] if "=" in t)
    if toks[0] in ("refuse", "exit0"):
        out["reason"] = toks[1]
    if kv.get("eff", "-") != "-":
        for e in kv["eff"].split(","):
            a, b = e.split(":")
            out["eff"].append((a, unhex(b)))
    if toks[0] != "ready":
        return out
    for key in ("wal", "rj"):
        a, b = kv[key].split(":")
        out[key] = [unhex(a), int(b)]
    if kv["files"] != "-":
        for f in kv["files"].split(","):
            a, b = f.split(":")
            out["files"][a] = unhex(b)
    for key in ("items", "journal"):
        if kv[key] != "-":
            for it in kv[key].split(";"):
                f, fi, en, flags = it.split(":")
                rec = {"fmt": f, "file": unhex(fi), "entry": unhex(en), "carve": int(flags[0]), "fl": int(flags[1]),
                       "writes": int(flags[2])}
                if key == "items":
                    out["items"].append(rec)
                else:
                    out["journal"].append(rec["file"])
    out["case"] = None if kv["case"] == "none" else unhex(kv["case"])
    out["prefix"] = unhex(kv["prefix"])
    out["out"] = unhex(kv["out"])
    return out


def diff_plan(obs, mod):
    """differences between what a run did and what the model plans; [] = agreement"""
    d = []
    if obs["kind"] == "crash":
        # the library failed after validation: the model says `ready`; everything up to the crash must agree
        if mod["kind"] != "ready":
            d.append(("kind", obs["kind"] + ":" + obs["reason"], mod["kind"] + ":" + mod["reason"]))
    elif (obs["kind"], obs["reason"]) != (mod["kind"], mod["reason"]):
        d.append(("outcome", obs["kind"] + ":" + obs["reason"], mod["kind"] + ":" + mod["reason"]))
    if obs["eff"] != mod["eff"]:
        d.append(("effects", obs["eff"], mod["eff"]))
    if mod["kind"] != "ready" or d:
        return d
    if obs["wal"][0] != mod["wal"][0] or obs["rj"][0] != mod["rj"][0]:
        d.append(("journal-names", [obs["wal"][0], obs["rj"][0]], [mod["wal"][0], mod["rj"][0]]))
    if obs["kind"] == "crash":
        return d
    if obs["wal"][1] != mod["wal"][1] or obs["rj"][1] != mod["rj"][1]:
        d.append(("journal-opened", [obs["wal"][1], obs["rj"][1]], [mod["wal"][1], mod["rj"][1]]))
    if obs["files"] != mod["files"]:
        d.append(("format-files", obs["files"], mod["files"]))
    oi = [(i["fmt"], i["entry"], i["carve"], i["fl"]) for i in obs["items"]]
    mi = [(i["fmt"], i["entry"], i["carve"], i["fl"]) for i in mod["items"]]
    if oi != mi:
        d.append(("items", oi, mi))
    else:
        for a, b in zip(obs["items"], mod["items"]):
            if a["fmt"] == "csv":
                of = a["files"][0] if a["files"] else ""
                mf = b["file"] if b["writes"] else ""
                if of != mf or len(a["files"]) > 1:
                    d.append(("csv-file", [a["entry"], a["files"]], [b["entry"], mf]))
    # a journal CSV file appears only when the carver found something: observed ⊆ planned
    if not set(obs["journal"]) <= set(mod["journal"]):
        d.append(("journal-csv", sorted(obs["journal"]), sorted(mod["journal"])))
    if obs["case"] != mod["case"]:
        d.append(("case-file", obs["case"], mod["case"]))
    return d
