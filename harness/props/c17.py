"""C17 — reported header fields equal the on-disk values and SQLite's view of them."""
import struct

from sqlite_dissect.file.database.header import DatabaseHeader
from sqlite_dissect.file.journal.header import RollbackJournalHeader
from sqlite_dissect.file.wal.header import WriteAheadLogFrameHeader, WriteAheadLogHeader

from ..gen import histories as H, sqlite_factory as F
from ..impl import dump as D
from ..impl.canon import guarded, hx
from ..leanio import driver
from ..translate import hdrdiff, pyfun
from . import dbcommon as C, walindex as W

ID = "C17"
LEAN_MODULES = ["SqliteDissect.Properties.C17", "SqliteDissect.Properties.C17Step", "SqliteDissect.Properties.C17WalIndex",
                "SqliteDissect.Properties.GenHeader", "SqliteDissect.Properties.GenPage", "SqliteDissect.Properties.GenHdrDiff"]
TRANSLATORS = [pyfun, hdrdiff]
TRUSTED_EXTRA = [pyfun.TRUSTED, hdrdiff.TRUSTED]
RULE = ("100-byte strings obtained from valid headers (one per factory database) by perturbing every field with "
        "boundary and random values, every value of the one- and two-byte fields (all 65536 page sizes), all pairs for the interacting fields; WAL / frame / journal headers likewise; "
        "WAL histories in which PRAGMA-settable fields change, each version's header compared with the pragma values "
        "recorded after that commit. non-trivial = distinct header accepted by the implementation")
ASSUMPTIONS = ["reserved-bytes-per-page != 0 is refused by the tool (NotImplementedError) although SQLite allows it: stated, not a violation of the six rejection rules",
               "PRAGMA values of SQLite 3.40.1 are the oracle for the per-commit header fields"]

FIELDS = [("magic", 0, 16), ("ps", 16, 2), ("wv", 18, 1), ("rv", 19, 1), ("rb", 20, 1), ("mx", 21, 1), ("mn", 22, 1),
          ("lf", 23, 1), ("cc", 24, 4), ("sz", 28, 4), ("ft", 32, 4), ("fp", 36, 4), ("sc", 40, 4), ("sf", 44, 4),
          ("dc", 48, 4), ("lr", 52, 4), ("te", 56, 4), ("uv", 60, 4), ("iv", 64, 4), ("ai", 68, 4), ("res", 72, 20),
          ("vv", 92, 4), ("sv", 96, 4)]


def impl_db(b):
    def f():
        h = DatabaseHeader(b)
        return "ok " + D.show_hdr(h)
    return guarded(f)


def impl_wal(b):
    def f():
        h = WriteAheadLogHeader(b)
        return (f"ok m{h.magic_number},fv{h.file_format_version},ps{h.page_size},cs{h.checkpoint_sequence_number},"
                f"s1{h.salt_1},s2{h.salt_2},c1{h.checksum_1},c2{h.checksum_2}")
    return guarded(f)


def impl_frame(b):
    def f():
        h = WriteAheadLogFrameHeader(b)
        return f"ok p{h.page_number},sz{h.page_size_after_commit},s1{h.salt_1},s2{h.salt_2},c1{h.checksum_1},c2{h.checksum_2}"
    return guarded(f)


def impl_journal(b):
    def f():
        h = RollbackJournalHeader(b)
        return (f"ok hs{hx(h.header_string)},pc{h.page_count},n{h.random_nonce_for_checksum},"
                f"is{h.initial_size_of_database_in_pages},ss{h.disk_sector_size},ps{h.size_of_pages_in_journal}")
    return guarded(f)


def field_values(r, width):
    mx = (1 << (8 * width)) - 1
    base = {0, 1, 2, 3, 4, 5, 31, 32, 33, 63, 64, 65, 127, 128, 255, 256, 511, 512, 513, 1000, 1024, 4095, 4096, 8192,
            16384, 32767, 32768, 32769, 65535, mx, mx - 1, mx // 2, mx // 2 + 1}
    vals = [v for v in base if v <= mx]
    vals += [r.randint(0, mx) for _ in range(6)]
    return vals


def run(ctx):
    r = ctx.rng
    sc = C.Scratch()
    try:
        headers = []
        for i, (ps, enc, av) in enumerate([(512, "UTF-8", 0), (4096, "UTF-16le", 1), (65536, "UTF-16be", 2), (1024, "UTF-8", 2)]):
            cfg = F.random_cfg(r, small=True)
            cfg.update(page_size=ps, encoding=enc, auto_vacuum=av, rows=5)
            b = F.build(sc.path(f"hd{i}.db"), cfg, r)
            headers.append(open(b.path, "rb").read(100))
        headers.append(bytes(headers[0][:44]) + b"\x00" * 4 + headers[0][48:56] + b"\x00" * 4 + headers[0][60:])  # empty-db style
        cases = []
        muts = []
        for hdr in headers:
            muts.append(hdr)
            for name, off, width in FIELDS:
                if name in ("magic", "res"):
                    for k in range(width):
                        for v in (0, 1, 0x53, 255):
                            m = bytearray(hdr)
                            m[off + k] = v
                            muts.append(bytes(m))
                    continue
                for v in field_values(r, width):
                    m = bytearray(hdr)
                    m[off:off + width] = v.to_bytes(width, "big")
                    muts.append(bytes(m))
            # every value of the one- and two-byte fields (page size: all 65536; the rule is "power of two in 512..32768, or 1")
            if hdr is headers[0] or ctx.thorough():
                for name, off, width in FIELDS:
                    if width <= 2 and name not in ("magic", "res"):
                        for v in range(1 << (8 * width)):
                            m = bytearray(hdr)
                            m[off:off + width] = v.to_bytes(width, "big")
                            muts.append(bytes(m))
            # interacting pairs
            for sf in range(0, 6):
                for te in range(0, 5):
                    m = bytearray(hdr)
                    m[44:48] = sf.to_bytes(4, "big")
                    m[56:60] = te.to_bytes(4, "big")
                    muts.append(bytes(m))
            for iv in (0, 1, 7):
                for lr in (0, 1, 9):
                    m = bytearray(hdr)
                    m[64:68] = iv.to_bytes(4, "big")
                    m[52:56] = lr.to_bytes(4, "big")
                    muts.append(bytes(m))
            for ln in (0, 1, 16, 99, 101, 200):
                muts.append((hdr * 3)[:ln])
        if ctx.thorough():
            for hdr in headers:
                for _ in range(20000):
                    m = bytearray(hdr)
                    for _ in range(r.randint(1, 3)):
                        name, off, width = r.choice(FIELDS)
                        k = r.randrange(width)
                        m[off + k] = r.randint(0, 255)
                    muts.append(bytes(m))
        muts = list(dict.fromkeys(muts))
        spec = driver.ask([f"spec.hdr.valid {hx(m)}" for m in muts])
        for m, sp in zip(muts, spec):
            out = impl_db(m)
            cases.append((f"hdr.db {hx(m)}", out))
            valid, writes = sp.split()
            ctx.mark(("hdr", m), nontrivial=out.startswith("ok"))
            if out.startswith("ok") and valid != "true":
                ctx.oracle_fail("accepts-invalid", "a header violating the file format (magic / page size / fractions / "
                                "schema format / encoding / reserved bytes) is accepted", {"hex": hx(m)}, out, sp)
            if writes == "true" and not out.startswith("ok"):
                ctx.oracle_fail("rejects-sqlite", "a header SQLite writes is rejected", {"hex": hx(m)}, out, sp)
            if out.startswith("ok") and len(m) == 100:
                # every reported field equals the big-endian value at its offset
                kv = dict(x.split("=") for x in out[3:].split(","))
                for name, off, width in FIELDS:
                    if name in ("magic", "res"):
                        continue
                    want = int.from_bytes(m[off:off + width], "big")
                    if name == "ps" and want == 1:
                        want = 65536
                    if int(kv[name]) != want:
                        ctx.oracle_fail("field", f"reported field {name} differs from the bytes at offset {off}",
                                        {"hex": hx(m)}, kv[name], want)
        ctx.differential(cases, "hdr.db")
        # WAL / frame / journal headers
        cases = []
        wal_ok = struct.pack(">8I", 0x377F0682, 3007000, 4096, 0, 11, 22, 33, 44)
        for base in (wal_ok, struct.pack(">8I", 0x377F0683, 3007000, 512, 7, 1, 2, 3, 4)):
            ms = [base]
            for off in range(0, 32, 4):
                for v in (0, 1, 0x377F0681, 0x377F0684, 3007001, 3006999, 0xFFFFFFFF, r.randint(0, 2 ** 32 - 1)):
                    m = bytearray(base)
                    m[off:off + 4] = v.to_bytes(4, "big")
                    ms.append(bytes(m))
            for ln in (0, 31, 33):
                ms.append((base * 2)[:ln])
            for m in ms:
                out = impl_wal(m)
                cases.append((f"hdr.wal {hx(m)}", out))
                good = len(m) == 32 and int.from_bytes(m[0:4], "big") in (0x377F0682, 0x377F0683) and int.from_bytes(m[4:8], "big") == 3007000
                ctx.mark(("wal", m), nontrivial=out.startswith("ok"))
                if out.startswith("ok") != good:
                    ctx.oracle_fail("wal-header", "WAL header acceptance differs from the format rule", {"hex": hx(m)}, out, good)
                elif good:
                    # the property itself, stated without the model: every reported field is the big-endian value on disk
                    # (walformat: magic, version, page size, checkpoint sequence, salt-1, salt-2, checksum-1, checksum-2)
                    f = struct.unpack(">8I", m)
                    want = f"ok m{f[0]},fv{f[1]},ps{f[2]},cs{f[3]},s1{f[4]},s2{f[5]},c1{f[6]},c2{f[7]}"
                    if out != want:
                        ctx.oracle_fail("wal-header-field", "a reported WAL header field differs from the bytes in the file",
                                        {"hex": hx(m)}, out, want)
        for _ in range(300):
            m = bytes(r.randint(0, 255) for _ in range(r.choice([24, 24, 24, 23, 25, 0])))
            fo = impl_frame(m)
            cases.append((f"hdr.frame {hx(m)}", fo))
            if len(m) == 24:
                f = struct.unpack(">6I", m)
                want = f"ok p{f[0]},sz{f[1]},s1{f[2]},s2{f[3]},c1{f[4]},c2{f[5]}"
                if fo != want:
                    ctx.oracle_fail("frame-header-field", "a reported WAL frame header field differs from the bytes in the file",
                                    {"hex": hx(m)}, fo, want)
            j = bytes(r.randint(0, 255) for _ in range(r.choice([28, 28, 28, 27, 29])))
            if r.random() < 0.3 and len(j) == 28:
                j = j[:8] + b"\xff\xff\xff\xff" + j[12:]
            if r.random() < 0.5 and len(j) == 28:
                j = b"\xd9\xd5\x05\xf9\x20\xa1\x63\xd7" + j[8:]
            cases.append((f"hdr.journal {hx(j)}", impl_journal(j)))
        ctx.differential(cases, "hdr.wal/frame/journal")
        ctx.differential(W.run_header(ctx), "hdr.walindex")      # WAL-index (-shm) header: harness/props/walindex.py
        # histories: header of each version vs PRAGMA values after that commit
        n = 25 if ctx.thorough() else 7
        for i in range(n):
            cfg = F.random_cfg(r, page_sizes=[512, 1024, 4096], small=True)
            # (fresh_wal: the file is still empty when the log starts, so schema format and text encoding go from 0 to
            # their values in the first commit of the log - the one header step in which those two fields change)
            kind = ["header_pragmas", "fresh_wal", "ddl", "plain", "grow_shrink"][i % 5]
            if kind == "header_pragmas":
                cfg["auto_vacuum"] = [1, 2, 0][(i // 5) % 3]     # FULL <-> INCREMENTAL switches inside the log
            h = H.make_history(sc.path(f"h{i}"), cfg, r, kind=kind)
            n0 = len(ctx.oracle_failures)
            for mem in (False, True):
                # (with and without the versions kept in memory: the reported header must not depend on it)
                impl, vh, exc = C.compare_history_dump(ctx, h.db, h.wal, "vh.dump", mem=mem, with_trees=False)
                ctx.branch(f"history:{h.kind}:mem{int(mem)}")
                if vh is None:
                    ctx.oracle_fail("history-rejected", f"a WAL history written by SQLite is rejected: {impl}",
                                    {"kind": h.kind, "cfg": cfg, "events": h.events, "store_in_memory": mem}, impl, "accepted")
                    C.keep_failing_files(ctx, n0, h.db, h.wal)
                    continue
                if len(vh.versions) != len(h.snapshots):
                    continue   # version count is C02's business
                # (V) the legal-transition specification of C17Step holds between the headers of consecutive versions
                lines = []
                for k in range(1, len(vh.versions)):
                    try:
                        a = bytes(vh.versions[k - 1].get_page_data(1, 0, 100))
                        b = bytes(vh.versions[k].get_page_data(1, 0, 100))
                        lines.append(f"spec.hdrstep {hx(a)} {hx(b)} {int(vh.versions[k].database_size_in_pages)} "
                                     f"{int(bool(vh.versions[k].master_schema_modified))}")
                    except Exception:  # noqa
                        pass
                for line, ans in zip(lines, driver.ask(lines) if lines else []):
                    ctx.branch("spec-hdrstep:" + ans.strip())
                    if ans.strip() not in ("ok same", "ok true"):
                        ctx.spec_fail("Spec.HeaderStep does not hold between two consecutive headers SQLite wrote",
                                      {"kind": h.kind, "cfg": cfg, "events": h.events}, ans, line[:260])
                for k, snap in enumerate(h.snapshots):
                    hd = vh.versions[k].database_header
                    pr = snap["pragmas"]
                    got = {"page_count": vh.versions[k].database_size_in_pages, "freelist_count": hd.number_of_freelist_pages,
                           "schema_version": hd.schema_cookie, "user_version": hd.user_version,
                           "application_id": hd.application_id, "page_size": hd.page_size,
                           "auto_vacuum": 0 if not hd.largest_root_b_tree_page_number else (2 if hd.incremental_vacuum_mode else 1)}
                    ctx.mark(("hist-hdr", i, k))
                    for key, v in got.items():
                        if int(v) != int(pr[key]):
                            ctx.oracle_fail("pragma", f"header field {key} of version {k} differs from SQLite's value after that commit",
                                            {"kind": h.kind, "cfg": cfg, "events": h.events, "version": k}, v, pr[key])
            C.keep_failing_files(ctx, n0, h.db, h.wal)
    finally:
        sc.close()


def search(ctx, broken):
    ctx.tier = "thorough"
    run(ctx)


def replay(ctx, data):
    f = data.get("failure") or {}
    case = f.get("case", {})
    if "walindex_hex" in case:
        return W.replay_header(ctx, case)
    if "hex" in case:
        m = bytes.fromhex(case["hex"]) if case["hex"] != "-" else b""
        out = impl_db(m)
        ctx.differential([(f"hdr.db {hx(m)}", out)], "replay")
        sp = driver.ask1(f"spec.hdr.valid {hx(m)}")
        valid, writes = sp.split()
        ctx.mark(("replay", m))
        if out.startswith("ok") and valid != "true":
            ctx.oracle_fail("accepts-invalid", f.get("what", "invalid header accepted"), case, out, sp)
        if writes == "true" and not out.startswith("ok"):
            ctx.oracle_fail("rejects-sqlite", f.get("what", "valid header rejected"), case, out, sp)
        return
    run(ctx)


MATCHERS = {}
