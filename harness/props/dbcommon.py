"""Shared machinery for the database-level properties (C01, C06, C13, C14, C02, C05 …)."""
import os
import shutil
import sqlite3
import struct
import tempfile

from sqlite_dissect import interface
from sqlite_dissect.file.database.page import BTreePage, OverflowPage
from sqlite_dissect.file.database.utilities import get_pages_from_b_tree_page

from ..gen import sqlite_factory as F
from ..impl import dump as D
from ..leanio import driver


class Scratch:
    """per-run scratch directory (removed at exit); never under /verif"""

    def __init__(self):
        self.dir = tempfile.mkdtemp(prefix="sdverif-")

    def path(self, name):
        return os.path.join(self.dir, name)

    def close(self):
        shutil.rmtree(self.dir, ignore_errors=True)


def n_databases(ctx, quick, thorough):
    return thorough if ctx.thorough() else quick


def build_databases(ctx, scratch, n, page_sizes=None, small=None, tag="db", force=None):
    """yield Built databases from the factory; the configuration grid cycles through page sizes,
    encodings and auto-vacuum modes so that every combination is visited early"""
    r = ctx.rng
    grid = []
    for ps in (page_sizes or F.PAGE_SIZES):
        for enc in F.ENCODINGS:
            for av in (0, 1, 2):
                grid.append((ps, enc, av))
    r.shuffle(grid)
    for i in range(n):
        cfg = F.random_cfg(r, page_sizes=page_sizes, small=(small if small is not None else not ctx.thorough()))
        ps, enc, av = grid[i % len(grid)]
        cfg.update(page_size=ps, encoding=enc, auto_vacuum=av)
        for k, fn in (force or {}).items():
            cfg[k] = fn(i)
        if ps >= 16384:
            cfg["rows"] = min(cfg["rows"], 40)
        path = scratch.path(f"{tag}{i}.db")
        try:
            b = F.build(path, cfg, r)
        except sqlite3.Error as e:
            ctx.notes.append(f"factory error skipped: {e}")
            continue
        ctx.branch(f"gen:ps{ps}")
        ctx.branch(f"gen:{enc}")
        ctx.branch(f"gen:av{av}")
        yield b


def cfg_string(mem=False, strict=True, size=None):
    return f"mem={int(mem)} strict={int(strict)} size={size if size else '-'} frames={D.frames_available()}"


def compare_db_dump(ctx, path, label, mem=False, strict=True, size=None, with_trees=True):
    """impl dump vs model dump of one database file; records a disagreement; returns (impl, db, exc)"""
    impl, db, exc = D.dump_db(path, mem=mem, strict=strict, size=size, with_trees=with_trees)
    op = ("db.dump" if with_trees else "db.open") + f" {path} " + cfg_string(mem, strict, size)
    model = driver.ask1(op)
    ctx.evals += 1
    if impl.startswith("ok"):
        ctx.nontrivial.add(D.SEP.join(impl.split(D.SEP)[:3]) + str(len(impl)))
    ctx.branch(f"{label}:{impl[:30].split(D.SEP)[0] if not impl.startswith('ok') else 'ok'}")
    if impl.startswith("err @schema-sql"):
        ctx.branch("outside-model:schema-sql")
    elif model.startswith("err outsideModel"):
        ctx.branch("outside-model:" + label)
    elif impl != model:
        div = D.first_divergence(impl, model)
        ctx.disagreements.append({"label": label, "op": op, "div": div})
    ctx.sample({"op": op[:200], "impl": impl[:160].replace(D.SEP, " ;; "), "agree": impl == model})
    return impl, db, exc


def compare_history_dump(ctx, db_path, wal_path, label, mem=False, strict=True, wal_size=None, with_trees=True):
    impl, vh, exc = D.dump_history(db_path, wal_path, mem=mem, strict=strict, wal_size=wal_size, with_trees=with_trees)
    op = (f"vh.dump {db_path} {wal_path or '-'} mem={int(mem)} strict={int(strict)} frames={D.frames_available()}"
          + (f" walsize={wal_size}" if wal_size else "") + ("" if with_trees else " trees=0"))
    model = driver.ask1(op)
    ctx.evals += 1
    if impl.startswith("ok"):
        ctx.nontrivial.add(str(hash(impl)))
    ctx.branch(f"{label}:{impl.split(D.SEP)[0][:40] if not impl.startswith('ok') else 'ok'}")
    if "@schema-sql" in impl:
        ctx.branch("outside-model:schema-sql")
    elif "outsideModel" in model:
        ctx.branch("outside-model:" + label)
    elif impl != model:
        ctx.disagreements.append({"label": label, "op": op, "div": D.first_divergence(impl, model)})
    ctx.sample({"op": op[:200], "impl": impl[:160].replace(D.SEP, " ;; "), "agree": impl == model})
    return impl, vh, exc


# ------------------------------------------------------------------------ value comparison
def impl_value_matches(col, ty, hexv, pyval, encoding_unused=None):
    """record column (serial_type, value) against SQLite's (typeof, hex, python value)"""
    st, v = col.serial_type, col.value
    if ty == "null":
        return st == 0 and v is None
    if ty == "integer":
        return st in (1, 2, 3, 4, 5, 6, 8, 9) and isinstance(v, int) and v == pyval
    if ty == "real":
        if st == 7:
            return isinstance(v, float) and struct.pack(">d", v) == struct.pack(">d", pyval)
        # a whole-number real is stored as an integer
        return st in (1, 2, 3, 4, 5, 6, 8, 9) and float(v) == pyval
    if ty == "text":
        return st >= 13 and st % 2 == 1 and bytes(v) == bytes.fromhex(hexv)
    if ty == "blob":
        return st >= 12 and st % 2 == 0 and bytes(v) == bytes.fromhex(hexv)
    return False


def check_table_rows(ctx, version, table, names, alias, oracle, case):
    """rows of select_all_from_table against SQLite's; returns number of rows checked"""
    try:
        cells = list(interface.select_all_from_table(table, version))
    except Exception as e:  # noqa
        ctx.oracle_fail("rows-rejected", f"reading table rows failed: {type(e).__name__}", dict(case, table=table),
                        str(e)[:300], f"{len(oracle)} rows")
        return 0
    got = sorted(cells, key=lambda c: c.row_id)
    if [c.row_id for c in got] != [r[0] for r in oracle]:
        ctx.oracle_fail("rowids", "rowids differ from SQLite's (missing, duplicated or invented row)",
                        dict(case, table=table), [c.row_id for c in got][:20], [r[0] for r in oracle][:20])
        return 0
    for c, (rid, vals) in zip(got, oracle):
        cols = c.payload.record_columns
        if len(cols) > len(vals):
            ctx.oracle_fail("ncols", "more stored columns than the table has", dict(case, table=table, rowid=rid),
                            len(cols), len(vals))
            continue
        for i, col in enumerate(cols):
            ty, hexv, pv = vals[i]
            if i == 0 and alias:
                # rowid alias: stored NULL, SQLite shows the rowid
                ok = col.serial_type == 0 and col.value is None and pv == rid
            else:
                ok = impl_value_matches(col, ty, hexv, pv)
            if not ok:
                ctx.oracle_fail("value", "column value/storage class differs from SQLite's",
                                dict(case, table=table, rowid=rid, col=i),
                                (col.serial_type, repr(col.value)[:80]), (ty, hexv[:80]))
        # columns missing at the end (ADD COLUMN) read as NULL/default in SQLite: nothing stored, nothing to compare
    return len(got)


def page_free_space(p):
    free = p.unallocated_space_end_offset - p.unallocated_space_start_offset
    free += sum(f.byte_size for f in p.freeblocks) + sum(f.byte_size for f in p.fragments)
    return free


def dbstat(path):
    con = sqlite3.connect(f"file:{path}?mode=ro", uri=True)
    try:
        rows = list(con.execute("SELECT pageno, pagetype, unused, ncell, name FROM dbstat"))
        pc = con.execute("PRAGMA page_count").fetchone()[0]
        fl = con.execute("PRAGMA freelist_count").fetchone()[0]
        ic = con.execute("PRAGMA integrity_check").fetchone()[0]
        return rows, pc, fl, ic
    finally:
        con.close()


ROOT = os.path.dirname(os.path.dirname(os.path.dirname(os.path.abspath(__file__))))


def keep_failing_files(ctx, n_before, *paths):
    """copy the input files of the failures recorded since n_before next to the replay files and
    record their (relative) names in those failures"""
    new = ctx.oracle_failures[n_before:]
    if not new or getattr(ctx, "_kept", 0) >= 4:
        return
    ctx._kept = getattr(ctx, "_kept", 0) + 1
    d = os.path.join(ROOT, "replays", "files")
    os.makedirs(d, exist_ok=True)
    rels = []
    for p in paths:
        if p and os.path.exists(p):
            dst = os.path.join(d, f"{ctx.prop_id}-{ctx.seed}-{os.path.basename(p)}")
            shutil.copyfile(p, dst)
            rels.append(os.path.relpath(dst, ROOT))
    for f in new:
        if isinstance(f.get("case"), dict):
            f["case"]["files"] = rels


def replay_files(data):
    case = (data.get("failure") or {}).get("case", {})
    files = case.get("files") or ([case["corpus_file"]] if case.get("corpus_file") else [])
    return [os.path.join(ROOT, f) for f in files]
