"""C14 — index and WITHOUT ROWID b-trees decode to exactly SQLite's entries."""
import sqlite3
import struct
from collections import Counter

from sqlite_dissect import interface
from sqlite_dissect.file.database.page import BTreePage
from sqlite_dissect.file.database.utilities import get_pages_from_b_tree_page

from ..gen import histories as H, sqlite_factory as F
from . import dbcommon as C

ID = "C14"
LEAN_MODULES = ["SqliteDissect.Properties.C01Tree", "SqliteDissect.Properties.C14", "SqliteDissect.Properties.C01Cell", "SqliteDissect.Properties.C15", "SqliteDissect.Properties.C16"]
RULE = ("factory databases with ordinary / unique / partial / multi-column / automatic indexes and WITHOUT ROWID "
        "tables over every page size and encoding, index payloads around the index overflow threshold; all cells "
        "(leaf and interior) of each index b-tree compared with the Lean model (db.dump) and, as multisets of "
        "(typeof, hex) tuples, with the entries SQLite holds. non-trivial = distinct accepted dump")
ASSUMPTIONS = ["SQLite 3.40.1 is the oracle: index entries are recomputed from the table rows SQLite returns "
               "(indexed columns followed by the rowid; for WITHOUT ROWID the primary key columns then the rest)"]


def canon_sql(ty, hexv, v):
    if ty == "null":
        return ("null",)
    if ty == "integer":
        return ("num", float(v), int(v))
    if ty == "real":
        # whole-number reals are stored as integers in index records too
        return ("num", float(v), int(v) if float(v).is_integer() and abs(v) < 2 ** 62 else None) if False else ("real", struct.pack(">d", v))
    return (ty, hexv)


def canon_impl(col):
    st, v = col.serial_type, col.value
    if st == 0:
        return ("null",)
    if st == 7:
        return ("real", struct.pack(">d", v))
    if st in (1, 2, 3, 4, 5, 6, 8, 9):
        return ("int", int(v))
    return ("text" if st % 2 else "blob", bytes(v).hex().upper())


def canon_sql2(ty, hexv, v):
    if ty == "null":
        return ("null",)
    if ty == "integer":
        return ("int", int(v))
    if ty == "real":
        return ("real", struct.pack(">d", v))
    return (ty, hexv)


def same_entry(a, b):
    """impl tuple vs sql tuple; a real holding a whole number may be stored as an integer"""
    if len(a) != len(b):
        return False
    for x, y in zip(a, b):
        if x == y:
            continue
        if x[0] == "int" and y[0] == "real" and struct.pack(">d", float(x[1])) == y[1]:
            continue
        return False
    return True


def expected_index_entries(path, table, icols, where):
    con = sqlite3.connect(f"file:{path}?mode=ro", uri=True)
    try:
        sel = ", ".join(f"typeof({c}), hex({c}), {c}" for c in icols)
        q = f"SELECT {sel}, rowid FROM {table} NOT INDEXED" + (f" WHERE {where}" if where else "")
        out = []
        for row in con.execute(q):
            ent = [canon_sql2(row[3 * i], row[3 * i + 1], row[3 * i + 2]) for i in range(len(icols))]
            ent.append(("int", row[-1]))
            out.append(tuple(ent))
        return out
    finally:
        con.close()


def all_cells(version, root_number):
    root = version.get_b_tree_root_page(root_number)
    cells = []
    for p in get_pages_from_b_tree_page(root):
        if isinstance(p, BTreePage):
            cells.extend(p.cells)
    return cells


def match_multiset(ctx, got, want, what, case):
    want = list(want)
    used = [False] * len(want)
    idx = {}
    for i, w in enumerate(want):
        idx.setdefault(len(w), []).append(i)
    missing = 0
    for g in got:
        found = False
        for i in idx.get(len(g), []):
            if not used[i] and same_entry(g, want[i]):
                used[i] = True
                found = True
                break
        if not found:
            missing += 1
            if missing <= 1:
                ctx.oracle_fail("entry", f"{what}: an entry of the parsed b-tree is not an entry SQLite holds", case,
                                repr(g)[:200], f"{len(want)} entries")
    if len(got) != len(want) and not missing:
        ctx.oracle_fail("entry-count", f"{what}: number of entries differs from SQLite's", case, len(got), len(want))


def wal_versions(ctx, sc, r):
    """index b-trees in the versions of a WAL: an overflowing WITHOUT ROWID row (table w0 of the overflow_inplace histories)
    is updated in place, SQLite rewrites one overflow page only, and the leaf page with the cell keeps its older version;
    every version must still decode to the entries SQLite has after that commit"""
    import re
    for i in range(6 if ctx.thorough() else 2):
        cfg = F.random_cfg(r, page_sizes=[512, 1024], small=True)
        cfg["auto_vacuum"] = 0
        h = H.make_history(sc.path(f"c14h{i}"), cfg, r, kind="overflow_inplace")
        case = {"kind": h.kind, "cfg": cfg, "events": h.events, "seed": ctx.seed}
        n0 = len(ctx.oracle_failures)
        impl, vh, exc = C.compare_history_dump(ctx, h.db, h.wal, "vh.dump")
        ctx.branch("wal-versions:" + ("ok" if vh is not None else "rejected"))
        if vh is None:
            ctx.oracle_fail("rejected", f"a database/WAL pair written by SQLite is rejected: {impl}", case, impl, "accepted")
            C.keep_failing_files(ctx, n0, h.db, h.wal)
            continue
        bad = re.findall(r"(V\d+\.(?:schema|census|tree\d+))=(err \w+)", impl)
        if bad:
            ctx.oracle_fail("version-unreadable", "a b-tree of a version of a database/WAL pair written by SQLite cannot be read: "
                            + ", ".join(f"{a} {b}" for a, b in bad[:4]), dict(case, sections=[a for a, _ in bad][:8]), bad[0][1], "readable")
            C.keep_failing_files(ctx, n0, h.db, h.wal)
            continue


def run(ctx, n_quick=36, n_thorough=400):
    sc = C.Scratch()
    try:
        r = ctx.rng
        nent = 0
        wal_versions(ctx, sc, r)
        for b in C.build_databases(ctx, sc, C.n_databases(ctx, n_quick, n_thorough), force={"index_boundary": lambda i: i % 3 == 0}):
            case = {"cfg": b.cfg, "seed": ctx.seed}
            n0 = len(ctx.oracle_failures)
            impl, db, exc = C.compare_db_dump(ctx, b.path, "db.dump")
            if db is None:
                ctx.oracle_fail("rejected", f"a database written by SQLite is rejected: {impl}", case, impl, "accepted")
                C.keep_failing_files(ctx, n0, b.path)
                continue
            entries = {e.name: e for e in db.master_schema.master_schema_entries}
            con = sqlite3.connect(f"file:{b.path}?mode=ro", uri=True)
            idx_sql = {row[0]: (row[1], row[2]) for row in con.execute("SELECT name, tbl_name, sql FROM sqlite_master WHERE type='index'")}
            con.close()
            for iname, (table, icols) in b.indexes.items():
                if iname not in entries or table not in b.tables:
                    continue
                sql = idx_sql.get(iname, (None, ""))[1] or ""
                where = sql.split(" WHERE ", 1)[1] if " WHERE " in sql else None
                want = expected_index_entries(b.path, table, icols, where)
                try:
                    cells = all_cells(db, entries[iname].root_page_number)
                    leaf_cells = list(interface.select_all_from_index(iname, db))
                except Exception as e:  # noqa
                    ctx.oracle_fail("index-rejected", f"reading an index b-tree SQLite wrote fails: {type(e).__name__}",
                                    dict(case, index=iname), str(e)[:200], f"{len(want)} entries")
                    continue
                got = [tuple(canon_impl(c) for c in cell.payload.record_columns) for cell in cells]
                match_multiset(ctx, got, want, f"index {iname}", dict(case, index=iname))
                nent += len(got)
                ctx.branch("index-with-interior" if any(hasattr(c, "left_child_pointer") for c in cells) else "index-leaf-only")
                if any(c.has_overflow for c in cells):
                    ctx.branch("index-entry-overflow")
                # leaf-only helper: subset with correct values
                leaf = [tuple(canon_impl(c) for c in cell.payload.record_columns) for cell in leaf_cells]
                pool = list(want)
                for g in leaf:
                    hit = next((w for w in pool if same_entry(g, w)), None)
                    if hit is None:
                        ctx.oracle_fail("leaf-subset", "select_all_from_index returns an entry SQLite does not hold",
                                        dict(case, index=iname), repr(g)[:200], None)
                        break
                    pool.remove(hit)
            for w, cols in b.without_rowid.items():
                if w not in entries:
                    continue
                con = sqlite3.connect(f"file:{b.path}?mode=ro", uri=True)
                sel = ", ".join(f"typeof({c}), hex({c}), {c}" for c in cols)
                want = [tuple(canon_sql2(row[3 * i], row[3 * i + 1], row[3 * i + 2]) for i in range(len(cols)))
                        for row in con.execute(f"SELECT {sel} FROM {w}")]
                con.close()
                try:
                    cells = all_cells(db, entries[w].root_page_number)
                except Exception as e:  # noqa
                    ctx.oracle_fail("index-rejected", f"reading a WITHOUT ROWID b-tree SQLite wrote fails: {type(e).__name__}",
                                    dict(case, table=w), str(e)[:200], f"{len(want)} entries")
                    continue
                got = [tuple(canon_impl(c) for c in cell.payload.record_columns) for cell in cells]
                match_multiset(ctx, got, want, f"WITHOUT ROWID table {w}", dict(case, table=w))
                nent += len(got)
                ctx.branch("without-rowid")
        ctx.extra["entries_compared_with_sqlite"] = nent
    finally:
        sc.close()


def search(ctx, broken):
    run(ctx, 200, 200)


def replay(ctx, data):
    run(ctx, 10, 10)


MATCHERS = {}
