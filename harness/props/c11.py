"""C11 — every export format preserves the reported rows and their values."""
import ast
import csv
import io
import logging
import os
import re
import shutil
import sqlite3
import struct
import warnings

import openpyxl
from sqlite_dissect import constants as SC
from sqlite_dissect.carving.signature import Signature
from sqlite_dissect.constants import BASE_VERSION_NUMBER, MASTER_SCHEMA_ROW_TYPE, PAGE_TYPE
from sqlite_dissect.export.csv_export import CommitCsvExporter
from sqlite_dissect.export.sqlite_export import CommitSqliteExporter
from sqlite_dissect.export.text_export import CommitTextExporter
from sqlite_dissect.export.xlsx_export import CommitXlsxExporter
from sqlite_dissect.file.database.database import Database
from sqlite_dissect.file.wal.wal import WriteAheadLog
from sqlite_dissect.version_history import VersionHistory, VersionHistoryParser

from ..gen import histories as H, sqlite_factory as F
from ..impl.canon import classify, hx
from ..leanio import driver
from ..translate import xmlranges
from . import dbcommon as C

logging.getLogger("sqlite_dissect").setLevel(logging.CRITICAL + 1)
warnings.filterwarnings("ignore")

ID = "C11"
LEAN_MODULES = ["SqliteDissect.Properties.C11"]
TRANSLATORS = [xmlranges]
RULE = ("(1) primitives of the model against CPython: bytes.decode(enc,'replace') for utf-8/utf-16-le/utf-16-be on every "
        "1-byte string, a sample of 2-byte strings, structured boundary sequences and corrupted encodings of real text; "
        "repr(bytes); the XML-illegal class over every code point (exhaustive); the trusted-interface statements "
        "csvWritten / sqliteStored against the real csv and sqlite3 modules. (2) the real static _write_cells of the four "
        "exporters on stub cells carrying every Python type the code tests for (None, int, float, bytes, bytearray, str) x "
        "consistent and inconsistent serial types x three encodings, rows compared object for object with export.row; the real "
        "write_commit of the four exporters on stub commits (header rows, one row per cell, group order, refused page types) "
        "against csvCommit/xlsxCommit/sqliteCommit/textCommit; the complete CREATE TABLE and INSERT statements of the SQLite "
        "export (quoted identifiers, names with spaces, quotes, keywords), the XLSX sheet title and the CSV file name. "
        "(3) real databases / WAL histories built by SQLite holding the value grid (one single-row database per value and "
        "encoding, multi-column tables, indexes, WITHOUT ROWID, short rows after ADD COLUMN, updates, deletes, carved "
        "cells): the four real exporters are run, the files read back with csv / sqlite3 / openpyxl / a text parser, every "
        "cell compared with the model's rendering of the value the library reported pushed through the real writer "
        "library, and with the property itself (one record per reported cell with operation, version, page, offset, "
        "rowid; values read back unchanged; the five empty/zero values distinct; no value makes an export fail). "
        "non-trivial = distinct (format, encoding, reported value) whose export did not raise")
ASSUMPTIONS = [
    "csv.writer / csv.reader, openpyxl 3.1.5 and sqlite3 are trusted: the model ends at the objects handed to them; what they do with those objects is observed by running them, never proved",
    "repr(float) is Python's (parameter fs of the model); REAL values are compared by bit pattern",
    "CPython's utf-8 / utf-16 codecs with errors='replace' are modelled and tied by correspondence only",
    "XLSX sheet titles longer than 31 characters (first 30 characters + a digit, in writing order) are generated and read back but not modelled",
]
TRUSTED_EXTRA = [
    "csv, openpyxl, sqlite3 (writers and readers) and Python's float repr: outside the model; the readers used by this check are part of its trusted base",
]

ENCS = {"UTF-8": "utf-8", "UTF-16le": "utf-16-le", "UTF-16be": "utf-16-be"}
PT = {PAGE_TYPE.B_TREE_TABLE_LEAF: "tableLeaf", PAGE_TYPE.B_TREE_TABLE_INTERIOR: "tableInterior",
      PAGE_TYPE.B_TREE_INDEX_LEAF: "indexLeaf"}
OPS = ["Added", "Updated", "Deleted", "Carved"]


# ------------------------------------------------------------------------------ wire forms
def cphex(s):
    return "".join("%06x" % ord(c) for c in s) if s else "-"


def uncp(h):
    return "" if h == "-" else "".join(chr(int(h[i:i + 6], 16)) for i in range(0, len(h), 6))


def fbits(f):
    return struct.unpack(">Q", struct.pack(">d", f))[0]


def unbits(b):
    return struct.unpack(">d", struct.pack(">Q", b))[0]


def obj(v):
    if v is None:
        return "N"
    if isinstance(v, bool):
        return "I%d" % int(v)
    if isinstance(v, int):
        return "I%d" % v
    if isinstance(v, float):
        return "F%d" % fbits(v)
    if isinstance(v, bytes):
        return "B" + hx(v)
    if isinstance(v, bytearray):
        return "A" + hx(v)
    if isinstance(v, memoryview):
        return "M" + hx(v.tobytes())
    if isinstance(v, str):
        return "S" + cphex(v)
    raise TypeError(type(v))


def unobj(t):
    k, r = t[0], t[1:]
    if k == "N":
        return None
    if k == "I":
        return int(r)
    if k == "F":
        return unbits(int(r))
    if k in "BAM":
        b = b"" if r == "-" else bytes.fromhex(r)
        return b if k == "B" else bytearray(b) if k == "A" else memoryview(b)
    if k == "S":
        return uncp(r)
    raise ValueError(t)


def fs_arg(values):
    fl = sorted({fbits(v) for v in values if isinstance(v, float)})
    if not fl:
        return "fs=-"
    return "fs=" + ",".join("%d:%s" % (b, cphex(repr(unbits(b)))) for b in fl)


def text_aff(st):
    return st >= 13 and st % 2 == 1


def val_of(st, v):
    """canonical Val of a reported column (class from the Python type and the serial type's parity)"""
    if v is None:
        return "null"
    if isinstance(v, int):
        return "int:%d" % v
    if isinstance(v, float):
        return "real:%d" % fbits(v)
    return ("text:" if text_aff(st) else "blob:") + hx(bytes(v))


def sql_literal(v):
    if v is None:
        return "NULL"
    if isinstance(v, (int, float)):
        return repr(v) if v == v and abs(v) != float("inf") else ("9e999" if v > 0 else "-9e999")
    if isinstance(v, bytes):
        return "x'%s'" % v.hex()
    if isinstance(v, RawText):
        return "CAST(x'%s' AS TEXT)" % v.b.hex()
    return "'" + v.replace("'", "''") + "'" if "\x00" not in v else "<bound parameter %r>" % v


class RawText:
    """text stored with exactly these bytes (CAST(blob AS TEXT)): ill-formed in the database encoding"""

    def __init__(self, b):
        self.b = b

    def __repr__(self):
        return "RawText(%r)" % self.b


# ------------------------------------------------------------------------------ value grid
INTS = [0, 1, -1, 127, -128, 255, 32767, -32769, 2 ** 31, 2 ** 53, 2 ** 53 + 1, -(2 ** 53) - 1, 10 ** 16 + 1, 2 ** 63 - 1, -(2 ** 63)]
REALS = [0.0, -0.0, 1.0, 1.5, -2.5e-300, 1e300, 3.141592653589793, 0.30000000000000004, 123456789.0, float("inf"), float("-inf")]
TEXTS = ["", "a", "hello world", "NULL", "0", "0.0", "b''", "None", "1e5",
         "=SUM(A1)", "=", "==x", " =x", "-1+1", "+1", "@x",
         'quo"te', '"', "it's", "com,ma", "a, b", ", ", "par)en", "(x)", "x).", "line\nbreak", "cr\rlf\r\nend", "\r", "tab\there",
         "\x00", "nul\x00mid", "\x01\x02", "\x0b\x0c", "\x1f", "\x7f", "\x85", "\u0080\u009f", "﷐", "￾￿",
         "\U0001fffe", "\U0010ffff", "=\x01",
         "naïve café", "日本語テキスト", "emoji 😀", "𝔘𝔫𝔦", "﻿bom", "trailing ", " leading", "x" * 300, "y" * 32768]
BLOBS = [b"", b"\x00", b"abc", b"'", b'"', b"'\"", b"\\", b"\t\n\r", bytes(range(256)), b"=1", b"\xff\xfe", b"NULL"]
RAW_TEXT = {
    "UTF-8": [b"\xff", b"\xc3", b"a\xe2\x82", b"\xed\xa0\x80", b"\xf4\x90\x80\x80", b"\xc0\xaf", b"ok\x80"],
    "UTF-16le": [b"a\x00b", b"\x00\xd8", b"\x00\xdca\x00", b"\x3d\xd8a\x00", b"=", b"\x00"],
    "UTF-16be": [b"\x00ab", b"\xd8\x00", b"\xdc\x00\x00a", b"\xd8\x3d\x00a", b"=", b"\x00"],
}
FIVE = [None, 0, 0.0, "", b""]


def grid(enc_name):
    return [None] + INTS + REALS + TEXTS + BLOBS + [RawText(b) for b in RAW_TEXT[enc_name]]


# ------------------------------------------------------------------------------ (1) primitives
def prim_decode(ctx):
    r = ctx.rng
    cases = []
    seqs = [bytes([a]) for a in range(256)]
    two = [bytes([a, b]) for a in range(256) for b in range(256)]
    seqs += two if ctx.thorough() else r.sample(two, 6000)
    lead = [0x00, 0x7f, 0x80, 0xbf, 0xc0, 0xc1, 0xc2, 0xdf, 0xe0, 0xe1, 0xec, 0xed, 0xee, 0xef, 0xf0, 0xf1, 0xf3, 0xf4, 0xf5, 0xff]
    cont = [0x00, 0x7f, 0x80, 0x8f, 0x90, 0x9f, 0xa0, 0xbf, 0xc0, 0xff, 0x41]
    for a in lead:
        for b in cont:
            for c in cont:
                seqs.append(bytes([a, b, c]))
                seqs.append(bytes([a, b, c, 0x80]))
                seqs.append(bytes([0x61, a, b, c, 0xbf, 0x62]))
    units = [0x0041, 0xd7ff, 0xd800, 0xdbff, 0xdc00, 0xdfff, 0xe000, 0xfffd, 0xfffe, 0xffff, 0x003d]
    for u in units:
        for v in units:
            for w in units:
                for be in (False, True):
                    b = b"".join(struct.pack(">H" if be else "<H", x) for x in (u, v, w))
                    seqs.append(b)
                    seqs.append(b[:-1])
                    seqs.append(b[1:])
    for _ in range(12000 if ctx.thorough() else 1500):
        t = r.choice(TEXTS + F.TEXTS) + "".join(chr(r.choice([r.randint(0, 0x7f), r.randint(0x80, 0x7ff), r.randint(0x800, 0xd7ff),
                                                                    r.randint(0xe000, 0xffff), r.randint(0x10000, 0x10ffff)]))
                                                 for _ in range(r.randint(0, 6)))
        b = bytearray(t.encode(r.choice(list(ENCS.values()))))
        for _ in range(r.randint(0, 3)):
            if b and r.random() < 0.7:
                k = r.randrange(len(b))
                act = r.random()
                if act < 0.4:
                    b[k] = r.randrange(256)
                elif act < 0.7:
                    del b[k]
                else:
                    b.insert(k, r.randrange(256))
        seqs.append(bytes(b))
    for b in seqs:
        for enc in ENCS.values():
            cases.append((f"export.decode {enc} {hx(b)}", "ok " + cphex(b.decode(enc, "replace"))))
    ctx.differential(cases, "decode", nontrivial=lambda line, out: out != "ok -")


def prim_repr(ctx):
    r = ctx.rng
    bs = [bytes([a]) for a in range(256)] + [bytes([a, b]) for a in (39, 34, 92, 0, 97) for b in range(256)] + BLOBS
    for _ in range(3000 if ctx.thorough() else 600):
        bs.append(bytes(r.choice([39, 34, 92, 9, 10, 13, 0, 127, 255, r.randrange(256)]) for _ in range(r.randint(0, 12))))
    ctx.differential([(f"export.bytesrepr {hx(b)}", "ok " + cphex(str(b))) for b in bs], "bytesrepr")
    ctx.differential([(f"export.bytearrayrepr {hx(b)}", "ok " + cphex(str(bytearray(b)))) for b in bs], "bytearrayrepr")


def prim_scrub(ctx):
    pat = SC.ILLEGAL_XML_CHARACTER_PATTERN
    ranges, lo = [], None
    for cp in range(0x110000):
        hit = pat.match(chr(cp)) is not None
        if hit and lo is None:
            lo = cp
        if not hit and lo is not None:
            ranges.append((lo, cp - 1))
            lo = None
    if lo is not None:
        ranges.append((lo, 0x10FFFF))
    ctx.differential([("export.illegal", "ok " + ",".join(f"{a}-{b}" for a, b in ranges))], "illegal-class")
    ctx.exhaustive_parts = ["XML-illegal character class: all 1,114,112 code points"]
    r = ctx.rng
    cases = []
    for t in TEXTS + ["".join(chr(r.choice([r.randint(0, 0x9f), r.randint(0xfdc0, 0x10000), r.randint(0, 0x10ffff)])) for _ in range(8))
                      for _ in range(400)]:
        cases.append((f"export.scrub {cphex(t)}", "ok " + cphex(pat.sub(" ", t))))
    ctx.differential(cases, "scrub")


def csv_roundtrip(objs):
    """what the real csv module (the exporter's dialect) makes of each object: object -> field string"""
    buf = io.StringIO(newline="")
    w = csv.writer(buf, delimiter=",", quotechar='"', quoting=csv.QUOTE_ALL)
    for o in objs:
        w.writerow(["k", o])
    buf.seek(0)
    return [row[1] for row in csv.reader(buf)]


def sqlite_roundtrip(objs):
    con = sqlite3.connect(":memory:")
    con.execute("CREATE TABLE t (k, v)")
    con.executemany("INSERT INTO t VALUES (?, ?)", [(i, o) for i, o in enumerate(objs)])
    out = []
    for ty, h, v in con.execute("SELECT typeof(v), hex(v), v FROM t ORDER BY k"):
        out.append(stored_canon(ty, h, v))
    con.close()
    return out


def stored_canon(ty, h, v):
    if ty == "null":
        return "null"
    if ty == "integer":
        return "int:%d" % v
    if ty == "real":
        return "real:%d" % fbits(v)
    return f"{ty}:{h.lower() or '-'}"


def xlsx_roundtrip(objs, path):
    wb = openpyxl.Workbook(write_only=True)
    ws = wb.create_sheet("s")
    for o in objs:
        ws.append(["k", o])
    wb.save(path)
    wb2 = openpyxl.load_workbook(path)
    out = [row[1] if len(row) > 1 else None for row in wb2["s"].iter_rows(values_only=True)]
    wb2.close()
    return out


_RT = {}


def cached_roundtrip(kind, fn):
    """round trip through the real writer library, remembered per object (keyed by its canonical token)"""
    def go(objs):
        toks = [obj(o) for o in objs]
        miss = [t for t in dict.fromkeys(toks) if (kind, t) not in _RT]
        if miss:
            for t, w in zip(miss, fn([unobj(t) for t in miss])):
                _RT[(kind, t)] = w
        return [_RT[(kind, t)] for t in toks]
    return go


def iface(ctx):
    objs = [None, 0, -7, 2 ** 63 - 1, 0.0, -0.0, 1.5, 1e300, float("inf"), "", "a", 'q"u', "a,b", "l\nb", "é😀", " =x", "\r"]
    fields = csv_roundtrip(objs)
    ctx.differential([(f"export.written csv {obj(o)} {fs_arg([o])}", "ok " + cphex(f)) for o, f in zip(objs, fields)], "iface-csv")
    objs3 = [None, "", "a", " =x", "é😀", 5]

    def xcell(v):
        return "empty" if v is None else ("string " + cphex(v) if isinstance(v, str) else "number " + obj(v))
    ctx.differential([(f"export.stored xlsx {obj(o)}", "ok " + xcell(w)) for o, w in zip(objs3, xlsx_roundtrip(objs3, ctx._c11_scratch.path("iface.xlsx")))],
                     "iface-xlsx")
    objs2 = [None, 0, -7, 2 ** 63 - 1, 0.0, 1.5, b"", b"ab", bytearray(b"x"), memoryview(b"yz"), "", "a", "é😀", "=x"]
    ctx.differential([(f"export.stored sqlite {obj(o)}", "ok " + s) for o, s in zip(objs2, sqlite_roundtrip(objs2))], "iface-sqlite")


# ------------------------------------------------------------------------------ (2) stub cells through the real _write_cells
class _RC:
    def __init__(self, st, v):
        self.serial_type, self.value = st, v


class _Payload:
    def __init__(self, cols):
        self.record_columns = [_RC(st, v) for st, v in cols]


class _Cell:
    def __init__(self, cols, row_id=7, version=3, pversion=2, source="B-Tree", page=5, location="Allocated Space", off=4242):
        self.payload = _Payload(cols)
        self.row_id, self.version_number, self.page_version_number = row_id, version, pversion
        self.source, self.page_number, self.location, self.file_offset = source, page, location, off


class _Collector:
    def __init__(self):
        self.rows = []

    def writerow(self, row):
        self.rows.append(list(row))

    def append(self, row):
        self.rows.append(list(row))

    def executemany(self, stmt, entries):
        self.rows.extend(list(e) for e in entries)

    def write(self, b):
        self.rows.append(b)


def impl_row(fmt, enc, page_type, ncols, file_type, op, cell):
    col = _Collector()
    try:
        if fmt == "csv":
            CommitCsvExporter._write_cells(col, file_type, enc, page_type, [cell], op)
        elif fmt == "xlsx":
            CommitXlsxExporter._write_cells(col, file_type, enc, page_type, [cell], op)
        elif fmt == "sqlite":
            CommitSqliteExporter._write_cells(col, "t", ncols, file_type, enc, page_type, [cell], op)
        else:
            CommitTextExporter._write_cells(col, file_type, enc, page_type, [cell], op)
    except Exception as e:  # noqa
        return "err " + classify(e)
    if len(col.rows) != 1:
        return f"ok <{len(col.rows)} rows>"
    if fmt == "text":
        return "ok S" + cphex(col.rows[0].decode("utf-8", "surrogatepass"))
    return "ok " + " ".join(obj(x) for x in col.rows[0])


def row_op(fmt, enc, pt_name, ncols, file_type, op, cell):
    cols = ";".join(f"{rc.serial_type}:{obj(rc.value)}" for rc in cell.payload.record_columns) or "-"
    rid = getattr(cell, "row_id", None)
    vals = [rc.value for rc in cell.payload.record_columns] + [rid, cell.file_offset]
    return (f"export.row {fmt} {enc} {pt_name} {ncols} {obj(file_type)} {obj(op)} {obj(cell.version_number)} "
            f"{obj(cell.page_version_number)} {obj(cell.source)} {obj(cell.page_number)} {obj(cell.location)} "
            f"{obj(cell.file_offset)} {obj(rid)} cols={cols} {fs_arg(vals)}")


def stub_values(enc_name):
    enc = ENCS[enc_name]
    out = []
    for v in grid(enc_name):
        if isinstance(v, RawText):
            out.append((13 + 2 * len(v.b), v.b))
        elif isinstance(v, str):
            b = v.encode(enc)
            out.append((13 + 2 * len(b), b))
        elif isinstance(v, bytes):
            out.append((12 + 2 * len(v), v))
        elif v is None:
            out.append((0, None))
        elif isinstance(v, float):
            out.append((7, v))
        else:
            out.append((6, v))
    return out


def stub_rows(ctx):
    cases = []
    for enc_name, enc in ENCS.items():
        base = stub_values(enc_name)
        cols = list(base)
        # the other Python types the exporters test for, and serial types that do not fit the value
        for st, v in base:
            if isinstance(v, bytes):
                cols.append((st, bytearray(v)))
                cols.append((st ^ 1 if st >= 12 else 13, v))            # text bytes with blob type and vice versa
                cols.append((st ^ 1 if st >= 12 else 13, bytearray(v)))
        for s in ["", "abc", "=x", "\x01", "é", "\ud800", "a\udfffb"]:
            cols.append((12, s))
            cols.append((13 + 2 * len(s), s))
        cols += [(1, None), (50, None), (51, None), (13, 0), (13, 5), (15, 1.5), (-1, b"x"), (-3, b"x"), (0, b"zz")]
        for st, v in cols:
            for fmt in ("csv", "xlsx", "sqlite", "text"):
                for pt, pt_name in ((PAGE_TYPE.B_TREE_TABLE_LEAF, "tableLeaf"), (PAGE_TYPE.B_TREE_INDEX_LEAF, "indexLeaf")):
                    if pt_name == "indexLeaf" and ctx.rng.random() < 0.8:
                        continue
                    cell = _Cell([(st, v)])
                    cases.append((row_op(fmt, enc, pt_name, 12, "WAL", "Added", cell), impl_row(fmt, enc, pt, 12, "WAL", "Added", cell)))
        # multi-column rows, short/long rows against the column count, carved row ids, other page types
        r = ctx.rng
        for _ in range(400 if ctx.thorough() else 60):
            k = r.randint(0, 5)
            cell = _Cell([r.choice(cols) for _ in range(k)], row_id=r.choice([1, -5, 2 ** 40, "Unknown", None]),
                         version=r.randint(0, 9), pversion=r.randint(0, 9), source=r.choice(["B-Tree", "Freelist"]),
                         page=r.randint(1, 99), location=r.choice(["Allocated Space", "Freeblock", "Unallocated Space"]),
                         off=r.randint(0, 10 ** 6))
            pt, pt_name = r.choice([(PAGE_TYPE.B_TREE_TABLE_LEAF, "tableLeaf"), (PAGE_TYPE.B_TREE_INDEX_LEAF, "indexLeaf"),
                                    (PAGE_TYPE.B_TREE_TABLE_INTERIOR, "tableInterior"), (PAGE_TYPE.OVERFLOW, "other")])
            ncols = r.choice([8, 9, 10, 11, 12, 14])
            op = r.choice(OPS)
            ft = r.choice(["DATABASE", "WAL", "ROLLBACK_JOURNAL"])
            for fmt in ("csv", "xlsx", "sqlite", "text"):
                cases.append((row_op(fmt, enc, pt_name, ncols, ft, op, cell), impl_row(fmt, enc, pt, ncols, ft, op, cell)))
    ctx.differential(cases, "row")
    ctx.extra["stub_rows"] = len(cases)


def stub_headers(ctx):
    """column names of the SQLite export's CREATE TABLE, obtained from the real write_commit"""
    cases = []

    class _Conn:
        def __init__(self):
            self.stmts, self.inserts, self.entries = [], [], []

        def execute(self, s):
            self.stmts.append(s)

        def executemany(self, s, e):
            self.inserts.append(s)
            self.entries.append(e)

        def commit(self):
            pass

    class _CD:
        def __init__(self, n):
            self.column_name = n

    class _MSE:
        pass

    class _Commit:
        updated = True
        file_type = "DATABASE"
        database_text_encoding = "utf-8"
        name = "t"

    defs_list = [["a", "b"], [], ["sd_version"], ["sd_version", "sd_sd_version", "x"], ["sd_row_id", "sd_file_offset"],
                 ["sd_sd_sd_page_number", "sd_page_number", "sd_sd_page_number"], ["version", "Version", "sd_Version"],
                 ["a b", 'q"uote', "semi;colon", "select", "é", ""]]
    tnames = ["tbl", "my table", 'q"t', "sqlite_sequence", "a/b", "x]y"]
    for k, defs in enumerate(defs_list):
        for pt, pt_name, ncell in ((PAGE_TYPE.B_TREE_TABLE_LEAF, "tableLeaf", 0), (PAGE_TYPE.B_TREE_INDEX_LEAF, "indexLeaf", 3),
                                   (PAGE_TYPE.B_TREE_INDEX_LEAF, "indexLeaf", 0)):
            for iso in (False, True):
                tname = tnames[(k + int(iso)) % len(tnames)]
                mse = _MSE()
                mse.name = tname
                mse.column_definitions = [_CD(n) for n in defs]
                mse.internal_schema_object = iso
                cm = _Commit()
                cm.page_type = pt
                cells = {1: _Cell([(1, 1)] * ncell)}
                cm.added_cells, cm.updated_cells, cm.deleted_cells, cm.carved_cells = cells, {}, {}, {}
                ex = CommitSqliteExporter.__new__(CommitSqliteExporter)
                ex._sqlite_file_name = "x"
                ex._connection = _Conn()
                ex._master_schema_entries_created_tables = {}
                try:
                    ex.write_commit(mse, cm)
                    impl = "ok " + cphex(ex._connection.stmts[0])
                    impl_ins = "ok " + cphex(ex._connection.inserts[0])
                    nrow = len(ex._connection.entries[0][0])
                except Exception as e:  # noqa
                    impl = impl_ins = "err " + classify(e)
                    nrow = 0
                names = ",".join(cphex(n) for n in defs) or "none"
                cases.append((f"export.create {int(iso)} {cphex(tname)} {pt_name} {ncell} {names}", impl))
                if impl_ins.startswith("ok"):
                    cases.append((f"export.insert {int(iso)} {cphex(tname)} {nrow}", impl_ins))
    ctx.differential(cases, "headers")


def sheet_title(name):
    """mirror used only to find the sheet in the workbook; tied to the exporter and the model by stub_names"""
    return re.sub(r"[\\*?:/\[\]]", "_", name)


def expected_sheet_titles(names_in_writing_order):
    """the documented naming rule, written down independently of the exporter: the name with the characters a sheet title
    may not contain replaced by '_'; when that is longer than 31 characters or already the sheet of another name, its
    first 30 characters and the smallest digit that gives an unused title -> {name: title}"""
    out, used = {}, set()
    for name in names_in_writing_order:
        if name in out:
            continue
        t = sheet_title(name)
        if len(t) > 31 or t in used:
            t = next((t[:30] + str(k) for k in range(10) if t[:30] + str(k) not in used), None)
        out[name] = t
        used.add(t)
    return out


def stub_names(ctx, sc):
    """XLSX sheet title and CSV file name derived from the table / index name by the real write_commit"""
    cases = []

    class _WB:
        def __init__(self):
            self.names = []

        def create_sheet(self, name):
            self.names.append(name)
            return _Collector()

    class _MSE:
        column_definitions = []

    class _Commit:
        updated = True
        file_type = "F"
        database_text_encoding = "utf-8"
        page_type = PAGE_TYPE.B_TREE_INDEX_LEAF
        added_cells, updated_cells, deleted_cells, carved_cells = {}, {}, {}, {}

    d = sc.path("stubnames")
    os.makedirs(d, exist_ok=True)
    for name in ["t", "my table", 'q"t', "a/b", "a\\b", "x[1]", "what?", "a*b:c", "é 日本", "sd_ x"]:
        cm = _Commit()
        cm.name = name
        cm.added_cells = {0: _Cell([], row_id=None)}
        ex = CommitXlsxExporter.__new__(CommitXlsxExporter)
        ex._workbook, ex._sheets, ex._long_sheet_name_translation_dictionary, ex._xlsx_file_name = _WB(), {}, {}, "x"
        ex._sheet_commit_names = {}
        try:
            ex.write_commit(_MSE(), cm)
            impl = "ok " + cphex(ex._workbook.names[0])
        except Exception as e:  # noqa
            impl = "err " + classify(e)
        cases.append((f"export.sheettitle {cphex(name)}", impl))
        assert sheet_title(name) == (ex._workbook.names[0] if ex._workbook.names else sheet_title(name))
        exc = CommitCsvExporter(d, "p")
        try:
            exc.write_commit(_MSE(), cm)
            fn = os.path.basename(exc.csv_file_names[name])
            impl = "ok " + cphex(fn[2:-4]) if fn.startswith("p-") and fn.endswith(".csv") else "ok ?" + fn
        except Exception as e:  # noqa
            impl = "err " + classify(e)
        cases.append((f"export.csvstem {cphex(name)}", impl))
    ctx.differential(cases, "names")


def stub_commits(ctx, sc):
    """the real write_commit of the four exporters on stub commits: header rows, one row per cell, group order,
    page types that are refused — compared with the model's csvCommit / xlsxCommit / sqliteCommit / textCommit"""
    r = ctx.rng
    cases = []

    class _CD:
        def __init__(self, n):
            self.column_name = n

    class _MSE:
        name = "stub"
        column_definitions = []
        internal_schema_object = False
        row_type = "table"
        sql = "CREATE TABLE stub (x)"

    class _Commit:
        updated = True
        file_type = "F"
        database_text_encoding = "utf-8"
        name = "stub"
        version_number = 1
        root_page_number = 2
        b_tree_page_numbers = [2]

    class _Conn(_Collector):
        def execute(self, s):
            pass

        def commit(self):
            pass

    class _WB:
        def __init__(self):
            self.sheet = _Collector()

        def create_sheet(self, name):
            return self.sheet

    def ids(n, table, carved=False):
        if carved:
            return ["Unknown"] * n
        return [r.randint(-50, 50) for _ in range(n)] if table else [None] * n

    pts = [(PAGE_TYPE.B_TREE_TABLE_LEAF, "tableLeaf"), (PAGE_TYPE.B_TREE_INDEX_LEAF, "indexLeaf"),
           (PAGE_TYPE.B_TREE_TABLE_INTERIOR, "tableInterior"), (PAGE_TYPE.OVERFLOW, "other")]
    for trial in range(60 if ctx.thorough() else 16):
        pt, pt_name = pts[trial % 4] if trial < 8 else r.choice(pts[:2])
        table = pt_name != "indexLeaf"
        counts = [r.randint(0, 3) for _ in range(4)]
        if sum(counts) == 0:
            counts[0] = 1
        groups = [ids(counts[0], table), ids(counts[1], table), ids(counts[2], table), ids(counts[3], table, carved=True)]
        cm = _Commit()
        cm.page_type = pt
        dicts = []
        for g in groups:
            dicts.append({i: _Cell([], row_id=rid) for i, rid in enumerate(g)})
        cm.added_cells, cm.updated_cells, cm.deleted_cells, cm.carved_cells = dicts
        arg = " ".join(",".join(obj(x) for x in g) or "-" for g in groups)
        ncols = 9 if pt_name == "tableLeaf" else 8
        for second in (False, True):          # first commit of a table/index (headers) and a later one
            wh = 0 if second else 1
            # CSV (real files)
            d = sc.path(f"stubcsv{trial}{int(second)}")
            os.makedirs(d, exist_ok=True)
            ex = CommitCsvExporter(d, "p")
            try:
                if second:
                    cm0 = _Commit()
                    cm0.page_type = pt
                    cm0.added_cells, cm0.updated_cells, cm0.deleted_cells, cm0.carved_cells = {0: _Cell([], row_id=1)}, {}, {}, {}
                    ex.write_commit(_MSE(), cm0)
                    before = len(read_csv(ex.csv_file_names["stub"]))
                else:
                    before = 0
                ex.write_commit(_MSE(), cm)
                rows = read_csv(ex.csv_file_names["stub"])[before:]
                impl = "ok " + ",".join(str(len(x)) for x in rows)
            except Exception as e:  # noqa
                impl = "err " + classify(e)
            cases.append((f"export.commitrows csv {pt_name} {wh} {ncols} {arg}", impl))
            # XLSX
            ex = CommitXlsxExporter.__new__(CommitXlsxExporter)
            ex._workbook, ex._sheets, ex._long_sheet_name_translation_dictionary, ex._xlsx_file_name = _WB(), {}, {}, "x"
            ex._sheet_commit_names = {}
            if second:
                ex._sheets["stub"] = ex._workbook.sheet
            try:
                ex.write_commit(_MSE(), cm)
                impl = "ok " + ",".join(str(len(x)) for x in ex._workbook.sheet.rows)
            except Exception as e:  # noqa
                impl = "err " + classify(e)
            cases.append((f"export.commitrows xlsx {pt_name} {wh} {ncols} {arg}", impl))
            # SQLite
            ex = CommitSqliteExporter.__new__(CommitSqliteExporter)
            ex._sqlite_file_name, ex._connection = "x", _Conn()
            ex._master_schema_entries_created_tables = {"stub": ncols} if second else {}
            try:
                ex.write_commit(_MSE(), cm)
                impl = "ok " + ",".join(str(len(x)) for x in ex._connection.rows)
            except Exception as e:  # noqa
                impl = "err " + classify(e)
            cases.append((f"export.commitrows sqlite {pt_name} {wh} {ncols} {arg}", impl))
            # text
            ex = CommitTextExporter.__new__(CommitTextExporter)
            ex._text_file_name, ex._file_handle = "x", _Collector()
            try:
                ex.write_commit(cm)
                impl = "ok " + ",".join("L" for x in ex._file_handle.rows[1:])
            except Exception as e:  # noqa
                impl = "err " + classify(e)
            cases.append((f"export.commitrows text {pt_name} {wh} {ncols} {arg}", impl))
    ctx.differential(cases, "commit")


# ------------------------------------------------------------------------------ (3) real databases
def connect(path, enc_name, wal=False):
    cfg = {"page_size": 4096, "encoding": enc_name, "auto_vacuum": 0, "journal_mode": "WAL" if wal else "DELETE"}
    con = F.connect(path, cfg)
    if wal:
        con.execute("PRAGMA wal_autocheckpoint=0")
    return con


def insert_value(con, table, rowid, v, col="v", ncols=None):
    if isinstance(v, RawText):
        con.execute(f"INSERT INTO {table} (rowid, {col}) VALUES (?, CAST(? AS TEXT))", (rowid, v.b))
    else:
        con.execute(f"INSERT INTO {table} (rowid, {col}) VALUES (?, ?)", (rowid, v))


def recipe(enc_name, v):
    return [f"PRAGMA encoding='{enc_name}'", "CREATE TABLE t (v)", f"INSERT INTO t (rowid, v) VALUES (1, {sql_literal(v)})"]


def single_value_db(path, enc_name, v):
    for s in ("", "-wal", "-shm", "-journal"):
        if os.path.exists(path + s):
            os.unlink(path + s)
    con = connect(path, enc_name)
    con.execute("CREATE TABLE t (v)")
    insert_value(con, "t", 1, v)
    con.close()


class Export:
    """the four real exporters run over the commits of the base version's tables and indexes"""

    def __init__(self, db_path, wal_path, outdir, carve=()):
        self.db_path, self.wal_path, self.outdir = db_path, wal_path, outdir
        self.error = None
        self.entries = []          # (mse, commits)
        self.fmt_error = {}        # fmt -> (exception class, entry name)
        self.db = Database(db_path)
        self.wal = WriteAheadLog(wal_path) if wal_path else None
        self.vh = VersionHistory(self.db, self.wal)
        for mse in self.vh.versions[BASE_VERSION_NUMBER].master_schema.master_schema_entries:
            if mse.row_type not in (MASTER_SCHEMA_ROW_TYPE.TABLE, MASTER_SCHEMA_ROW_TYPE.INDEX):
                continue
            sig = None
            if mse.name in carve:
                try:
                    sig = Signature(self.vh, mse)
                except Exception:  # noqa
                    sig = None
            commits = list(VersionHistoryParser(self.vh, mse, None, None, sig, False) if sig else VersionHistoryParser(self.vh, mse))
            self.entries.append((mse, commits))

    def run(self, fmt):
        """returns None or the exception; files are left in outdir"""
        d = self.outdir
        try:
            if fmt == "csv":
                ex = CommitCsvExporter(d, "out")
                self.csv_exporter = ex
                for mse, commits in self.entries:
                    for c in commits:
                        ex.write_commit(mse, c)
            elif fmt == "xlsx":
                with CommitXlsxExporter(d, "out.xlsx") as ex:
                    for mse, commits in self.entries:
                        for c in commits:
                            ex.write_commit(mse, c)
            elif fmt == "sqlite":
                with CommitSqliteExporter(d, "out.db3") as ex:
                    for mse, commits in self.entries:
                        for c in commits:
                            ex.write_commit(mse, c)
            else:
                with CommitTextExporter(d, "out.txt") as ex:
                    for mse, commits in self.entries:
                        if commits:
                            ex.write_header(mse, commits[0].page_type)
                        for c in commits:
                            ex.write_commit(c)
        except Exception as e:  # noqa
            return e
        return None

    def close(self):
        for h in (self.db, self.wal):
            try:
                if h is not None:
                    h.file_handle.file_handle.close()
            except Exception:  # noqa
                pass


def expected_records(commits):
    """(op, cell) in the order the exporters are specified to visit them, per commit"""
    out = []
    for c in commits:
        if not c.updated:
            continue
        table = c.page_type != PAGE_TYPE.B_TREE_INDEX_LEAF
        groups = []
        for op, cells in (("Added", c.added_cells), ("Updated", c.updated_cells), ("Deleted", c.deleted_cells), ("Carved", c.carved_cells)):
            cl = list(cells.values())
            groups.append((op, cl))
        # order: the model's commitCells (tied here), not a re-implementation
        ids = []
        for op, cl in groups:
            ids.append(",".join(obj(x.row_id) if table else "N" for x in cl) or "-")
        line = f"export.order {'table' if table else 'index'} {ids[0]} {ids[1]} {ids[2]} {ids[3]}"
        out.append((c, groups, line))
    return out


def order_records(ctx, commits):
    exp = expected_records(commits)
    answers = driver.ask([e[2] for e in exp]) if exp else []
    recs = []
    for (c, groups, line), ans in zip(exp, answers):
        ctx.evals += 1
        if not ans.startswith("ok"):
            ctx.branch("order:" + ans)
            # row ids outside the modelled fragment: fall back to the dictionary order and say so
            for op, cl in groups:
                recs += [(c, op, x) for x in cl]
            continue
        g = {op[0]: cl for op, cl in groups}
        full = {"A": "Added", "U": "Updated", "D": "Deleted", "C": "Carved"}
        for tok in [t for t in ans[3:].split(",") if t]:
            recs.append((c, full[tok[0]], g[tok[0]][int(tok[1:])]))
    return recs


def model_rows(ctx, fmt, recs, ncols_of):
    lines = []
    for c, op, cell in recs:
        lines.append(row_op(fmt, c.database_text_encoding, PT.get(c.page_type, "other"), ncols_of(c), c.file_type, op, cell))
    ans = driver.ask(lines) if lines else []
    ctx.evals += len(lines)
    return ans


# ---- readers
def read_csv(path):
    with open(path, newline="", encoding="utf-8") as fh:
        return [row for row in csv.reader(fh)]


TEXT_REC = re.compile(r"File Type: (\S+) Version Number: (-?\d+) Page Version Number: (-?\d+) Source: (.*?) Page Number: (-?\d+) "
                      r"Location: (.*?) Operation: (\w+) File Offset: (-?\d+) (?:#(\S+): )?\((.*)\)\.\n\Z", re.S)


def read_text(path):
    """records of the text export: chunks starting at a line that begins with 'File Type: ' and ending before the
    next line that begins with 'File Type: ', 'Commit: ' or the blank line + 'Master schema entry: '.
    Returns the text and {start offset: (chunk, match or None)}"""
    data = open(path, "rb").read().decode("utf-8")
    starts = [m.start() for m in re.finditer(r"^(?:File Type: |Commit: |\nMaster schema entry: )", data, re.M)]
    starts.append(len(data))
    recs = {}
    for a, b in zip(starts, starts[1:]):
        chunk = data[a:b]
        if not chunk.startswith("File Type: "):
            continue
        recs[a] = (chunk, TEXT_REC.match(chunk))
    return data, recs


# ---- property readers: does the written thing read back as the reported value?
def decode_reported(enc, b):
    return bytes(b).decode(enc, "replace")


def csv_reads_back(enc, st, v, field):
    """(ok, expected field) under the class-indexed reading rule of a CSV cell"""
    if v is None:
        return field == "", ""
    if isinstance(v, int):
        return field == str(v), str(v)
    if isinstance(v, float):
        return field == repr(v), repr(v)
    if text_aff(st):
        t = decode_reported(enc, v)
        return field == t or (t.startswith("=") and field == " " + t), t
    try:
        ok = field[:2] in ("b'", 'b"') and ast.literal_eval(field) == bytes(v)
    except Exception:  # noqa
        ok = False
    return ok, repr(bytes(v))


def xlsx_reads_back(enc, st, v, cellv):
    if v is None:
        return cellv is None, None
    if isinstance(v, int):
        return isinstance(cellv, (int, float)) and not isinstance(cellv, bool) and cellv == v and int(cellv) == v, v
    if isinstance(v, float):
        return isinstance(cellv, (int, float)) and cellv == v, v
    if text_aff(st):
        t = decode_reported(enc, v)
        return cellv == t or (t.startswith("=") and cellv == " " + t), t
    try:
        ok = isinstance(cellv, str) and cellv[:2] in ("b'", 'b"') and ast.literal_eval(cellv) == bytes(v)
    except Exception:  # noqa
        ok = False
    return ok, repr(bytes(v))


def sqlite_reads_back(enc, st, v, stored, pyv):
    """stored = canonical (typeof:hex); text must be text whose characters are the decoded value"""
    if v is None:
        return stored == "null", "null"
    if isinstance(v, int):
        return stored == "int:%d" % v, "int:%d" % v
    if isinstance(v, float):
        return stored == "real:%d" % fbits(v), "real:%d" % fbits(v)
    if text_aff(st):
        t = decode_reported(enc, v)
        return stored.startswith("text:") and pyv == t, "text:" + hx(t.encode("utf-8"))
    return stored == "blob:" + hx(bytes(v)), "blob:" + hx(bytes(v))


def text_reads_back(enc, st, v, piece):
    if v is None:
        return piece == "NULL", "NULL"
    if isinstance(v, int):
        return piece == str(v), str(v)
    if isinstance(v, float):
        return piece == repr(v), repr(v)
    if text_aff(st):
        t = decode_reported(enc, v)
        return piece == t, t
    return piece == repr(bytes(v)), repr(bytes(v))


# The character class of known finding C11-D, pinned at the time the finding was listed (NOT read from the
# repository: a change of the class in constants.py must not be absorbed by the finding)
PINNED_SCRUB_RANGES = [(0x00, 0x08), (0x0B, 0x0C), (0x0E, 0x1F), (0x7F, 0x84), (0x86, 0x9F), (0xD800, 0xDFFF),
                       (0xFDD0, 0xFDDF), (0xFFFE, 0xFFFF)] + [(0x10000 * k + 0xFFFE, 0x10000 * k + 0xFFFF) for k in range(1, 17)]
PINNED_SCRUB = re.compile("[%s]" % "".join(f"{chr(a)}-{chr(b)}" for a, b in PINNED_SCRUB_RANGES))


def is_scrub_of(written, expected):
    pat = PINNED_SCRUB
    cands = [expected] + ([" " + expected] if expected.startswith("=") else [])
    return any(written == pat.sub(" ", e) and written != e for e in cands)


class FileCheck:
    """one exported database: run the exporters, read back, compare with the model and with the property"""

    def __init__(self, ctx, sc, db_path, wal_path, case, carve=(), fmts=("csv", "xlsx", "sqlite", "text")):
        self.ctx, self.sc, self.case, self.fmts = ctx, sc, dict(case), fmts
        self.outdir = sc.path("out")
        shutil.rmtree(self.outdir, ignore_errors=True)
        os.makedirs(self.outdir)
        self.ex = Export(db_path, wal_path, self.outdir, carve)
        self.written = {}        # (fmt, enc, val) -> set of written canonical forms (for the distinctness check)

    def fail(self, kind, what, fmt, **kw):
        case = dict(self.case, fmt=fmt, **kw)
        self.ctx.oracle_fail(kind, what, case, kw.get("written"), kw.get("expected"))

    def value_cols(self, cell):
        return [(rc.serial_type, rc.value) for rc in cell.payload.record_columns]

    def note_written(self, fmt, enc, st, v, canon):
        self.written.setdefault((fmt, enc, val_of(st, v)), set()).add(canon)
        self.ctx.nontrivial.add(core_h((fmt, enc, val_of(st, v))))

    def run(self):
        ctx = self.ctx
        for fmt in self.fmts:
            exc = self.ex.run(fmt)
            ctx.branch(f"export:{fmt}:{'ok' if exc is None else classify(exc)}")
            if exc is not None:
                vals = sorted({val_of(st, v) for mse, commits in self.ex.entries for c in commits
                               for cells in (c.added_cells, c.updated_cells, c.deleted_cells, c.carved_cells)
                               for cell in cells.values() for st, v in self.value_cols(cell)})
                self.fail("never-fails", f"the {fmt} export raised {type(exc).__name__} on a readable database", fmt,
                          exc=classify(exc), message=str(exc)[:200], values=vals[:40], has_empty_text="text:-" in vals, written=None, expected="export completes")
                # the model must agree that this export fails
                self.model_agrees_failure(fmt, exc)
                continue
            getattr(self, "check_" + fmt)()
        self.ex.close()

    def all_records(self):
        if getattr(self, "_records", None) is not None:
            return self._records
        out = []
        for mse, commits in self.ex.entries:
            out.append((mse, commits, order_records(self.ctx, commits)))
        self._records = out
        return out

    def model_agrees_failure(self, fmt, exc):
        ctx = self.ctx
        errs = []
        for mse, commits, recs in self.all_records():
            ncols = self.sqlite_ncols(mse, commits)
            for a in model_rows(ctx, fmt, recs, lambda c: ncols):
                if a.startswith("err"):
                    errs.append(a)
            if errs:
                break
        want = "err " + classify(exc)
        if not errs or errs[0] != want:
            ctx.disagreements.append({"label": f"file:{fmt}", "op": str(self.case)[:300], "impl": want,
                                      "model": errs[0] if errs else "no row fails in the model"})

    def sqlite_ncols(self, mse, commits):
        for c in commits:
            if c.updated:
                if c.page_type == PAGE_TYPE.B_TREE_INDEX_LEAF:
                    cells = list(c.added_cells.values()) + list(c.updated_cells.values()) + list(c.deleted_cells.values()) + list(c.carved_cells.values())
                    return 8 + len(cells[0].payload.record_columns)
                return 9 + len(mse.column_definitions)
        return 0

    # ---- CSV
    def check_csv(self):
        ctx = self.ctx
        names = self.ex.csv_exporter.csv_file_names
        if len(set(names.values())) != len(names):
            self.fail("record-structure", "two entries share one CSV file", "csv", entry="*",
                      written=sorted(os.path.basename(v) for v in names.values()), expected="one file per entry")
        for mse, commits, recs in self.all_records():
            if not recs and mse.name not in names:
                continue
            rows = [r for r in read_csv(names[mse.name])] if mse.name in names else []
            table = bool(commits) and commits[0].page_type != PAGE_TYPE.B_TREE_INDEX_LEAF
            hdr = rows[0] if rows else []
            want_hdr = ["File Source", "Version", "Page Version", "Cell Source", "Page Number", "Location", "Operation", "File Offset"]
            if table:
                want_hdr = want_hdr + ["Row ID"] + [cd.column_name for cd in mse.column_definitions]
            if hdr != want_hdr:
                self.fail("record-structure", "CSV header row is not the documented one", "csv", entry=mse.name, written=hdr, expected=want_hdr)
            data = [r for r in rows[1:] if r]
            self.compare_rows("csv", mse, recs, data, lambda c: 0, cached_roundtrip("csv", csv_roundtrip), csv_reads_back)

    # ---- XLSX
    def check_xlsx(self):
        wb = openpyxl.load_workbook(os.path.join(self.outdir, "out.xlsx"))
        titles = expected_sheet_titles([mse.name for mse, commits, _ in self.all_records() if any(c.updated for c in commits)])
        for mse, commits, recs in self.all_records():
            if not any(c.updated for c in commits):
                continue
            title = titles.get(mse.name)
            if title not in wb.sheetnames:
                self.fail("record-structure", "an entry has no XLSX sheet of its own", "xlsx", entry=mse.name,
                          written=sorted(wb.sheetnames), expected=title)
                continue
            ws = wb[title]
            rows = [list(r) for r in ws.iter_rows(values_only=True)]
            data = [r for r in rows[1:] if any(x is not None for x in r)]   # index sheets get an empty row per later commit
            rt = cached_roundtrip("xlsx", lambda objs: xlsx_roundtrip(objs, self.sc.path("rt.xlsx")))
            self.compare_rows("xlsx", mse, recs, data, lambda c: 0, rt, xlsx_reads_back, pad=True)
        wb.close()

    # ---- SQLite
    def check_sqlite(self):
        con = sqlite3.connect(os.path.join(self.outdir, "out.db3"))
        con.text_factory = lambda b: b.decode("utf-8", "surrogateescape")
        for mse, commits, recs in self.all_records():
            if not any(c.updated for c in commits):
                continue
            iso = bool(getattr(mse, "internal_schema_object", False))
            tname = ("iso_" if iso else "") + mse.name
            cols = [r[1] for r in con.execute(f'PRAGMA table_info("{tname}")')]
            sel = ", ".join(f'typeof("{c}"), hex("{c}"), "{c}"' for c in cols)
            data = []
            for row in con.execute(f'SELECT {sel} FROM "{tname}" ORDER BY rowid'):
                data.append([(stored_canon(row[3 * i], row[3 * i + 1], row[3 * i + 2]), row[3 * i + 2]) for i in range(len(cols))])
            ncols = self.sqlite_ncols(mse, commits)
            first = next(c for c in commits if c.updated)
            nidx = ncols - 8 if first.page_type == PAGE_TYPE.B_TREE_INDEX_LEAF else 0
            names = ",".join(cphex(cd.column_name) for cd in getattr(mse, "column_definitions", [])) or "none"
            self.ctx.differential([(f"export.headers sqlite {PT.get(first.page_type, 'other')} {nidx} {names}", "ok " + ",".join(cphex(x) for x in cols)),
                              (f"export.tablename {int(iso)} {cphex(mse.name)}", "ok " + cphex(tname))], "file:sqlite-schema")
            if len(cols) != ncols:
                self.fail("record-structure", "SQLite export table has an unexpected number of columns", "sqlite", entry=mse.name,
                          written=len(cols), expected=ncols)
            rt = cached_roundtrip("sqlite", lambda objs: [(s, None) for s in sqlite_roundtrip(objs)])
            self.compare_rows("sqlite", mse, recs, data, lambda c: ncols, rt,
                              lambda enc, st, v, w: sqlite_reads_back(enc, st, v, w[0], w[1]), sqlite=True)
        con.close()

    def compare_rows(self, fmt, mse, recs, data, ncols_of, roundtrip, reads_back, pad=False, sqlite=False):
        """recs: expected (commit, op, cell); data: rows read back from the file"""
        ctx = self.ctx
        if len(data) != len(recs):
            self.fail("record-structure", f"{fmt}: number of records differs from the number of reported cells", fmt,
                      entry=mse.name, written=len(data), expected=len(recs))
            return
        answers = model_rows(ctx, fmt, recs, ncols_of)
        # push every distinct model object through the real writer library once
        need = {}
        for a in answers:
            if a.startswith("ok "):
                for t in a[3:].split(" "):
                    need.setdefault(t, None)
        toks = list(need)
        for t, w in zip(toks, roundtrip([self.bindable(unobj(t)) for t in toks]) if toks else []):
            need[t] = w
        for (c, op, cell), row, ans in zip(recs, data, answers):
            enc = c.database_text_encoding
            table = c.page_type == PAGE_TYPE.B_TREE_TABLE_LEAF
            meta = [c.file_type, cell.version_number, cell.page_version_number, cell.source, cell.page_number, cell.location, op, cell.file_offset]
            if table:
                meta.append(cell.row_id)
            cols = self.value_cols(cell)
            ctx.evals += 1
            ctx.branch(f"record:{fmt}:{op}:{'table' if table else 'index'}")
            if sqlite and len(meta) + len(cols) < ncols_of(c):
                ctx.branch("record:sqlite:padded-short-row")
            got = list(row)
            if not ans.startswith("ok "):
                ctx.disagreements.append({"label": f"file:{fmt}", "op": row_op(fmt, enc, PT.get(c.page_type, "other"), ncols_of(c), c.file_type, op, cell)[:600],
                                          "impl": "row written", "model": ans})
                want = got          # (a) already failed; (b) below does not depend on the model
            else:
                want = [need[t] for t in ans[3:].split(" ")]
            if pad:
                n = max(len(want), len(got))
                want = want + [None] * (n - len(want))
                got = got + [None] * (n - len(got))
            # (a) correspondence: the file holds the model's row pushed through the real writer
            if (got if not sqlite else [g[0] for g in got]) != (want if not sqlite else [w[0] for w in want]):
                ctx.disagreements.append({"label": f"file:{fmt}", "op": row_op(fmt, enc, PT.get(c.page_type, "other"), ncols_of(c), c.file_type, op, cell)[:600],
                                          "impl": repr(got)[:600], "model": repr(want)[:600]})
            # (b) the property: metadata columns, then every value
            wmeta = roundtrip(meta)
            if (got[:len(meta)] if not sqlite else [g[0] for g in got[:len(meta)]]) != (wmeta if not sqlite else [w[0] for w in wmeta]):
                self.fail("record-structure", f"{fmt}: operation/version/page/offset/rowid columns differ from the reported cell", fmt,
                          entry=mse.name, written=repr(got[:len(meta)])[:300], expected=repr(meta)[:300])
            vals = got[len(meta):]
            for i, (st, v) in enumerate(cols):
                w = vals[i] if i < len(vals) else None
                ok, exp = reads_back(enc, st, v, w)
                canon = w[0] if sqlite else repr(w)
                self.note_written(fmt, enc, st, v, canon)
                if not ok:
                    self.value_failure(fmt, enc, st, v, w[0] if sqlite else w, exp, mse.name)
            if sqlite:
                for extra in vals[len(cols):]:
                    if extra[0] != "null":
                        self.fail("record-structure", "sqlite: a padding column is not NULL", fmt, entry=mse.name, written=extra[0], expected="null")

    @staticmethod
    def bindable(o):
        return o

    def value_failure(self, fmt, enc, st, v, written, expected, entry):
        val = val_of(st, v)
        if fmt in ("csv", "xlsx") and isinstance(written, str) and isinstance(expected, str) and is_scrub_of(written, expected):
            reason = "xml-scrub"
        elif fmt == "sqlite" and val.startswith("text:") and written == "blob:" + val[5:]:
            reason = "text-as-blob"
        elif fmt == "xlsx" and isinstance(v, (int, float)) and (written is None or isinstance(written, (int, float))):
            reason = "number-carrier"
        elif fmt == "xlsx" and isinstance(written, str) and isinstance(expected, str) and len(expected) > 32767 \
                and len(written) == 32767 and any(written == SC.ILLEGAL_XML_CHARACTER_PATTERN.sub(" ", e)[:32767]
                                                  for e in (expected, " " + expected)):
            reason = "cell-length"
        elif fmt == "xlsx" and isinstance(written, str) and isinstance(expected, str) and "\r" in expected \
                and written.replace(" ", "") == SC.ILLEGAL_XML_CHARACTER_PATTERN.sub(" ", expected if not expected.startswith("=") else " " + expected).replace("\r\n", "\n").replace("\r", "\n").replace(" ", ""):
            reason = "carriage-return"
        else:
            reason = "other"
        self.fail("value-altered", f"{fmt}: a value does not read back as reported ({reason})", fmt, enc=enc, value=val,
                  reason=reason, entry=entry, written=written if not isinstance(written, str) else written[:200],
                  expected=expected if not isinstance(expected, str) else expected[:200])

    # ---- text
    def check_text(self):
        ctx = self.ctx
        data, parsed = read_text(os.path.join(self.outdir, "out.txt"))
        pos = 0
        total = 0
        ambiguous = False
        for mse, commits, recs in self.all_records():
            answers = model_rows(ctx, "text", recs, lambda c: 0)
            for (c, op, cell), ans in zip(recs, answers):
                total += 1
                enc = c.database_text_encoding
                ctx.evals += 1
                if not ans.startswith("ok S"):
                    ctx.disagreements.append({"label": "file:text", "op": str((mse.name, op)), "impl": "line written", "model": ans})
                    continue
                line = uncp(ans[4:])
                at = data.find(line, pos)
                # (a) correspondence: the model's line is in the file, in order
                if at < 0:
                    ctx.disagreements.append({"label": "file:text", "op": str((mse.name, op)), "impl": data[pos:pos + 300], "model": line[:300]})
                    continue
                pos = at + len(line)
                # (b) the property through the parser
                cols = self.value_cols(cell)
                chunk, m = parsed.get(at, (None, None))
                table = c.page_type == PAGE_TYPE.B_TREE_TABLE_LEAF
                okstruct = m is not None and chunk == line
                if okstruct:
                    meta = (str(c.file_type), str(cell.version_number), str(cell.page_version_number), str(cell.source), str(cell.page_number),
                            str(cell.location), op, str(cell.file_offset))
                    if m.groups()[:8] != meta or (table and m.group(9) != str(cell.row_id)):
                        okstruct = False
                pieces = None
                if okstruct:
                    body = m.group(10)
                    pieces = body.split(", ") if (body != "" or len(cols) == 1) else []
                if not okstruct or len(pieces) != len(cols):
                    ambiguous = True
                    vals = [val_of(st, v) for st, v in cols]
                    self.fail("text-ambiguous", "text: a record cannot be split back into the reported values (values are joined unquoted)",
                              "text", enc=enc, values=vals, value=vals[0] if len(vals) == 1 else None, entry=mse.name,
                              written=line[:300], expected=f"{len(cols)} values")
                    for st, v in cols:
                        self.note_written("text", enc, st, v, "?unparsable")
                    continue
                for (st, v), piece in zip(cols, pieces):
                    ok, exp = text_reads_back(enc, st, v, piece)
                    self.note_written("text", enc, st, v, piece)
                    if not ok:
                        reason = "falsy-null" if piece == "NULL" and v is not None else "other"
                        self.fail("value-altered", f"text: a value does not read back as reported ({reason})", "text", enc=enc,
                                  value=val_of(st, v), reason=reason, entry=mse.name, written=piece[:200], expected=exp[:200])
        if len(parsed) != total and not ambiguous:
            self.fail("record-structure", "text: number of records differs from the number of reported cells", "text",
                      written=len(parsed), expected=total)

    def distinct(self, fmt, enc, values):
        """the five empty/zero values must be pairwise distinguishable in what was written"""
        seen = {}
        for v in values:
            w = self.written.get((fmt, enc, v))
            if not w:
                continue
            for x in w:
                if x.startswith("?"):
                    continue
                if x in seen and seen[x] != v:
                    self.fail("indistinct", f"{fmt}: two different values are written identically", fmt, enc=enc,
                              pair=sorted([seen[x], v]), written=x, expected="distinct")
                seen.setdefault(x, v)


def core_h(x):
    from ..core import h
    return h(x)


def check_single(ctx, sc, enc_name, v, fmts=("csv", "xlsx", "sqlite", "text"), tag="grid"):
    path = sc.path("single.db")
    try:
        single_value_db(path, enc_name, v)
    except (sqlite3.Error, ValueError, OverflowError) as e:
        ctx.notes.append(f"value not storable, skipped: {v!r}: {e}")
        return None
    case = {"tag": tag, "encoding": enc_name, "value_sql": sql_literal(v), "value_py": repr(v), "db": recipe(enc_name, v)}
    fc = FileCheck(ctx, sc, path, None, case, fmts=fmts)
    fc.run()
    return fc


def five_db(ctx, sc, enc_name):
    """the five empty/zero values in one table (exports that survive them must keep them distinct)"""
    enc = ENCS[enc_name]
    five = ["null", "int:0", "real:0", "text:-", "blob:-"]
    merged = {}
    for v in FIVE:
        fc = check_single(ctx, sc, enc_name, v, tag="five")
        if fc:
            merged.update(fc.written)
    # one FileCheck instance only to reuse .distinct/.fail with a proper case
    holder = FileCheck.__new__(FileCheck)
    holder.ctx, holder.case, holder.written = ctx, {"tag": "five", "encoding": enc_name,
                                                     "db": [f"PRAGMA encoding='{enc_name}'", "CREATE TABLE t (v)",
                                                            "INSERT INTO t VALUES (NULL), (0), (0.0), (''), (x'')"]}, merged
    for fmt in ("csv", "xlsx", "sqlite", "text"):
        holder.distinct(fmt, enc, five)


def table_db(ctx, sc, enc_name, i, with_wal, unsafe):
    """multi-column table + index + WITHOUT ROWID + short rows + (optionally) a WAL with updates, deletes and carving"""
    r = ctx.rng
    path = sc.path(f"tab{i}.db")
    for s in ("", "-wal", "-shm", "-journal"):
        if os.path.exists(path + s):
            os.unlink(path + s)
    con = connect(path, enc_name, wal=with_wal)
    keeper = None
    if with_wal:
        keeper = sqlite3.connect(path, isolation_level=None)
        keeper.execute("PRAGMA wal_autocheckpoint=0")
    pool = [v for v in grid(enc_name) if not isinstance(v, RawText)]
    if not unsafe:
        # values that make an exporter fail or a text record unparsable are kept out of the row-assembly databases
        pool = [v for v in pool if v != "" and not (isinstance(v, str) and (", " in v or ")" in v or "\n" in v or "\r" in v or "File Type" in v))]
    con.execute("CREATE TABLE t (a INTEGER, b TEXT, c)")
    con.execute("CREATE INDEX i ON t (b, a)")
    con.execute("CREATE TABLE w (k TEXT, n INTEGER, v, PRIMARY KEY (k, n)) WITHOUT ROWID")
    con.execute("CREATE TABLE s (x)")
    con.execute("BEGIN")
    for k in range(12):
        con.execute("INSERT INTO t VALUES (?, ?, ?)", (k, "row%d" % k, r.choice(pool)))
        con.execute("INSERT INTO w VALUES (?, ?, ?)", ("k%d" % k, k, r.choice([1, 2.5, b"\x01", "w"])))
        con.execute("INSERT INTO s VALUES (?)", (r.choice(pool),))
    con.execute("COMMIT")
    con.execute("ALTER TABLE s ADD COLUMN y")            # rows above stay one column short
    con.execute("INSERT INTO s VALUES (?, ?)", ("long", r.choice(pool)))
    if with_wal:
        con.execute("PRAGMA wal_checkpoint(TRUNCATE)")
        con.execute("BEGIN")
        for k in (2, 3, 4):
            con.execute("DELETE FROM t WHERE a=?", (k,))
        con.execute("COMMIT")
        con.execute("BEGIN")
        con.execute("UPDATE t SET c=? WHERE a=5", (r.choice(pool),))
        con.execute("UPDATE t SET b='changed' WHERE a=6")
        con.execute("INSERT INTO t VALUES (100, 'new', ?)", (r.choice(pool),))
        con.execute("INSERT INTO s VALUES (?, ?)", (r.choice(pool), r.choice(pool)))
        con.execute("COMMIT")
        h_db, h_wal = sc.path(f"tab{i}.h.db"), sc.path(f"tab{i}.h.db-wal")
        shutil.copyfile(path, h_db)
        shutil.copyfile(path + "-wal", h_wal)
        con.close()
        keeper.close()
        return h_db, h_wal
    con.close()
    return path, None


def keep_unlisted(ctx, n0, *paths):
    """keep the input files only for failures that no known-finding matcher explains"""
    new = ctx.oracle_failures[n0:]
    if any(not any(m(f) for m in MATCHERS.values()) for f in new):
        C.keep_failing_files(ctx, n0, *paths)


def files(ctx, sc):
    # every grid value alone, in every encoding, through the four exporters
    n = 0
    for enc_name in ENCS:
        vals = grid(enc_name)
        if not ctx.thorough():
            # quick: the full grid in UTF-8, the encoding-sensitive part (text) plus the five in the UTF-16 encodings
            if enc_name != "UTF-8":
                vals = [v for v in vals if isinstance(v, (str, RawText)) or v in (None, 0)] + [0.0, b""]
        for v in vals:
            check_single(ctx, sc, enc_name, v)
            n += 1
        five_db(ctx, sc, enc_name)
    ctx.extra["single_value_databases"] = n
    # row assembly: tables, indexes, short rows, WAL commits, carved cells
    k = 0
    combos = [(e, w, u) for _rep in range(6 if ctx.thorough() else 1) for e in ENCS for w in (False, True) for u in (False, True)
              if not u or ctx.thorough() or e == "UTF-8"]
    for enc_name, with_wal, unsafe in combos:
        db, wal = table_db(ctx, sc, enc_name, k, with_wal, unsafe)
        case = {"tag": "table", "encoding": enc_name, "wal": with_wal, "unsafe_values": unsafe, "seed": ctx.seed}
        n0 = len(ctx.oracle_failures)
        fc = FileCheck(ctx, sc, db, wal, case, carve=("t",) if with_wal else ())
        fc.run()
        keep_unlisted(ctx, n0, db, wal)
        ctx.branch(f"tabledb:{enc_name}:{'wal' if with_wal else 'db'}:{'all' if unsafe else 'safe'}")
        k += 1
    # table, index and column names that need quoting / sanitising in the SQLite export, the CSV file name, the sheet title
    for enc_name in (ENCS if ctx.thorough() else ["UTF-8"]):
        path = sc.path("names.db")
        for sfx in ("", "-wal", "-shm", "-journal"):
            if os.path.exists(path + sfx):
                os.unlink(path + sfx)
        con = connect(path, enc_name)
        con.execute('CREATE TABLE "my tbl" ("a b" INTEGER, "semi;colon" TEXT, "select")')
        con.execute('INSERT INTO "my tbl" VALUES (1, \'x\', 2.5)')
        con.execute('CREATE INDEX "i x" ON "my tbl" ("a b")')
        con.execute('CREATE TABLE "a/b" (v)')
        con.execute('INSERT INTO "a/b" VALUES (\'slash\')')
        con.execute('CREATE TABLE "what?[1]" ("é")')
        con.execute('INSERT INTO "what?[1]" VALUES (x\'00\')')
        # names that the sheet-title / file-name substitutions make equal
        for nm, val in (("a_b", 11), ("a b", 12)):
            con.execute(f'CREATE TABLE "{nm}" (v)')
            con.execute(f'INSERT INTO "{nm}" VALUES ({val})')
        # names longer than a sheet title may be (31), sharing their first 30 and 31 characters
        for sfx, val in (("_one", 1), ("_two", 2), ("x", 3)):
            con.execute(f'CREATE TABLE {"L" * 31}{sfx} (v)')
            con.execute(f'INSERT INTO {"L" * 31}{sfx} VALUES ({val})')
        con.close()
        n0 = len(ctx.oracle_failures)
        try:
            fc = FileCheck(ctx, sc, path, None, {"tag": "names", "encoding": enc_name})
        except Exception as e:  # noqa  (parsing quoted identifiers in the schema SQL is C07's business)
            ctx.branch("namesdb-unreadable:" + classify(e))
            continue
        fc.run()
        keep_unlisted(ctx, n0, path)
        ctx.branch("namesdb")
    # random histories of the shared generator (its text pool contains '' and '=SUM(A1)')
    for j in range(90 if ctx.thorough() else 3):
        cfg = F.random_cfg(ctx.rng, page_sizes=[1024, 4096], small=True)
        try:
            h = H.make_history(sc.path(f"hist{j}"), cfg, ctx.rng, kind=["plain", "ddl", "plain"][j % 3], n_commits=3)
        except sqlite3.Error as e:
            ctx.notes.append(f"history generator error: {e}")
            continue
        case = {"tag": "history", "cfg": cfg, "events": h.events, "seed": ctx.seed}
        n0 = len(ctx.oracle_failures)
        try:
            fc = FileCheck(ctx, sc, h.db, h.wal, case)
        except Exception as e:  # noqa  (reading the history is C02/C03's business)
            ctx.branch("history-unreadable:" + classify(e))
            continue
        fc.run()
        keep_unlisted(ctx, n0, h.db, h.wal)
        ctx.branch("history")


def run(ctx):
    sc = C.Scratch()
    ctx._c11_scratch = sc
    try:
        prim_decode(ctx)
        prim_repr(ctx)
        prim_scrub(ctx)
        iface(ctx)
        stub_rows(ctx)
        stub_headers(ctx)
        stub_names(ctx, sc)
        stub_commits(ctx, sc)
        files(ctx, sc)
        ctx.extra["exhaustive_parts"] = getattr(ctx, "exhaustive_parts", [])
    finally:
        sc.close()


def search(ctx, broken):
    ctx.tier = "thorough" if ctx.tier == "search" else ctx.tier
    run(ctx)


def _value_from_case(case):
    v = case.get("value_py")
    if v is None:
        return None
    return eval(v, {"RawText": RawText, "inf": float("inf")})  # noqa: corpus files are ours


def replay(ctx, data):
    case = (data.get("failure") or {}).get("case", {})
    sc = C.Scratch()
    try:
        if case.get("tag") == "five":
            five_db(ctx, sc, case.get("encoding", "UTF-8"))
        elif "value_py" in case:
            check_single(ctx, sc, case.get("encoding", "UTF-8"), _value_from_case(case), tag="corpus")
        else:
            files_ = C.replay_files(data)
            if files_:
                fc = FileCheck(ctx, sc, files_[0], files_[1] if len(files_) > 1 else None, {"tag": "replay"})
                fc.run()
    finally:
        sc.close()


# ------------------------------------------------------------------------------ known findings


def _case(f):
    return f.get("case") or {}


def m_xml_scrub(f):
    c = _case(f)
    return f["kind"] == "value-altered" and c.get("fmt") in ("csv", "xlsx") and c.get("reason") == "xml-scrub"


def m_sheet_null_empty_text(f):
    c = _case(f)
    if f["kind"] == "indistinct":
        return c.get("fmt") in ("csv", "xlsx") and sorted(c.get("pair", [])) == ["null", "text:-"]
    # openpyxl reads the empty inline string back as an empty cell
    return f["kind"] == "value-altered" and c.get("fmt") == "xlsx" and c.get("value") == "text:-" and c.get("written") is None


def _text_unsafe(val, enc):
    """the rendering of this value contains the separator or something the record framing is made of"""
    if not val or val[:5] not in ("text:", "blob:"):
        return False
    b = b"" if val[5:] == "-" else bytes.fromhex(val[5:])
    t = b.decode(enc, "replace") if val.startswith("text:") else repr(b)
    return ", " in t or "\nFile Type: " in t or "\nCommit: " in t or "\n\nMaster schema entry: " in t


def m_text_unquoted(f):
    c = _case(f)
    if f["kind"] != "text-ambiguous" or c.get("fmt") != "text":
        return False
    return any(_text_unsafe(v, c.get("enc", "utf-8")) for v in c.get("values", []))


def m_xlsx_carrier(f):
    c = _case(f)
    if c.get("fmt") != "xlsx":
        return False
    if f["kind"] == "indistinct":
        return sorted(c.get("pair", [])) == ["int:0", "real:0"]
    if f["kind"] == "value-altered":
        v = str(c.get("value", ""))
        if c.get("reason") == "number-carrier":
            # openpyxl writes every number as "%.16g": the value survives iff that string denotes it
            if v.startswith("int:"):
                i = int(v[4:])
                s16 = "%.16g" % i
                return not (re.fullmatch(r"-?\d+", s16) and int(s16) == i)
            if v.startswith("real:"):
                x = unbits(int(v[5:]))
                return x != x or abs(x) == float("inf") or float("%.16g" % x) != x
        if c.get("reason") in ("carriage-return", "cell-length"):
            return True
    return False


MATCHERS = {
    "xml_scrub": m_xml_scrub,
    "sheet_null_empty_text": m_sheet_null_empty_text,
    "text_unquoted": m_text_unquoted,
    "xlsx_carrier": m_xlsx_carrier,
}
