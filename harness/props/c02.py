"""C02 — every WAL commit is reconstructed as a faithful snapshot of the database."""
import os
import shutil
import sqlite3

from ..gen import histories as H, sqlite_factory as F, walreader as W
from . import dbcommon as C

ID = "C02"
LEAN_MODULES = ["SqliteDissect.Properties.C02Rows", "SqliteDissect.Properties.C02Content", "SqliteDissect.Properties.C02", "SqliteDissect.Properties.C02b", "SqliteDissect.Properties.C16", "SqliteDissect.Properties.C02Schema"]
RULE = ("WAL histories made by SQLite 3.40.1 (inserts, updates incl. same-size in-place overflow updates, deletes, "
        "DDL, header pragmas, cache-spilling transactions, passive checkpoint, checkpoint + restart leaving stale "
        "frames, auto-vacuum shrink); db + wal copied with the log intact; VersionHistory dumped by implementation "
        "and Lean model (vh.dump); every version's rows compared with the snapshot SQLite gave after that commit, "
        "every page image with the latest-frame-wins rule of an independent WAL reader, the newest version with "
        "what SQLite reads from a scratch copy of the pair. non-trivial = distinct accepted history dump")
ASSUMPTIONS = ["the per-commit claims assume the database file predates the log's frames; the passive-checkpoint histories only check the newest version",
               "WAL checksums are not read by the tool; the independent reader (harness/gen/walreader.py) verifies them"]

KINDS = ["plain", "spill", "overflow_inplace", "schema_overflow", "ddl", "checkpoint_restart", "passive_checkpoint", "grow_shrink",
         "header_pragmas", "rootmove", "fresh_wal", "freelist_drain", "wide_schema", "restart_after_rollback"]


def sqlite_view(db_path, wal_path, tables, sc, tag):
    """what SQLite itself reads from the pair (scratch copy; the evidence copies are not touched)"""
    d = sc.path(f"view-{tag}.db")
    shutil.copyfile(db_path, d)
    if wal_path and os.path.exists(wal_path):
        shutil.copyfile(wal_path, d + "-wal")
    con = sqlite3.connect(d)
    try:
        return H.snapshot(con, tables)
    finally:
        con.close()
        for suf in ("", "-wal", "-shm"):
            if os.path.exists(d + suf):
                os.unlink(d + suf)


def check_version_rows(ctx, version, snap, tables, case):
    n = 0
    for t, info in snap["tables"].items():
        alias = tables.get(t, ([], False))[1]
        n += C.check_table_rows(ctx, version, t, info["cols"], alias, info["rows"], case)
    return n


def check_history(ctx, h, sc, tag):
    case = {"kind": h.kind, "cfg": h.cfg, "events": h.events, "seed": ctx.seed}
    n0 = len(ctx.oracle_failures)
    impl, vh, exc = C.compare_history_dump(ctx, h.db, h.wal, "vh.dump")
    if vh is None:
        if h.wal is None or os.path.getsize(h.wal) == 0:
            ctx.branch("no-wal")
            return
        ctx.oracle_fail("rejected", f"a database/WAL pair written by SQLite is rejected: {impl}", case, impl, "accepted")
        C.keep_failing_files(ctx, n0, h.db, h.wal)
        return
    ctx.branch(f"history:{h.kind}")
    # every section of every version of a pair SQLite wrote must be readable: schema, page census, every table / index /
    # WITHOUT ROWID b-tree (the dump records the first exception of each section as "<section>=err <class>")
    import re as _re
    bad = _re.findall(r"(V\d+\.(?:schema|census|tree\d+))=(err \w+)", impl)
    if bad:
        ctx.oracle_fail("version-unreadable", "a section of a version of a database/WAL pair written by SQLite cannot be read: "
                        + ", ".join(f"{a} {b}" for a, b in bad[:4]), dict(case, sections=[a for a, _ in bad][:8]), bad[0][1], "readable")
        C.keep_failing_files(ctx, n0, h.db, h.wal)
    versions = vh.versions
    passive = h.kind == "passive_checkpoint"
    if len(versions) != len(h.snapshots):
        ctx.oracle_fail("version-count", "number of versions is not 1 + number of committed transactions that wrote frames",
                        case, len(versions), len(h.snapshots))
    else:
        rows = 0
        ks = [len(versions) - 1] if passive else range(len(versions))
        for k in ks:
            rows += check_version_rows(ctx, versions[k], h.snapshots[k], h.tables, dict(case, version=k))
        ctx.extra["rows_compared"] = ctx.extra.get("rows_compared", 0) + rows
    # page images: latest frame at or before the commit, else the database file
    dbb = open(h.db, "rb").read()
    walb = open(h.wal, "rb").read() if h.wal else b""
    info = W.read_wal(walb) if walb else None
    if info and not passive:
        if len(info["commits"]) + 1 != len(versions):
            ctx.oracle_fail("version-count", "versions differ from the commits of the current WAL generation", case,
                            len(versions), len(info["commits"]) + 1)
        else:
            for k in range(len(versions)):
                v = versions[k]
                for p in range(1, int(v.database_size_in_pages) + 1):
                    ctx.mark(("page", tag, k, p), nontrivial=k > 0)
                    try:
                        got = bytes(v.get_page_data(p))
                    except Exception as e:  # noqa
                        got = repr(e)
                    want = W.page_at(dbb, walb, info, k, p)
                    if got != want:
                        ctx.oracle_fail("page-image", "a version serves a page image that is not the latest frame at or before its commit",
                                        dict(case, version=k, page=p), str(got[:16]), str(want[:16]))
                        break
            prev = -1
            for (ci, _sz) in info["commits"]:
                pages = [p for (i, p, _s) in info["frames"] if prev < i <= ci]
                if len(pages) != len(set(pages)):
                    ctx.branch("txn-with-duplicate-page")
                prev = ci
            stale = (len(walb) - 32) // (24 + info["page_size"]) - len(info["frames"])
            if stale:
                ctx.branch("wal-with-stale-frames")
    # newest version = what SQLite reads from the two files
    view = sqlite_view(h.db, h.wal, h.tables, sc, tag)
    check_version_rows(ctx, versions[max(versions)], view, h.tables, dict(case, version="newest-vs-sqlite"))
    C.keep_failing_files(ctx, n0, h.db, h.wal)


def run(ctx, n_quick=28, n_thorough=400):
    sc = C.Scratch()
    try:
        r = ctx.rng
        n = C.n_databases(ctx, n_quick, n_thorough)
        for i in range(n):
            cfg = F.random_cfg(r, page_sizes=[512, 1024, 4096] if i % 5 else [8192, 65536, 2048], small=True)
            cfg["auto_vacuum"] = [0, 1, 2][i % 3]
            kind = KINDS[i % len(KINDS)]
            if kind in ("wide_schema", "schema_overflow"):
                cfg["page_size"] = 512      # schema b-tree with an interior root and several leaves
            if kind == "fresh_wal":
                cfg["encoding"] = ["UTF-16be", "UTF-16le", "UTF-8"][(i // len(KINDS)) % 3]
            try:
                h = H.make_history(sc.path(f"h{i}"), cfg, r, kind=kind)
            except sqlite3.Error as e:
                ctx.notes.append(f"history generator error: {e}")
                continue
            check_history(ctx, h, sc, i)
            for f in (h.db, h.wal):
                if f and os.path.exists(f):
                    os.unlink(f)
    finally:
        sc.close()


def search(ctx, broken):
    run(ctx, 150, 150)


def replay(ctx, data):
    run(ctx, 9, 9)


MATCHERS = {}
