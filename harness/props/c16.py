"""C16 — payload overflow split and page-layout arithmetic match SQLite at every size."""
import struct

from sqlite_dissect.file.database.page import IndexInteriorCell, IndexLeafCell, TableLeafCell
from sqlite_dissect.file.database.utilities import create_pointer_map_pages

from ..gen.values import put_varint
from ..impl.canon import guarded
from ..impl.stubs import StubVersion
from ..leanio import driver
from ..translate import pyfun

ID = "C16"
LEAN_MODULES = ["SqliteDissect.Properties.C16", "SqliteDissect.Properties.C01Cell", "SqliteDissect.Properties.GenFun"]
TRANSLATORS = [pyfun]
TRUSTED_EXTRA = [pyfun.TRUSTED]
PAGE_SIZES = [512, 1024, 2048, 4096, 8192, 16384, 32768, 65536]
RULE = ("real TableLeafCell / IndexLeafCell / IndexInteriorCell objects built over synthetic pages and overflow "
        "chains (stub version interface) for every payload size 0 .. maxLocal + 2(u-4) + 64: quick = exhaustive for "
        "page sizes 512-2048 plus +-48 windows around every threshold and period boundary for the larger sizes, "
        "thorough = exhaustive for page sizes <= 8192, boundary windows + 3000 random sizes above; pointer-map plans for every database size up to 6 periods. "
        "non-trivial = distinct (kind, page size, payload size) whose cell overflows")
ASSUMPTIONS = ["reserved bytes per page are 0 (the tool refuses anything else), so usable size = page size",
               "float division in int((u-12)*k/255 - 23) is exact for page sizes <= 65536 (checked for every accepted page size)"]


def build_cell(kind, u, p):
    """(bytes_on_first_page, has_overflow, m-or-0, expected pages, expected last) from the real cell class,
    plus (payload reassembled?, actual pages, last content size)"""
    # local size per the *specification* decides how the synthetic page is laid out; if the code computes a
    # different split it will read a wrong overflow pointer and fail or disagree
    sp = driver_spec(kind, u, p)
    b_spec, has_ov = sp[0], sp[1]
    payload = bytes((i * 7 + 3) & 0xFF for i in range(p))
    # make the record header parse: header size 1 => zero columns (content after the header is ignored)
    if p:
        payload = b"\x01" + payload[1:]
    pre = b""
    if kind == "indexinterior":
        pre = struct.pack(">I", 2)
    head = pre + put_varint(p) + (put_varint(1) if kind == "table" else b"")
    local = payload[:b_spec]
    npages = sp[2]
    # the chain is linked through page numbers that do not ascend (SQLite takes overflow pages from the freelist in any
    # order): chain position k lives on page 10 + (k xor 1), so following the links is the only way to reassemble
    def pno(k):
        return 10 + ((k ^ 1) if (k ^ 1) < npages else k)
    cell = head + local + (struct.pack(">I", pno(0)) if has_ov else b"")
    start = 12      # (a cell with the largest local payload, u-35 bytes, must still fit on the page)
    page = bytearray(u)
    if start + len(cell) > u:
        return None
    page[start:start + len(cell)] = cell
    rest = payload[b_spec:]

    def page_fn(n):
        k = n - 10
        k = (k ^ 1) if (k ^ 1) < npages else k
        chunk = rest[k * (u - 4):(k + 1) * (u - 4)]
        nxt = pno(k + 1) if (k + 1) * (u - 4) < len(rest) else 0
        return struct.pack(">I", nxt) + chunk + b"\x00" * (u - 4 - len(chunk))

    # child page for the index interior cell: an empty index leaf
    leaf = bytearray(u)
    leaf[0] = 0x0A
    struct.pack_into(">H", leaf, 5, u & 0xFFFF)
    v = StubVersion(u, pages={2: bytes(leaf)}, page_fn=page_fn)
    cls = {"table": TableLeafCell, "index": IndexLeafCell, "indexinterior": IndexInteriorCell}[kind]

    def f():
        c = cls(v, 0, 0, 1, bytes(page), 0, start)
        m = 0
        if c.has_overflow:
            m = int((((u - 12) * 32) / 255) - 23)
        total = bytes(page[int(c.payload_offset):int(c.payload_offset) + int(c.bytes_on_first_page)]) + bytes(c.overflow)
        ok = total == payload
        return (f"ok {int(c.bytes_on_first_page)} {int(c.has_overflow)} {m} {c.expected_number_of_overflow_pages} "
                f"{int(c.expected_last_overflow_page_content_size)}"), ok, c.number_of_overflow_pages
    r = guarded(f)
    if isinstance(r, str):
        return r, False, 0
    return r


_spec_cache = {}


def driver_spec(kind, u, p):
    return _spec_cache[(kind, u, p)]


def payload_sizes(ctx, u, exhaustive):
    x_leaf, m = u - 35, ((u - 12) * 32 // 255) - 23
    x_idx = ((u - 12) * 64 // 255) - 23
    top = x_leaf + 2 * (u - 4) + 64
    if exhaustive:
        return list(range(0, top + 1))
    s = set(range(0, 64))
    for base in [x_leaf, x_idx, m] + [x + k * (u - 4) for x in (x_leaf, x_idx, m) for k in (1, 2)] + [top]:
        s.update(range(max(0, base - 48), base + 49))
    return sorted(x for x in s if x <= top)


def wide_header_cell(kind, u, ncols):
    """a record whose header (ncols one-byte serial types) is longer than the local part of the payload: the header
    itself continues on the first overflow page.  -> None when the cell does not fit, else error text or
    (number of columns parsed, values ok)"""
    hdr_len = ncols + (1 if ncols + 1 < 128 else 2 if ncols + 2 < 16384 else 3)
    body = bytes((i * 5 + 1) & 0x7F for i in range(ncols))
    payload = put_varint(hdr_len) + b"\x01" * ncols + body
    p = len(payload)
    limit = u - 35 if kind == "table" else ((u - 12) * 64 // 255) - 23
    m = ((u - 12) * 32 // 255) - 23
    if p <= limit:
        b_loc = p
    else:
        k = m + (p - m) % (u - 4)
        b_loc = k if k <= limit else m
    pre = struct.pack(">I", 2) if kind == "indexinterior" else b""
    head = pre + put_varint(p) + (put_varint(1) if kind == "table" else b"")
    npages = -(-(p - b_loc) // (u - 4))

    def pno(k):      # (non-ascending chain page numbers, as in build_cell)
        return 10 + ((k ^ 1) if (k ^ 1) < npages else k)
    cell = head + payload[:b_loc] + (struct.pack(">I", pno(0)) if b_loc < p else b"")
    start = 12      # (a cell with the largest local payload, u-35 bytes, must still fit on the page)
    if start + len(cell) > u:
        return None
    page = bytearray(u)
    page[start:start + len(cell)] = cell
    rest = payload[b_loc:]

    def page_fn(n):
        k = n - 10
        k = (k ^ 1) if (k ^ 1) < npages else k
        chunk = rest[k * (u - 4):(k + 1) * (u - 4)]
        nxt = pno(k + 1) if (k + 1) * (u - 4) < len(rest) else 0
        return struct.pack(">I", nxt) + chunk + b"\x00" * (u - 4 - len(chunk))
    leaf = bytearray(u)
    leaf[0] = 0x0A
    struct.pack_into(">H", leaf, 5, u & 0xFFFF)
    v = StubVersion(u, pages={2: bytes(leaf)}, page_fn=page_fn)
    cls = {"table": TableLeafCell, "index": IndexLeafCell, "indexinterior": IndexInteriorCell}[kind]

    def f():
        c = cls(v, 0, 0, 1, bytes(page), 0, start)
        cols = c.payload.record_columns
        return len(cols), all(int(rc.value) == body[i] for i, rc in enumerate(cols)), b_loc < hdr_len
    return guarded(f)


def run(ctx):
    # record headers that spill onto the overflow chain (wide tables / wide index keys)
    for u in PAGE_SIZES:
        m = ((u - 12) * 32 // 255) - 23
        for kind in ("table", "index", "indexinterior"):
            limit = u - 35 if kind == "table" else ((u - 12) * 64 // 255) - 23
            for ncols in sorted({limit + 3, limit + 40, m + u, 2 * u}):
                if ncols > 32000:
                    continue
                r = wide_header_cell(kind, u, ncols)
                if r is None:
                    continue
                ctx.evals += 1
                ctx.branch("wide-header-cell")
                if isinstance(r, str) or r[0] != ncols or not r[1]:
                    ctx.oracle_fail("wide-header", "a record whose header continues on the first overflow page is not decoded column by column",
                                    {"kind": kind, "u": u, "ncols": ncols}, r if isinstance(r, str) else list(r), [ncols, True])
                elif r[2]:
                    ctx.nontrivial.add(("wide-header", kind, u, ncols))
    cases = []
    ocases = []
    exhaustive_all = ctx.tier == "thorough"
    for u in PAGE_SIZES:
        sizes = payload_sizes(ctx, u, u <= (8192 if exhaustive_all else 2048))
        if exhaustive_all and u > 8192:
            # (every size up to 3 pages of 16-64 KiB is hours of cell building: boundary windows plus a random sample)
            top = sizes[-1]
            sizes = sorted(set(sizes) | {ctx.rng.randint(0, top) for _ in range(3000)})
        for kind in ("table", "index", "indexinterior"):
            skind = "table" if kind == "table" else "index"
            keys = [(kind, u, p) for p in sizes]
            answers = driver.ask([f"spec.local {skind} {u} {p}" for p in sizes])
            for key, a in zip(keys, answers):
                t = a.split()
                _spec_cache[key] = (int(t[1]), t[2] == "1", int(t[3]), int(t[4]))
            for p in sizes:
                res = build_cell(kind, u, p)
                if res is None:
                    continue
                out, reassembled, npages = res
                cases.append((f"cell.local {skind} {u} {p}", out))
                sp = _spec_cache[(kind, u, p)]
                ctx.mark((kind, u, p), nontrivial=sp[1])
                want = f"{sp[0]} {int(sp[1])}"
                if not out.startswith("ok"):
                    ctx.oracle_fail("cell-rejected", f"a cell laid out as SQLite lays it out is rejected ({out})",
                                    {"kind": kind, "u": u, "p": p}, out, want)
                    continue
                t = out.split()
                got = f"{t[1]} {t[2]}"
                if got != want or (sp[1] and (int(t[4]), int(t[5])) != (sp[2], sp[3])) or (sp[1] and npages != sp[2]):
                    ctx.oracle_fail("split", "local payload / overflow page count / last page fill differ from SQLite's",
                                    {"kind": kind, "u": u, "p": p}, out + f" pages={npages}", sp)
                elif not reassembled:
                    ctx.oracle_fail("reassemble", "payload not reassembled byte for byte",
                                    {"kind": kind, "u": u, "p": p}, out, None)
        ctx.branch(f"page-size-{u}", len(sizes))
    ctx.differential(cases, "cell.local", nontrivial=lambda line, out: out.startswith("ok") and out.split()[2] == "1")
    ctx.exhaustive = False
    # every page size the header accepts: the two constants
    pcases = []
    for u in [512, 1024, 2048, 4096, 8192, 16384, 32768, 65536]:
        m = int((((u - 12) * 32) / 255) - 23)
        x = int((((u - 12) * 64) / 255) - 23)
        if (m, x) != (((u - 12) * 32 // 255) - 23, ((u - 12) * 64 // 255) - 23):
            ctx.oracle_fail("constants", "float arithmetic differs from SQLite's integer constants", {"u": u}, (m, x), None)
    # pointer map plans
    dcases = []
    for ps in ([512, 1024, 4096, 65536] if not exhaustive_all else PAGE_SIZES):
        E = ps // 5
        Ds = set(range(1, 12))
        for k in range(0, 7):
            base = 2 + k * (E + 1)
            Ds.update(range(max(1, base - 3), base + 5))
        if exhaustive_all and ps <= 1024:
            Ds.update(range(1, 6 * (E + 1) + 8))
        for Dn in sorted(Ds):
            dcases.append((ps, Dn))
    spec = driver.ask([f"spec.ptrmap {Dn} {ps}" for ps, Dn in dcases])
    pm_cases = []
    for (ps, Dn), sp in zip(dcases, spec):
        entry = struct.pack(">BI", 5, 1)
        pg = (entry * (ps // 5) + b"\x00" * ps)[:ps]
        v = StubVersion(ps, page_fn=lambda n: pg, size_in_pages=Dn)

        def f():
            pages = create_pointer_map_pages(v, Dn, ps)
            return "ok " + " ".join(f"{p.number}:{p.number_of_entries}" for p in pages)
        out = guarded(f).rstrip()
        pm_cases.append((f"ptrmap.plan {Dn} {ps}", out if out != "ok" else "ok "))
        ctx.mark(("ptrmap", ps, Dn), nontrivial=out.startswith("ok") and len(out) > 3)
        last_is_map = Dn >= 2 and (Dn - 2) % (ps // 5 + 1) == 0
        if Dn >= 3 and not last_is_map:
            if out.rstrip() != sp.rstrip():
                ctx.oracle_fail("ptrmap", "pointer-map pages differ from SQLite's positions/entry counts",
                                {"D": Dn, "ps": ps}, out, sp)
    ctx.differential([(l, o.rstrip() if o.rstrip() != "ok" else "ok ") for l, o in pm_cases], "ptrmap.plan")


def search(ctx, broken):
    ctx.tier = "thorough"
    run(ctx)


def replay(ctx, data):
    run(ctx)


MATCHERS = {}
