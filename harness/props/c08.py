"""C08 — carving completes; each carved record is backed by bytes at its reported offset."""
import json
import os
import re
import struct

from sqlite_dissect import interface
from sqlite_dissect.carving.carved_cell import CarvedRecord
from sqlite_dissect.carving.rollback_journal_carver import RollBackJournalCarver
from sqlite_dissect.carving.utilities import generate_signature_regex
from sqlite_dissect.constants import CELL_LOCATION, CELL_SOURCE
from sqlite_dissect.exception import CellCarvingError
from sqlite_dissect.file.database.database import Database
from sqlite_dissect.file.journal.jounal import RollbackJournal
from sqlite_dissect.file.schema.master import OrdinaryTableRow
from sqlite_dissect.file.wal.wal import WriteAheadLog
from sqlite_dissect.version_history import VersionHistory

from ..gen import walreader
from ..impl.canon import classify, err, hx
from ..leanio import driver
from ..translate import pyfun
from . import carvecommon as K
from . import dbcommon as C

ID = "C08"
LEAN_MODULES = ["SqliteDissect.Properties.C08", "SqliteDissect.Properties.GenFun"]
TRANSLATORS = [pyfun]
RULE = ("(a) CarvedRecord.__init__ called directly on generated arguments (every location x start-offset branch, full and "
        "partial matches, bytes and bytearray data) vs carve.record; the real SignatureCarver.carve_unallocated_space / "
        "carve_freeblocks through stub version/freeblock objects on generated regions (zero-filled, residue-filled, records "
        "at offset 0, at the very end, back to back, clobbered by a freeblock header, cut by the end of the region; "
        "single-column, alias-first and no-row signatures) vs carve.region; interface.carve_table, "
        "get_version_history_iterator(signature=, carve_freelist_pages=True) and RollBackJournalCarver.carve on "
        "SQLite-written databases, WAL histories and PERSIST journals with deletions vs carve.table / carve.iter / "
        "carve.journal. (b) oracle: no exception escapes; for every carved cell the bytes of the source file at "
        "cell.file_offset are the serial types of the matched columns followed by bodies that decode (format spec) to the "
        "reported values; the bytes lie in the unallocated area / a freeblock of that page in that version (independent "
        "page reader) or on a freelist page, never inside a live cell; no residue (page, in-page offset, the record's bytes "
        "as far as the free region holds them) is reported in two commits. non-trivial = distinct region/record cases in which at least one cell was carved, "
        "distinct carved cells of real files")
ASSUMPTIONS = [
    "md5 is collision-free on the byte strings hashed: the model carries a digest as the hashed bytes",
    "Python re implements ordered alternation, greedy bounded repetition and the non-overlapping finditer scan for the emitted fragment as Model.Regex does (validated by C10 on every run)",
    "the Signature object handed to the carver is the one C10 is about; the carving model takes number_of_columns, total_records, the simplified / recommended / simplified-probabilistic signatures as input",
    "probabilities are compared as exact fractions (float(n)/d with one denominator per column)",
    "serial types are below 2^56 and content sizes below 2^53 (the float returned by get_content_size for blobs is exact)",
    "the Python type of the data object (bytes, or bytearray() for an empty region) no longer decides anything after fix 4d9b308 / 0b2b453 and is not part of the model's input; the generators still pass both",
]
TRUSTED_EXTRA = [pyfun.TRUSTED, "Python re for the emitted regex fragment", "harness/props/carvecommon.py page_layout / get_varint / decode_body: independent reader written from the file-format document"]

BASIC = list(range(10))


# ------------------------------------------------------------------------------------ generators
def gen_sig_column(r, allow_var=True, first=False):
    k = r.random()
    pool = ([-2, -1] if allow_var else []) + BASIC
    if k < 0.45:
        return [r.choice(pool)]
    if k < 0.8:
        return sorted(r.sample(pool, r.randint(2, 4)))
    return sorted(r.sample(pool, r.randint(2, len(pool))))


def gen_signature(r, ncols=None, mode=None):
    """a consistent stub signature: simplified columns, counts -> probabilities, or the no-row form"""
    ncols = ncols or r.choice([1, 1, 2, 2, 3, 3, 4, 6])
    mode = mode or r.choice(["rows"] * 8 + ["norows"] * 2)
    doubles = 0
    cols = []
    for i in range(ncols):
        c = gen_sig_column(r, first=(i == 0))
        if -1 in c and -2 in c:
            doubles += 1
            if doubles > 3:
                c = [x for x in c if x != -1]
        cols.append(c)
    if r.random() < 0.25:
        cols[0] = [0]                     # INTEGER PRIMARY KEY alias: always NULL in the record
    if mode == "norows":
        rec = []
        for c in cols:
            rec.append(r.choice([[1, 2, 3, 4, 5, 6, 8, 9], [1, 2, 3, 4, 5, 6, 7, 8, 9], [-2], [-1]]))
        s = K.StubSig([], nc=ncols, total=0, recommended=rec, prob=[])
        return s
    total = r.randint(1, 40)
    prob, denoms = [], []
    for c in cols:
        cuts = sorted(r.randint(1, max(1, total)) for _ in range(len(c) - 1))
        counts = []
        prev = 0
        for x in cuts + [total + len(c)]:
            counts.append(max(1, x - prev))
            prev = x
        d = sum(counts)
        prob.append([(t, float(n) / d) for t, n in zip(c, counts)])
        denoms.append(d)
    s = K.StubSig(cols, nc=ncols, total=total, recommended=[], prob=prob)
    s._denoms = denoms
    return s


def type_for(r, alt):
    if alt == -1:
        return r.choice([12, 14, 16, 20, 40, 126, 128, 130, 300])
    if alt == -2:
        return r.choice([13, 15, 17, 21, 41, 127, 129, 131, 301])
    return alt


def gen_record(r, cols, prefix=True, rowid=None):
    """bytes of a table leaf cell holding a record admitted by the columns: (cell bytes, header offset in it,
    header length)"""
    types = [type_for(r, r.choice(c)) for c in cols]
    hdr = b"".join(K.put_varint(t) for t in types)
    body = b"".join(bytes(r.randrange(256) for _ in range(K.serial_size(t))) for t in types)
    hlen = K.put_varint(len(hdr) + 1)
    payload = hlen + hdr + body
    if not prefix:
        return hdr + body, 0, len(hdr)
    rid = K.put_varint(rowid if rowid is not None else r.choice([1, 5, 100, 127, 128, 5000, 2 ** 20]))
    pre = K.put_varint(len(payload)) + rid
    return pre + payload, len(pre) + len(hlen), len(hdr)


def eff_cols(sig):
    return sig.simplified_signature or sig.recommended_schema_signature


def gen_region(r, sig, loc):
    """(data, freeblock byte size or None)"""
    cols = eff_cols(sig)
    k = r.random()
    n = r.choice([0, 1, 2, 3, 5, 8, 16, 40, 90])
    fill = r.choice(["zero", "zero", "random", "ff", "mixed"])

    def filler(m):
        if fill == "zero":
            return bytes(m)
        if fill == "ff":
            return bytes([0xFF]) * m
        if fill == "random":
            return bytes(r.randrange(256) for _ in range(m))
        return bytes(r.choice([0, 0, 1, 2, 8, 9, 12, 13, 0x80, 0x81, 0xFF, r.randrange(256)]) for _ in range(m))
    parts = []
    if k < 0.12:
        return (bytearray() if r.random() < 0.7 else filler(n)), None
    if k < 0.22:
        parts = [filler(n)]
    else:
        npieces = r.choice([1, 1, 2, 2, 3, 4])
        if r.random() < 0.6:
            parts.append(filler(r.choice([0, 0, 1, 2, 3, 4, 7, 20])))
        for _ in range(npieces):
            q = r.random()
            cell, hoff, hl = gen_record(r, cols)
            if q < 0.35:
                piece = cell
            elif q < 0.6:
                # first four bytes overwritten by a freeblock header (next, size)
                piece = struct.pack(">HH", r.choice([0, 0, 700, 60000]), r.choice([len(cell), len(cell), len(cell) + 3, 9])) + cell[4:]
            elif q < 0.75:
                piece = cell[hoff:]                                # header at the very start of the piece
            elif q < 0.85:
                piece = cell[hoff + (1 if len(cols) > 1 else 0):]  # first serial type gone
            else:
                piece = cell[:r.randint(1, len(cell))]             # cut
            parts.append(piece)
            if r.random() < 0.5:
                parts.append(filler(r.choice([0, 1, 2, 5, 9])))
        if r.random() < 0.3:
            last = parts[-1]
            parts[-1] = last[:max(1, len(last) - r.randint(1, 6))]  # cut by the end of the region
    data = b"".join(parts)
    if len(data) == 0:
        data = bytearray()
    fb = None
    if loc == "freeblock":
        fb = len(data) + 4
        if r.random() < 0.1:
            fb = r.choice([4, 5, len(data) + 3, len(data) + 9])
    return data, fb


# ------------------------------------------------------------------------------------ oracle pieces
def check_backed(F, c, shift=0):
    """the bytes of F at the reported offset are the matched serial types followed by bodies that decode to the values"""
    p = c.payload
    fo = c.file_offset + shift
    n = p.serial_type_definition_end_offset - p.serial_type_definition_start_offset
    if fo < 0 or fo + n > len(F):
        return False, "serial-type bytes lie outside the file"
    hdr = F[fo:fo + n]
    types, o = [], 0
    while o < n:
        v, k = K.get_varint(hdr, o)
        if k == 0:
            return False, "a varint overruns the matched bytes"
        types.append(v)
        o += k
    cols = p.record_columns
    m = len(types)
    if m > len(cols) or [x.serial_type for x in cols[len(cols) - m:]] != types:
        return False, "the bytes at the offset are not the serial types of the reported columns"
    off = fo + n
    for col in cols:
        size = K.serial_size(col.serial_type) if 0 <= col.serial_type else None
        if size is None:
            return False, "reserved serial type reported"
        if not col.truncated_value:
            body = F[off:off + size]
            if len(body) != size:
                return False, f"body of column {col.index} lies outside the file"
            if K.decode_body(col.serial_type, body) != K.show_value(col):
                return False, f"value of column {col.index} differs from the bytes"
        off += size
    return True, ""


def extent(c):
    """[start, end) in file offsets of the matched bytes and the bodies of the non-truncated columns"""
    p = c.payload
    n = p.serial_type_definition_end_offset - p.serial_type_definition_start_offset
    end = c.file_offset + n
    for col in p.record_columns:
        if col.truncated_value:
            break
        end += int(col.content_size)
    return c.file_offset, end


def full_matches(sig, data):
    try:
        rx = re.compile(generate_signature_regex(eff_cols(sig)))
    except Exception:  # noqa
        return []
    return [(m.start(), m.end()) for m in rx.finditer(bytes(data))]


def raised(ctx, what, case, e, extra=None):
    info = K.exc_info(e)
    case = dict(case, exc=info)
    if extra:
        case.update(extra)
    ctx.oracle_fail("carving-raised", f"{what}: {info['class']} escapes ({info['msg'][:80]})", case, err(e), "no exception")


# ------------------------------------------------------------------------------------ (a1) CarvedRecord directly
def record_case(r, sig):
    cols = eff_cols(sig)
    loc = r.choice(["unalloc", "unalloc", "freeblock", "freeblock", "freeblock", "allocated"])
    partial = r.random() < 0.65 and len(cols) >= 1
    mcols = cols[1:] if partial else cols
    lead = r.choice([0, 0, 1, 1, 2, 3, 4, 5, 7, 9])
    k = r.random()
    pre = bytes(r.choice([0, 1, 2, 9, 12, 13, 0x1A, 0x80, 0x81, 0xFF, r.randrange(256)]) for _ in range(lead))
    if k < 0.25 and lead >= 7:
        pre = bytes(r.choice([0x80, 0x81, 0xFF, 0x9A]) for _ in range(lead - 1)) + bytes([r.choice([0x0D, 0x21, 0x80])])
    cell, hoff, hl = gen_record(r, mcols, prefix=False)
    if partial and lead >= 1 and r.random() < 0.5:
        # a plausible first serial type right in front
        pre = pre[:-1] + K.put_varint(type_for(r, r.choice(cols[0])))[-1:]
    if partial and lead >= 2 and r.random() < 0.4:
        # a freeblock size field right in front of the match
        body_len = len(cell) - hl
        want = 2 + 1 + 1 + hl + body_len + r.choice([0, 1, 2, 4, 8, 200])
        pre = pre[:-2] + struct.pack(">H", want % 65536)
        if lead >= 4 and r.random() < 0.5:
            pre = pre[:-4] + struct.pack(">H", r.choice([0, 100, 5000, 65535])) + pre[-2:]
    tail = bytes(r.randrange(256) for _ in range(r.choice([0, 0, 1, 3, 8])))
    body_cut = r.random() < 0.3
    data = pre + cell + tail
    if body_cut:
        data = data[:len(pre) + hl + r.randint(0, max(0, len(cell) - hl))]
    s, e = len(pre), len(pre) + hl
    ba = False
    if len(data) == 0 or r.random() < 0.03:
        data = bytearray(data)
        ba = True
    fc = cols[0] if partial else None
    if r.random() < 0.03:
        fc = r.choice([None, [], cols[0]])
    fbs = None
    if loc == "freeblock" or r.random() < 0.1:
        fbs = r.choice([len(data) + 4, len(data) + 4, 2 + 2 + hl + (len(cell) - hl) + r.choice([0, 1, 2, 4, 8]), 4, 300])
    ps = r.choice([512, 1024, 4096, 65536])
    cutoff = r.randint(0, len(data))
    return loc, data, ba, s, e, cutoff, fc, fbs, ps


def run_record(sig, loc, data, s, e, cutoff, fc, fbs, ps):
    try:
        p = CarvedRecord(K.LOC_REV[loc], data, s, e, cutoff, sig.number_of_columns, sig, fc, fbs, ps)
        return "ok " + K.show_rec(p)
    except CellCarvingError:
        return "caught cellCarving"
    except ValueError:
        return "caught valueError"
    except Exception as ex:  # noqa
        return err(ex)


def record_correspondence(ctx, n):
    r = ctx.rng
    cases = []
    for i in range(n):
        sig = gen_signature(r)
        if r.random() < 0.04:
            sig.number_of_columns = max(0, sig.number_of_columns + r.choice([-1, 1]))
        loc, data, ba, s, e, cutoff, fc, fbs, ps = record_case(r, sig)
        out = run_record(sig, loc, data, s, e, cutoff, fc, fbs, ps)
        fcs = "none" if fc is None else ("e" if not fc else ",".join(map(str, fc)))
        line = (f"carve.record {K.sig_tokens(sig)} {loc} {ps} {s} {e} {cutoff} {fcs} "
                f"{fbs if fbs is not None else '-'} {hx(data)}")
        cases.append((line, out))
        ctx.branch(f"record:{loc}:s{min(s, 2)}:{'partial' if fc is not None else 'full'}")
    K.differential(ctx, cases, "carve.record", nontrivial=lambda line, out: out.startswith("ok"))


# ------------------------------------------------------------------------------------ (a2) regions
def region_oracle(ctx, sig, loc, ps, po, start, data, fb, cells, exc, line):
    case = {"op": line[:6000], "loc": loc, "region": True}
    if exc is not None:
        fm = full_matches(sig, data)
        raised(ctx, f"carving a {loc} region", case, exc,
               {"full_matches": fm[:6], "full_match_at_0_and_more": len(fm) >= 2 and fm[0][0] == 0,
                "single_column": len(eff_cols(sig)) == 1, "empty_region": len(data) == 0})
        return
    content_off = po + start + (4 if loc == "freeblock" else 0)
    F = bytes(content_off) + bytes(data)
    for c in cells:
        ctx.mark(("region-cell", line[-200:], c.file_offset))
        ok, why = check_backed(F, c)
        if not ok:
            ok4, _ = check_backed(F, c, 4)
            ctx.oracle_fail("not-backed", f"a carved record is not backed by the bytes at its file offset ({why})",
                            dict(case, cell=K.show_cell(c, data)[:600], backed_at_plus4=ok4), c.file_offset, why)


def region_correspondence(ctx, n):
    r = ctx.rng
    cases = []
    for i in range(n):
        sig = gen_signature(r)
        loc = r.choice(["unalloc", "unalloc", "freeblock"])
        data, fb = gen_region(r, sig, loc)
        ps = r.choice([512, 1024, 4096, 65536])
        po = r.choice([0, ps, 7 * ps, 32 + 24 + 3 * (ps + 24)])
        start = r.choice([8, 12, 100, 108, ps - len(data) if len(data) <= ps else 8])
        if loc == "freeblock" and fb is None:
            fb = len(data) + 4
        out, cells, exc = K.run_region(sig, loc, ps, po, start, data, fb)
        line = K.region_line(sig, loc, ps, po, start, fb, data)
        cases.append((line, out))
        ctx.branch(f"region:{loc}:{'norows' if not sig.simplified_signature else 'rows'}:"
                   f"{'1col' if len(eff_cols(sig)) == 1 else 'ncol'}")
        region_oracle(ctx, sig, loc, ps, po, start, data, fb, cells, exc, line)
    K.differential(ctx, cases, "carve.region", nontrivial=lambda line, out: out.startswith("ok f"))


def replay_region(ctx, line):
    """re-run one carve.region line on the implementation, the model and the oracle"""
    t = line.split(" ")
    if len(t) == 13:                 # a line recorded before the bytes/bytearray flag was dropped
        t = t[:7] + t[8:]
    nc, tot, simp, rec, prob, loc, ps, po, start, fbs, hexd = t[1:12]

    def cols(s):
        return [] if s == "-" else [[int(x) for x in c.split(",")] if c != "e" else [] for c in s.split(";")]
    probs, denoms = [], []
    if prob != "-":
        for c in prob.split(";"):
            col = []
            d = None
            if c != "e":
                for ent in c.split(","):
                    ty, fr = ent.split(":")
                    nn, dd = fr.split("/")
                    col.append((int(ty), float(int(nn)) / int(dd)))
                    d = int(dd)
            probs.append(col)
            denoms.append(d or 1)
    sig = K.StubSig(cols(simp), nc=int(nc), total=int(tot), recommended=cols(rec), prob=probs)
    sig._denoms = denoms
    raw = b"" if hexd == "-" else bytes.fromhex(hexd)
    data = raw if raw else bytearray()
    fb = None if fbs == "-" else int(fbs)
    out, cells, exc = K.run_region(sig, loc, int(ps), int(po), int(start), data, fb)
    line2 = K.region_line(sig, loc, int(ps), int(po), int(start), fb, data)
    K.differential(ctx, [(line2, out)], "carve.region", nontrivial=lambda l, o: o.startswith("ok f"))
    region_oracle(ctx, sig, loc, int(ps), int(po), int(start), data, fb, cells, exc, line2)


# ------------------------------------------------------------------------------------ (a3) real files
def rowid_entries(version):
    return [e for e in version.master_schema.master_schema_entries
            if isinstance(e, OrdinaryTableRow) and not e.without_row_id and not e.name.startswith("sqlite_")]


class Files:
    """independent view of db + wal: which file and offset holds page p as of commit k"""

    def __init__(self, db, wal=None):
        self.dbb = open(db, "rb").read()
        self.walb = open(wal, "rb").read() if wal else None
        self.info = walreader.read_wal(self.walb) if self.walb else None
        self.ps = struct.unpack(">H", self.dbb[16:18])[0]
        self.ps = 65536 if self.ps == 1 else self.ps

    def locate(self, k, pgno):
        """(file bytes, offset of the page image, 'db'|'wal')"""
        if k > 0 and self.info:
            last = self.info["commits"][k - 1][0]
            best = None
            for (i, p, _sz) in self.info["frames"]:
                if i > last:
                    break
                if p == pgno:
                    best = i
            if best is not None:
                return self.walb, 32 + best * (24 + self.ps) + 24, "wal"
        return self.dbb, (pgno - 1) * self.ps, "db"

    def freelist_pages(self, k):
        out = set()
        F, off, _ = self.locate(k, 1)
        trunk = struct.unpack(">I", F[off + 32:off + 36])[0]
        guard = 0
        while trunk and guard < 100000:
            out.add(trunk)
            F, off, _ = self.locate(k, trunk)
            nxt, cnt = struct.unpack(">II", F[off:off + 8])
            for i in range(min(cnt, self.ps // 4)):
                out.add(struct.unpack(">I", F[off + 8 + 4 * i:off + 12 + 4 * i])[0])
            trunk = nxt
            guard += 1
        return out


def pages_of(files, k, root, cache):
    key = (k, root)
    if key not in cache:
        def read_page(n):
            F, off, _ = files.locate(k, n)
            return F[off:off + files.ps]
        try:
            cache[key] = K.table_pages(read_page, root, files.ps)
        except Exception:  # noqa
            cache[key] = None
    return cache[key]


def cell_oracle(ctx, files, k, c, case, seen=None, table_pages=None):
    """backed + location of one carved cell of version k"""
    F, poff, which = files.locate(k, c.page_number)
    inpage = c.file_offset - poff
    desc = dict(case, version=k, page=c.page_number, file=which, cell=K.show_cell(c)[:500])
    ctx.mark(("cell", case.get("tag"), k, c.page_number, c.file_offset, c.md5_hex_digest))
    empty = extent(c)[0] == extent(c)[1]
    if not (0 <= inpage < files.ps or (inpage == files.ps and empty)):
        ctx.oracle_fail("offset-outside-page", "the reported file offset does not lie in the image of the reported page in that version",
                        desc, c.file_offset, (poff, poff + files.ps))
        return
    ok, why = check_backed(F, c)
    if not ok:
        ok4, _ = check_backed(F, c, 4)
        ctx.oracle_fail("not-backed", f"a carved record is not backed by the bytes at its file offset ({why})",
                        dict(desc, loc=K.LOC.get(c.location), backed_at_plus4=ok4), c.file_offset, why)
    a, b = extent(c)
    if ok is False and K.LOC.get(c.location) == "freeblock":
        a, b = a + 4, b + 4                      # judge the location at the bytes that do back the record
    a -= poff
    b -= poff
    page = F[poff:poff + files.ps]
    if c.source == CELL_SOURCE.FREELIST:
        if c.page_number not in files.freelist_pages(k):
            ctx.oracle_fail("not-free", "a cell carved with source Freelist lies on a page that is not on the freelist of that version",
                            desc, c.page_number, "freelist page")
        return
    if table_pages is not None and c.page_number not in table_pages:
        ctx.oracle_fail("foreign-page", "a cell carved with source B-Tree lies on a page that does not belong to the table in that version",
                        desc, c.page_number, sorted(table_pages)[:40])
        return
    lay = K.page_layout(page, c.page_number)
    if lay is None:
        ctx.branch("oracle:overflow-or-other-page")
        return
    for (cs, ce) in lay["cells"]:
        if a < ce and cs < b:
            ctx.oracle_fail("inside-live-cell", "the bytes of a carved record overlap a live cell of the page",
                            dict(desc, live_cell=(cs, ce), record=(a, b)), (a, b), "free bytes")
            return
    ua = lay["unalloc"]
    inside = ua[0] <= a and b <= ua[1]
    for (fs, fz) in lay["freeblocks"]:
        if fs <= a and b <= fs + fz:
            inside = True
    if not inside:
        ctx.oracle_fail("not-free", "the bytes of a carved record are neither in the unallocated area nor in one freeblock of the page",
                        dict(desc, record=(a, b), unalloc=ua, freeblocks=lay["freeblocks"][:8]), (a, b), "free bytes")
    if seen is not None:
        # the residue: the record's serial types and as much of its bodies as the free region it lies in still holds
        # (independent page layout); when less of a truncated record is left in a later version it is another residue
        region_end = ua[1] if ua[0] <= a <= ua[1] else b
        for (fs, fz) in lay["freeblocks"]:
            if fs <= a <= fs + fz:
                region_end = fs + fz
        total = a + (c.payload.serial_type_definition_end_offset - c.payload.serial_type_definition_start_offset) \
            + sum(int(col.content_size) for col in c.payload.record_columns)
        ident = (c.page_number, a, bytes(page[a:max(b, min(total, region_end))]))
        if ident in seen and seen[ident] != k:
            ctx.oracle_fail("re-reported", "the same record (page, in-page offset, bytes) is reported in two commits",
                            dict(desc, first_version=seen[ident]), k, seen[ident])
        seen.setdefault(ident, k)


def open_history(db, wal):
    d = Database(db)
    w = WriteAheadLog(wal) if wal else None
    return d, VersionHistory(d, w)


def check_files(ctx, db, wal, journal, case, tables=None, freelist=True):
    """all three carving entry points on one set of files: correspondence + oracle"""
    try:
        d, vh = open_history(db, wal)
    except Exception as e:  # noqa
        ctx.branch("open-failed(C01/C02):" + classify(e))
        return
    files = Files(db, wal)
    pcache = {}
    walarg = wal or "-"
    n0 = len(ctx.oracle_failures)
    for e in rowid_entries(d):
        if tables is not None and e.name not in tables:
            continue
        try:
            sig = interface.create_table_signature(e.name, d, vh)
        except Exception as ex:  # noqa
            ctx.branch("signature-failed(C10):" + classify(ex))
            continue
        toks = K.sig_tokens(sig)
        nhex = hx(e.name.encode(d.database_text_encoding or "utf-8"))
        tcase = dict(case, table=e.name, simplified=str(sig.simplified_signature)[:200])
        # ---- interface.carve_table on every version that has the table
        for k in sorted(vh.versions):
            v = vh.versions[k]
            try:
                names = [x.name for x in v.master_schema.master_schema_entries]
            except Exception:  # noqa
                continue
            if e.name not in names:
                continue
            with K.CellTap():
                try:
                    cells = interface.carve_table(e.name, sig, v)
                    out = "carve:" + K.show_cells(cells)
                    exc = None
                except Exception as ex:  # noqa
                    cells, out, exc = [], "carve:" + err(ex), ex
            line = f"carve.table {db} {walarg} {k} {nhex} {toks}"
            K.differential(ctx, [(line, out)], "carve.table", nontrivial=lambda l, o: o.startswith("carve:ok f"))
            if exc is not None:
                raised(ctx, "interface.carve_table", dict(tcase, version=k, entry="carve_table"), exc)
            try:
                vroot = [x for x in v.master_schema.master_schema_entries if x.name == e.name][0].root_page_number
            except Exception:  # noqa
                vroot = None
            for c in cells:
                cell_oracle(ctx, files, k, c, dict(tcase, entry="carve_table"),
                            table_pages=pages_of(files, k, vroot, pcache) if vroot else None)
        # ---- the version history iterator with carving (and freelist pages)
        for fl in ([True] if freelist else [False]):
            with K.CellTap():
                commits, exc = [], None
                try:
                    for commit in interface.get_version_history_iterator(e.name, vh, sig, fl):
                        commits.append(commit)
                    out = "iter:ok " + ("/".join(
                        f"V{cm.version_number}:f{K.b01(cm.freelist_pages_carved)}:"
                        + (";".join(K.show_cell(c) for c in cm.carved_cells.values()) if cm.carved_cells else "-")
                        for cm in commits) if commits else "-")
                except Exception as ex:  # noqa
                    out, exc = "iter:" + err(ex), ex
            line = f"carve.iter {db} {walarg} {nhex} {K.b01(fl)} {toks}"
            K.differential(ctx, [(line, out)], "carve.iter", nontrivial=lambda l, o: ",cols=" in o)
            if exc is not None:
                raised(ctx, "get_version_history_iterator(carving)", dict(tcase, entry="iterator", freelist=fl), exc)
            seen = {}
            digests = set()
            for cm in commits:
                for dg, c in cm.carved_cells.items():
                    if dg in digests:
                        ctx.oracle_fail("re-reported", "a carved cell digest appears in two commits",
                                        dict(tcase, entry="iterator", version=cm.version_number), dg, "distinct")
                    digests.add(dg)
                    cell_oracle(ctx, files, cm.version_number, c, dict(tcase, entry="iterator"), seen,
                                table_pages=pages_of(files, cm.version_number, cm.root_page_number, pcache)
                                if cm.root_page_number and cm.root_page_number > 0 else None)
        # ---- the rollback journal
        if journal:
            with K.CellTap():
                try:
                    jc = RollBackJournalCarver.carve(RollbackJournal(journal), d, e, sig)
                    out = "ok " + ("/".join(
                        f"t{13 if 'LEAF' in str(cm.page_type).upper() else 5}:"
                        + (";".join(K.show_cell(c) for c in cm.carved_cells.values()) if cm.carved_cells else "-")
                        for cm in jc) if jc else "-")
                    exc = None
                except Exception as ex:  # noqa
                    jc, out, exc = [], err(ex), ex
            line = f"carve.journal {journal} {d.page_size} {toks}"
            K.differential(ctx, [(line, out)], "carve.journal", nontrivial=lambda l, o: ",cols=" in o)
            if exc is not None:
                jsize = os.path.getsize(journal)
                raised(ctx, "RollBackJournalCarver.carve", dict(tcase, entry="journal", journal_size=jsize,
                       page_records=(jsize - 512) / (d.page_size + 8) if jsize >= 512 else 0), exc)
            J = open(journal, "rb").read()
            for cm in jc:
                for c in cm.carved_cells.values():
                    ctx.mark(("jcell", case.get("tag"), c.file_offset, c.md5_hex_digest))
                    ok, why = check_backed(J, c)
                    if not ok:
                        ctx.oracle_fail("not-backed", f"a record carved from the journal is not backed by the bytes at its file offset ({why})",
                                        dict(tcase, entry="journal", cell=K.show_cell(c)[:500]), c.file_offset, why)
    C.keep_failing_files(ctx, n0, db, wal, journal)


# ------------------------------------------------------------------------------------ scenarios
def q(v):
    if v is None:
        return "NULL"
    if isinstance(v, bytes):
        return "x'" + v.hex() + "'"
    if isinstance(v, str):
        return "'" + v.replace("'", "''") + "'"
    return repr(v)


SHAPES = {
    "int_text_real": ("a INTEGER, b TEXT, c REAL", lambda r, i: (i * 1000 + 300, "row%d" % i * r.randint(1, 3), i + 0.5)),
    "alias_text": ("a INTEGER PRIMARY KEY, b TEXT", lambda r, i: (None, "name-%d-%s" % (i, "x" * r.randint(0, 9)))),
    "single_int": ("a INTEGER", lambda r, i: (r.choice([0, 1, 7, 300, 70000, -5]),)),
    "single_text": ("a TEXT", lambda r, i: ("v%d" % i * r.randint(1, 4),)),
    "text_first": ("a TEXT, b INTEGER, c BLOB", lambda r, i: ("k%d" % i, r.choice([i, 300 + i, 2 ** 33 + i]), bytes([i % 256]) * r.randint(0, 6))),
    "mixed": ("a, b, c, d", lambda r, i: (r.choice([None, i, 1.5, "t%d" % i, b"\x01\x02"]), r.choice([0, 1, i, "s"]),
                                          r.choice(["é" * r.randint(1, 30), "z", b""]), i + 1000)),
    "blob_int": ("a BLOB, b INTEGER", lambda r, i: (bytes(r.randrange(256) for _ in range(r.randint(1, 40))), i)),
}


def gen_spec(r, mode=None, shape=None, ps=None, rows=None):
    shape = shape or r.choice(list(SHAPES))
    decl, mk = SHAPES[shape]
    ps = ps or r.choice([512, 1024, 4096])
    n = rows if rows is not None else r.choice([3, 8, 20, 60, 150])
    setup = [f"CREATE TABLE t({decl})"]
    if r.random() < 0.3:
        setup.append("CREATE TABLE other(x, y)")
        for i in range(r.randint(1, 30)):
            setup.append(f"INSERT INTO other VALUES({i}, 'other-{i}')")
    for i in range(1, n + 1):
        setup.append("INSERT INTO t VALUES(%s)" % ",".join(q(v) for v in mk(r, i)))
    mode = mode or r.choice(["db", "db", "wal", "wal", "journal"])
    steps = []
    nsteps = {"db": r.randint(1, 3), "wal": r.randint(1, 4), "journal": 1}[mode]
    live = list(range(1, n + 1))
    nxt = n + 1
    for _ in range(nsteps):
        st = []
        k = r.random()
        if k < 0.55 and live:
            for rid in r.sample(live, min(len(live), r.choice([1, 1, 2, 4, 9]))):
                st.append(f"DELETE FROM t WHERE rowid={rid}")
                live.remove(rid)
        elif k < 0.65 and live:
            lo = r.choice(live)
            hi = lo + r.choice([5, 20, 80])
            st.append(f"DELETE FROM t WHERE rowid BETWEEN {lo} AND {hi}")
            live = [x for x in live if not lo <= x <= hi]
        elif k < 0.72:
            st.append("DELETE FROM t")
            live = []
        elif k < 0.85:
            for _i in range(r.randint(1, 6)):
                st.append("INSERT INTO t VALUES(%s)" % ",".join(q(v) for v in mk(r, nxt)))
                live.append(nxt)
                nxt += 1
        else:
            if live:
                rid = r.choice(live)
                vals = mk(r, nxt)
                st.append(f"DELETE FROM t WHERE rowid={rid}")
                live.remove(rid)
            st.append("INSERT INTO t VALUES(%s)" % ",".join(q(v) for v in mk(r, nxt)))
            live.append(nxt)
            nxt += 1
        if not st:
            st.append("INSERT INTO t VALUES(%s)" % ",".join(q(v) for v in mk(r, nxt)))
            nxt += 1
        steps.append(st)
    return {"page_size": ps, "mode": mode, "shape": shape, "setup": setup, "steps": steps,
            "encoding": r.choice(["UTF-8", "UTF-8", "UTF-16le"]), "auto_vacuum": r.choice([0, 0, 0, 1])}


def run_spec(ctx, sc_dir, spec, tag):
    try:
        sc = K.build_scenario(sc_dir, spec, tag)
    except Exception as e:  # noqa
        ctx.notes.append(f"scenario generator error: {e}")
        return
    ctx.branch(f"scenario:{spec['mode']}:{spec.get('shape', '?')}")
    case = {"tag": tag, "spec": spec if len(json.dumps(spec)) < 6000 else {"too_long": True, "mode": spec["mode"]}}
    check_files(ctx, sc.db, sc.wal, sc.journal, case, tables={"t"})


def real_files(ctx, n_spec, n_hist):
    from ..gen import histories as H, sqlite_factory as F
    sc = C.Scratch()
    r = ctx.rng
    try:
        # forced shape: leaves emptied one commit after the other inside a WAL; the first freed leaf becomes the
        # freelist trunk page and is rewritten, around its untouched residue, by every later commit that frees a page
        for j, (shape, ps) in enumerate([("int_text_real", 512), ("alias_text", 1024)]):
            spec = gen_spec(r, mode="wal", shape=shape, ps=ps, rows=150)
            spec["auto_vacuum"] = 0
            spec["steps"] = [[f"DELETE FROM t WHERE rowid BETWEEN {lo} AND {lo + 29}"] for lo in (1, 31, 61, 91)]
            run_spec(ctx, sc.dir, spec, f"c08f{j}")
            ctx.branch("scenario:forced:leaves-freed-commit-by-commit")
        for i in range(n_spec):
            run_spec(ctx, sc.dir, gen_spec(r), f"c08s{i}")
        kinds = ["plain", "ddl", "plain", "grow_shrink", "checkpoint_restart", "plain"]
        for i in range(n_hist):
            cfg = F.random_cfg(r, page_sizes=[512, 1024, 4096], small=True)
            cfg["auto_vacuum"] = [0, 0, 1][i % 3]
            try:
                h = H.make_history(sc.path(f"c08h{i}"), cfg, r, kind=kinds[i % len(kinds)])
            except Exception as e:  # noqa
                ctx.notes.append(f"history generator error: {e}")
                continue
            ctx.branch(f"history:{h.kind}")
            check_files(ctx, h.db, h.wal, None, {"tag": f"h{i}", "kind": h.kind, "events": h.events[:20]}, tables={"t0"})
    finally:
        sc.close()


# ------------------------------------------------------------------------------------ entry points
def run(ctx):
    big = ctx.thorough()
    record_correspondence(ctx, 30000 if big else 5000)
    region_correspondence(ctx, 50000 if big else 5000)
    real_files(ctx, 400 if big else 36, 60 if big else 6)
    ctx.oracle_failures.sort(key=lambda f: len(json.dumps(f.get("case"), default=str)))


def search(ctx, broken):
    ctx.tier = "thorough"
    record_correspondence(ctx, 20000)
    region_correspondence(ctx, 30000)
    real_files(ctx, 150, 30)


def replay(ctx, data):
    f = data.get("failure") or {}
    case = f.get("case", data.get("case", {}))
    if case.get("op", "").startswith("carve.region"):
        replay_region(ctx, case["op"])
        return
    if case.get("spec") and not case["spec"].get("too_long"):
        sc = C.Scratch()
        try:
            run_spec(ctx, sc.dir, case["spec"], "replay")
        finally:
            sc.close()
        return
    files = C.replay_files(data)
    if files:
        db = files[0]
        wal = next((x for x in files[1:] if x.endswith("-wal")), None)
        jr = next((x for x in files[1:] if x.endswith("-journal")), None)
        check_files(ctx, db, wal, jr, {"replay": True})


# ------------------------------------------------------------------------------------ known findings
def _exc(f):
    return (f.get("case") or {}).get("exc") or {}


# every C08 finding is fixed (6eca1fa 0b2b453 1323ad4 4d9b308 1c3b10a 0d6a473 56bb962 a784e20): no matcher is left;
# the minimal inputs stay in corpus/C08 so that a regression is reported as a VIOLATION
MATCHERS = {}
