"""C15 — varint and serial-type codecs."""
import logging
import struct

from sqlite_dissect import utilities as U
from sqlite_dissect.carving import utilities as CU
from sqlite_dissect.exception import InvalidVarIntError

from ..impl.canon import err, guarded, hx, show_val
from ..leanio import driver
from ..gen.values import put_varint
from ..translate import pyfun

logging.getLogger("sqlite_dissect").setLevel(logging.CRITICAL + 1)
logging.getLogger("sqlite_dissect").addHandler(logging.NullHandler())

ID = "C15"
LEAN_MODULES = ["SqliteDissect.Properties.C15", "SqliteDissect.Properties.GenFun"]
TRANSLATORS = [pyfun]
TRUSTED_EXTRA = [pyfun.TRUSTED]
RULE = ("varint.dec: every 1- and 2-byte string (quick) / every string of <= 3 bytes (thorough) plus structured "
        "9/10-byte strings; varint.enc: +-2^k, +-2^k+-1 for k<=64 and random 64-bit; varint.rev: prefix||enc(v); "
        "serial.*: every serial type -3..300 plus boundaries with bodies of every short/exact/long length. "
        "non-trivial = distinct op line whose implementation result is not an error")
ASSUMPTIONS = [
    "struct.unpack('>d') is trusted: REAL values are compared as 64-bit patterns",
    "int((st-12)/2) uses float division: exact for serial types below 2^53 (SQLite's maximum length is 2^31)",
]


# ---------------------------------------------------------------- implementation side
def impl_dec(b, off):
    def f():
        v, n = U.decode_varint(b, off)
        return f"ok {v} {n}"
    return guarded(f)


def impl_enc(i):
    def f():
        out = U.encode_varint(i)
        res = "ok " + hx(out)
        # the caller owns the buffer it is given: a cell builder appends to it in place.  Every value is encoded more than
        # once per run (correspondence, then oracle), so a result that is shared between calls (memoised, a module-level
        # buffer) shows up as a wrong encoding the second time
        if isinstance(out, bytearray) and len(out):
            out[0] ^= 0xFF
            out += b"\xa5\x5a"
        return res
    return guarded(f)


def impl_rev(b, off, mx):
    def f():
        # mx None: the function's own default limit (what the carver uses)
        r = CU.decode_varint_in_reverse(bytearray(b), off) if mx is None else CU.decode_varint_in_reverse(bytearray(b), off, mx)
        if isinstance(r, InvalidVarIntError):
            # before fix 1c3b10a the exception object was RETURNED; the model now says `err parseError` there,
            # so a regression to the old behaviour shows up as a disagreement
            return "ok errobj"
        return f"ok {r[0]} {r[1]}"
    return guarded(f)


def impl_size(st):
    def f():
        r = CU.get_content_size(st)
        if isinstance(r, float):
            if r != int(r):
                return "ok float:%r" % r
            r = int(r)
        return f"ok {r}"
    return guarded(f)


def impl_sig(st):
    return guarded(lambda: f"ok {U.get_serial_type_signature(st)}")


def impl_content(st, body, off):
    def f():
        n, v = U.get_record_content(st, body, off)
        if isinstance(v, (bytes, bytearray)):
            kind = "blob" if st % 2 == 0 else "text"
            return f"ok {n} {kind}:{hx(v)}"
        return f"ok {n} {show_val(v)}"
    return guarded(f)


def impl_body(hdr):
    def f():
        r = CU.calculate_body_content_size(hdr)
        if isinstance(r, float):
            r = int(r)
        return f"ok {r}"
    return guarded(f)


def impl_overflow(n, ps):
    return guarded(lambda: "ok %d %d" % U.calculate_expected_overflow(n, ps))


# ---------------------------------------------------------------- generators
def boundary_ints():
    s = set()
    for k in range(0, 65):
        for d in (-2, -1, 0, 1, 2):
            s.add((1 << k) + d)
            s.add(-(1 << k) + d)
    s.update([0, 1, -1, 127, 128, 255, 256, 16383, 16384])
    return sorted(s)


def varint_strings(ctx):
    out = []
    for a in range(256):
        out.append(bytes([a]))
    for a in range(256):
        for b in range(256):
            out.append(bytes([a, b]))
    if ctx.tier == "thorough":
        for a in range(128, 256):
            for b in range(128, 256):
                for c in range(256):
                    out.append(bytes([a, b, c]))
    r = ctx.rng
    n = 40000 if ctx.thorough() else 6000
    for _ in range(n):
        ln = r.choice([0, 1, 3, 4, 7, 8, 9, 9, 10, 11])
        k = r.randint(0, ln)
        bs = bytes([r.randint(128, 255) for _ in range(k)] + [r.randint(0, 255) for _ in range(ln - k)])
        out.append(bs)
    return out


def run(ctx):
    r = ctx.rng
    cases = []
    # --- decode (all short strings + structured long ones); offset 0 and a shifted copy
    strs = varint_strings(ctx)
    for bs in strs:
        cases.append((f"varint.dec {hx(bs)} 0", impl_dec(bs, 0)))
    for bs in strs[:: 7]:
        off = r.randint(0, 3)
        pre = bytes(r.randint(0, 255) for _ in range(off))
        cases.append((f"varint.dec {hx(pre + bs)} {off}", impl_dec(pre + bs, off)))
        cases.append((f"varint.dec {hx(bs)} {len(bs) + r.randint(0, 2)}", impl_dec(bs, len(bs) + r.randint(0, 2))))
    ctx.differential(cases, "varint.dec")
    ndec = len(cases)

    # --- encode
    ints = boundary_ints() + [r.randint(-(1 << 63), (1 << 63) - 1) for _ in range(100000 if ctx.thorough() else 20000)]
    ints += [r.randint(0, 1 << r.randint(0, 64)) * r.choice([1, -1]) for _ in range(20000)]
    cases = [(f"varint.enc {i}", impl_enc(i)) for i in ints]
    ctx.differential(cases, "varint.enc")

    # --- oracle: encode == Spec.putVarint, decode(Spec.putVarint u ++ junk) == (i, len)
    inr = [i for i in ints if -(1 << 63) <= i < (1 << 63)]
    spec = driver.ask([f"spec.putvarint {i % (1 << 64)}" for i in inr])
    for i, sp in zip(inr, spec):
        ctx.mark(("enc-spec", i))
        e = impl_enc(i)
        if e != sp:
            ctx.oracle_fail("enc-spec", "encode_varint differs from SQLite's canonical varint",
                            {"op": "varint.enc", "value": i}, e, sp)
        enc = bytes.fromhex(sp[3:])
        junk = bytes(r.randint(0, 255) for _ in range(r.randint(0, 3)))
        d = impl_dec(enc + junk, 0)
        want = f"ok {i} {len(enc)}"
        if d != want:
            ctx.oracle_fail("dec-spec", "decode_varint does not invert SQLite's varint encoding",
                            {"op": "varint.dec", "hex": hx(enc + junk), "off": 0}, d, want)
    for i in [j for j in ints if not (-(1 << 63) <= j < (1 << 63))][:50]:
        e = impl_enc(i)
        if e != "err parseError":
            ctx.oracle_fail("enc-range", "encode_varint accepts a value outside the signed 64-bit range",
                            {"op": "varint.enc", "value": i}, e, "err parseError")
    # decode of arbitrary strings agrees with Spec.getVarint (including the "not shortest" ones)
    sub = strs[:: 3]
    spec = driver.ask([f"spec.getvarint {hx(bs)}" for bs in sub])
    for bs, sp in zip(sub, spec):
        ctx.mark(("dec-any", bs))
        d = impl_dec(bs, 0)
        want = sp if sp != "none" else "err typeError"
        if d != want:
            ctx.oracle_fail("dec-any", "decode_varint differs from SQLite's varint reader",
                            {"op": "varint.dec", "hex": hx(bs), "off": 0}, d, want)

    # --- reverse decode
    cases = []
    revs = []
    for _ in range(60000 if ctx.thorough() else 12000):
        v = r.randint(0, (1 << r.choice([7, 14, 21, 28, 35, 42, 49, 56, 56, 60, 64])) - 1)
        pre = bytes(r.randint(0, 255) for _ in range(r.choice([0, 0, 1, 2, 5, 12])))
        revs.append((v, pre))
    spec = driver.ask([f"spec.putvarint {v}" for v, _ in revs])
    for (v, pre), sp in zip(revs, spec):
        enc = bytes.fromhex(sp[3:])
        buf = pre + enc
        mx = r.choice([9, 9, 9, 5, 1, 0, 12])
        cases.append((f"varint.rev {hx(buf)} {len(buf)} {mx}", impl_rev(buf, len(buf), mx)))
        o2 = r.randint(0, len(buf) + 1)
        cases.append((f"varint.rev {hx(buf)} {o2} {mx}", impl_rev(buf, o2, mx)))
        if v < (1 << 56) and (not pre or pre[-1] < 0x80):
            ctx.mark(("rev-spec", v, pre))
            want = f"ok {v} {len(pre)}"
            for limit in (9, None):
                got = impl_rev(buf, len(buf), limit)
                if got != want:
                    ctx.oracle_fail("rev-spec", "reverse varint decode does not recover value/start of a <=8 byte varint",
                                    {"op": "varint.rev", "hex": hx(buf), "off": len(buf), "max": limit if limit else "default"}, got, want)
    ctx.differential(cases, "varint.rev")

    # --- serial types
    sts = list(range(-3, 301)) + [2 ** k + d for k in range(9, 53) for d in (-2, -1, 0, 1)] + \
          [2_000_000_012, 2_000_000_013, 4_294_967_308, 2 ** 31 * 2 + 13]
    cases = [(f"serial.size {st}", impl_size(st)) for st in sts]
    cases += [(f"serial.sig {st}", impl_sig(st)) for st in sts]
    ctx.differential(cases, "serial.size/sig")
    spec = driver.ask([f"spec.seriallen {st}" for st in sts])
    for st, sp in zip(sts, spec):
        ctx.mark(("len-spec", st))
        got = impl_size(st)
        want = sp if sp != "none" else "err valueError"
        if got != want:
            ctx.oracle_fail("len-spec", "content size differs from SQLite's serial type length",
                            {"op": "serial.size", "st": st}, got, want)
    cases = []
    ocases = []
    fixed = {1: 1, 2: 2, 3: 3, 4: 4, 5: 6, 6: 8, 7: 8}
    for st in list(range(-2, 80)) + [200, 201, 1000, 1001]:
        width = fixed.get(st, max(0, (st - 12) // 2) if st >= 12 else 0)
        for _ in range(40 if st in fixed else 6):
            ln = r.choice([width, width, width + 3, max(0, width - 1), 0, width + 1])
            pat = r.choice(["rand", "ff", "00", "80", "7f"])
            if pat == "rand":
                body = bytes(r.randint(0, 255) for _ in range(ln))
            elif pat == "ff":
                body = b"\xff" * ln
            elif pat == "00":
                body = b"\x00" * ln
            elif pat == "80":
                body = (b"\x80" + b"\x00" * ln)[:ln]
            else:
                body = (b"\x7f" + b"\xff" * ln)[:ln]
            off = r.choice([0, 0, 0, 1, 2])
            pre = bytes(r.randint(0, 255) for _ in range(off))
            cases.append((f"serial.content {st} {hx(pre + body)} {off}", impl_content(st, pre + body, off)))
            if ln == width and st >= 0 and st not in (10, 11):
                ocases.append((st, body))
    ctx.differential(cases, "serial.content")
    spec = driver.ask([f"spec.serialget {st} {hx(b)}" for st, b in ocases])
    for (st, b), sp in zip(ocases, spec):
        ctx.mark(("get-spec", st, b))
        got = impl_content(st, b, 0)
        want = f"ok {len(b)} {sp[3:]}" if sp != "none" else "err valueError"
        if got != want:
            ctx.oracle_fail("get-spec", "decoded value differs from SQLite's record format",
                            {"op": "serial.content", "st": st, "hex": hx(b), "off": 0}, got, want)
    # struct-based cross-check of the Spec itself (V): Python's struct is the reference for two's complement
    for (st, b), sp in zip(ocases, spec):
        if st in (1, 2, 4, 6):
            want = struct.unpack({1: ">b", 2: ">h", 4: ">i", 6: ">q"}[st], b)[0]
            if sp != f"ok int:{want}":
                ctx.spec_fail("Spec.serialGet differs from struct two's complement", {"st": st, "hex": hx(b)}, sp, want)
        if st in (3, 5):
            want = int.from_bytes(b, "big", signed=True)
            if sp != f"ok int:{want}":
                ctx.spec_fail("Spec.serialGet differs from int.from_bytes", {"st": st, "hex": hx(b)}, sp, want)

    # --- body size of a header
    cases = []
    for _ in range(20000 if ctx.thorough() else 4000):
        k = r.randint(0, 12)
        hdr = b""
        total = 0
        bad = False
        for _ in range(k):
            st = r.choice([0, 1, 2, 3, 4, 5, 6, 7, 8, 9, 12, 13, r.randint(12, 400), r.randint(12, 70000),
                           r.choice([10, 11]) if r.random() < 0.05 else 1])
            hdr += put_varint(st)
        if r.random() < 0.1:
            hdr += bytes([r.randint(128, 255)])
        if r.random() < 0.05:
            # garbage header: random varints of at most 6 bytes (serial types stay far below 2^53, where the
            # float arithmetic of get_content_size is exact: larger lengths are outside the property's quantifier)
            hdr = b""
            for _ in range(r.randint(0, 5)):
                hdr += put_varint(r.randint(0, (1 << r.choice([7, 14, 21, 28, 35, 42])) - 1))
            if r.random() < 0.3 and hdr:
                hdr = hdr[:-1]
        cases.append((f"serial.body {hx(hdr)}", impl_body(hdr)))
    ctx.differential(cases, "serial.body")
    # oracle: sum of Spec lengths
    for line, got in cases[:: 4]:
        hdr = bytes.fromhex(line.split()[1]) if line.split()[1] != "-" else b""
        # independent walk using Spec answers
        pos, total, ok = 0, 0, True
        while pos < len(hdr):
            sp = driver_cache_getvarint(hdr[pos:pos + 9])
            if sp is None:
                ok = False
                break
            v, n = sp
            ln = spec_len(v)
            if ln is None:
                ok = False
                break
            total += ln
            pos += n
        ctx.mark(("body-spec", hdr))
        if ok and got != f"ok {total}":
            ctx.oracle_fail("body-spec", "body size of a header is not the sum of its column sizes",
                            {"op": "serial.body", "hex": hx(hdr)}, got, f"ok {total}")
        if not ok and got.startswith("ok"):
            ctx.oracle_fail("body-spec", "body size computed for a header SQLite's format rejects",
                            {"op": "serial.body", "hex": hx(hdr)}, got, "err")

    # --- expected overflow (shared with C16)
    cases = []
    for ps in (512, 1024, 4096, 65536, 5, 6, 100):
        for n in list(range(-3, 40)) + [ps - 5, ps - 4, ps - 3, 2 * ps - 9, 2 * ps - 8, 2 * ps - 7, 10 * ps]:
            cases.append((f"overflow.expected {n} {ps}", impl_overflow(n, ps)))
    ctx.differential(cases, "overflow.expected")
    ctx.extra["decode_strings"] = ndec
    ctx.exhaustive = False
    ctx.notes.append("all 1- and 2-byte varint strings enumerated completely"
                     + ("; all 3-byte strings with two continuation bytes enumerated" if ctx.tier == "thorough" else ""))


_gv_cache = {}


def driver_cache_getvarint(bs):
    """Python transcription of Spec.getVarint used only to walk headers for the body-size oracle;
    cross-checked against the Lean Spec by the dec-any oracle above."""
    acc = 0
    for k, b in enumerate(bs):
        if k == 8:
            u = acc * 256 + b
            return (u - (1 << 64) if u >= (1 << 63) else u, 9)
        if b < 128:
            return (acc * 128 + b, k + 1)
        acc = acc * 128 + (b - 128)
    return None


def spec_len(st):
    if st < 0 or st in (10, 11):
        return None
    return [0, 1, 2, 3, 4, 6, 8, 8, 0, 0][st] if st < 10 else (st - 12) // 2


def search(ctx, broken):
    ctx.tier = "thorough"
    run(ctx)


def replay(ctx, data):
    f = data.get("failure") or {}
    case = f.get("case", {})
    op = case.get("op")
    if op == "varint.enc":
        i = case["value"]
        got = impl_enc(i)
        ctx.differential([(f"varint.enc {i}", got)], "replay")
        sp = driver.ask1(f"spec.putvarint {i % (1 << 64)}") if -(1 << 63) <= i < (1 << 63) else "err parseError"
        ctx.mark(("replay", i))
        if got != sp:
            ctx.oracle_fail(f.get("kind"), f.get("what"), case, got, sp)
    elif op == "varint.dec":
        b = bytes.fromhex(case["hex"]) if case["hex"] != "-" else b""
        got = impl_dec(b, case["off"])
        ctx.differential([(f"varint.dec {case['hex']} {case['off']}", got)], "replay")
        sp = driver.ask1(f"spec.getvarint {hx(b[case['off']:])}")
        want = sp if sp != "none" else "err typeError"
        ctx.mark(("replay", b))
        if got != want:
            ctx.oracle_fail(f.get("kind"), f.get("what"), case, got, want)
    else:
        ctx.notes.append("replay of this case kind re-runs the whole generator")
        run(ctx)


MATCHERS = {}
