"""WAL-index (`-shm`) helper for C17 (header fields) and C18 (scan bound): not a property of its own.

run_header(ctx) -> [(op_line, impl_output)]   `hdr.walindex <hex>`    WriteAheadLogIndexHeader(bytes)
run_scan(ctx, scratch) -> [(op_line, impl_output)]   `walindex.scan <path>`  WriteAheadLogIndex(path)

Both also compare the implementation with an oracle that does not share code with it (`struct` on the raw bytes; a
short re-implementation of the two loops; a counter wrapped around FileHandle.read_data) and report through
ctx.oracle_fail.  Canonical forms must match lean/Driver/WalIndex.lean.
"""
import hashlib
import logging
import os
import re
import sqlite3
import struct

from sqlite_dissect.constants import ENDIANNESS
from sqlite_dissect.file.file_handle import FileHandle
from sqlite_dissect.file.wal_index.header import WriteAheadLogIndexHeader
from sqlite_dissect.file.wal_index.wal_index import WriteAheadLogIndex

from ..impl.canon import err, guarded, hx
from .dbcommon import Scratch, keep_failing_files, replay_files

VERSION = 3007000
HEADER_LENGTH = 136
MASK64 = (1 << 64) - 1

# (name, offset inside a 48-byte copy, width)
SUB_FIELDS = [("fv", 0, 4), ("up", 4, 4), ("cc", 8, 4), ("in", 12, 1), ("cb", 13, 1), ("ps", 14, 2), ("mx", 16, 4),
              ("np", 20, 4), ("f1", 24, 4), ("f2", 28, 4), ("s1", 32, 4), ("s2", 36, 4), ("c1", 40, 4), ("c2", 44, 4)]
# every field of the 136 bytes: (name, absolute offset, width)
FIELDS = ([(f"{n}@{k}", 48 * k + o, w) for k in (0, 1) for n, o, w in SUB_FIELDS]
          + [("bf", 96, 4)] + [(f"rm{i}", 100 + 4 * i, 4) for i in range(5)] + [("lr", 120, 16)])


def fnv(values):
    h = 14695981039346656037
    for v in values:
        h = ((h ^ v) * 1099511628211) & MASK64
    return h


# ---------------------------------------------------------------------------------------------------------------
# implementation side
# ---------------------------------------------------------------------------------------------------------------
def show_sub(s):
    return (f"i{s.index},be{int(s.endianness == ENDIANNESS.BIG_ENDIAN)},fv{s.file_format_version},up{s.unused_padding_field},"
            f"cc{s.change_counter},in{s.initialized},cb{s.checksums_in_big_endian},ps{s.page_size},"
            f"mx{s.last_valid_frame_index},np{s.database_size_in_pages},f{s.frame_checksum_1}/{s.frame_checksum_2},"
            f"s{s.salt_1}/{s.salt_2},c{s.checksum_1}/{s.checksum_2}")


def show_hdr(h, raw):
    """canonical form of a WriteAheadLogIndexHeader built from `raw`.  The model carries the md5 *input*; the digests the
    implementation reports are checked against hashlib here and replaced by length:fnv of the bytes they cover"""
    ck = h.checkpoint_info
    md5_ok = (h.md5_hex_digest == hashlib.md5(raw).hexdigest().upper()
              and all(s.md5_hex_digest == hashlib.md5(raw[48 * i:48 * i + 48]).hexdigest().upper() for i, s in enumerate(h.sub_headers))
              and ck.md5_hex_digest == hashlib.md5(raw[96:120]).hexdigest().upper())
    rawtxt = f"{len(raw)}:{fnv(raw)}" if md5_ok else "md5-mismatch"
    return (f"ps={h.page_size};be={int(h.endianness == ENDIANNESS.BIG_ENDIAN)};sub=[{'|'.join(show_sub(s) for s in h.sub_headers)}];"
            f"cbe={int(ck.endianness == ENDIANNESS.BIG_ENDIAN)};bf={ck.number_of_frames_backfilled_in_database};"
            f"rm={'/'.join(str(m) for m in ck.reader_marks)};lr={hx(h.lock_reserved)};raw={rawtxt}")


def impl_header(b):
    return guarded(lambda: "ok " + show_hdr(WriteAheadLogIndexHeader(b), b))


class _Capture(logging.Handler):
    def __init__(self):
        super().__init__(logging.DEBUG)
        self.entries = []        # (offset, page, key) of the `Entry …` lines
        self.numbers = []        # (ordinal, offset, value) of the `Number …` lines
        self.total = None

    def emit(self, record):
        m = record.getMessage()
        if m.startswith("Entry "):
            # Entry {i} at offset: {start} is page #{data} with key of {key}.
            w = m.split()
            self.entries.append((int(w[4]), int(w[7][1:]), int(w[-1].rstrip("."))))
        elif m.startswith("Number of entries found: "):
            self.total = int(m.split(": ")[1].rstrip("."))
        elif m.startswith("Number "):
            # Number {n}: {i} at offset: {off} with relative offset: {..} index (/2): {..} and N#: {data}
            w = m.split()
            self.numbers.append((int(w[1].rstrip(":")), int(w[5]), int(w[-1])))


def impl_scan(path):
    """WriteAheadLogIndex(path) with FileHandle.read_data counted and the debug log captured.
    -> (canonical output, number of read_data calls)"""
    lg = logging.getLogger("sqlite_dissect")
    cap = _Capture()
    level = lg.level
    reads = [0]
    original = FileHandle.read_data

    def counted(self, offset, number_of_bytes):
        reads[0] += 1
        return original(self, offset, number_of_bytes)

    FileHandle.read_data = counted
    lg.addHandler(cap)
    lg.setLevel(logging.DEBUG)
    obj = None
    try:
        try:
            obj = WriteAheadLogIndex(path)
        except RecursionError as e:
            return f"{err(e)} reads={reads[0]}", reads[0]
        except Exception as e:  # noqa
            return f"{err(e)} reads={reads[0]}", reads[0]
        finally:
            FileHandle.read_data = original
            lg.removeHandler(cap)
            lg.setLevel(level)
        fh = obj._file_handle
        with open(path, "rb") as f:
            raw = f.read(HEADER_LENGTH)
        if cap.total is None or cap.total != len(cap.numbers) or [n for n, _, _ in cap.numbers] != list(range(1, len(cap.numbers) + 1)):
            return f"err log-inconsistent reads={reads[0]}", reads[0]
        ents = cap.entries
        z = ents[-1][0] + 4 if ents else HEADER_LENGTH
        if [o for o, _, _ in ents] != list(range(HEADER_LENGTH, z, 4)):
            return f"err log-inconsistent reads={reads[0]}", reads[0]
        ek = [x for _, p, k in ents for x in (p, k)]
        fl = [x for _, o, v in cap.numbers for x in (o, v)]
        e16 = ",".join(f"{p}:{k}" for _, p, k in ents[:16])
        f16 = ",".join(f"{o}:{v}" for _, o, v in cap.numbers[:16])
        out = (f"ok reads={reads[0]} n={len(ents)} eh={fnv(ek)} z={z} nf={cap.total} fh={fnv(fl)} e=[{e16}] f=[{f16}] "
               f"hdr={show_hdr(fh.header, raw)}")
        return out, reads[0]
    finally:
        if obj is not None:
            try:
                obj._file_handle.file_object.close()
            except Exception:  # noqa
                pass


# ---------------------------------------------------------------------------------------------------------------
# oracles (no sqlite_dissect code)
# ---------------------------------------------------------------------------------------------------------------
def oracle_header(b):
    """-> ("ok", {field: value}) or ("err", class) from the bytes alone (native little-endian `struct`)"""
    if len(b) != HEADER_LENGTH:
        return "err", "valueError"
    for k in (0, 1):
        if struct.unpack_from("<I", b, 48 * k)[0] != VERSION:
            return "err", ("notImplemented" if struct.unpack_from(">I", b, 48 * k)[0] == VERSION else "parseError")
    vals = {}
    for name, off, width in FIELDS:
        vals[name] = b[off:off + 16] if name == "lr" else struct.unpack_from({1: "<B", 2: "<H", 4: "<I"}[width], b, off)[0]
    return "ok", vals


def parse_hdr_output(txt):
    """field dictionary (same keys as oracle_header) out of the canonical `ps=…;…` form"""
    kv = dict(x.split("=", 1) for x in txt.split(";"))
    vals = {"_ps": int(kv["ps"]), "_be": int(kv["be"]), "_cbe": int(kv["cbe"])}
    for k, sub in enumerate(kv["sub"][1:-1].split("|")):
        d = dict(re.match(r"([a-z]+)(.*)$", p).groups() for p in sub.split(","))
        vals[f"_i@{k}"] = int(d["i"])
        vals[f"_be@{k}"] = int(d["be"])
        for n in ("fv", "up", "cc", "in", "cb", "ps", "mx", "np"):
            vals[f"{n}@{k}"] = int(d[n])
        for n, pair in (("f", d["f"]), ("s", d["s"]), ("c", d["c"])):
            a, c = pair.split("/")
            vals[f"{n}1@{k}"] = int(a)
            vals[f"{n}2@{k}"] = int(c)
    vals["bf"] = int(kv["bf"])
    for i, m in enumerate(kv["rm"].split("/")):
        vals[f"rm{i}"] = int(m)
    vals["lr"] = bytes.fromhex(kv["lr"]) if kv["lr"] != "-" else b""
    vals["_raw"] = kv["raw"]
    return vals


def check_header(ctx, b, out, case):
    """oracle comparison for one header byte string; returns True when accepted"""
    kind, want = oracle_header(b)
    if kind == "err":
        if out != "err " + want:
            ctx.oracle_fail("walindex-header-class", "WAL-index header: outcome differs from the format rule "
                            "(136 bytes, iVersion 3007000 little-endian in both copies; big-endian refused)", case, out, "err " + want)
        return False
    if not out.startswith("ok "):
        ctx.oracle_fail("walindex-header-rejected", "a WAL-index header satisfying the rules the code checks is rejected", case, out, "ok")
        return False
    got = parse_hdr_output(out[3:])
    for name, off, width in FIELDS:
        if got[name] != want[name]:
            ctx.oracle_fail("walindex-field", f"reported WAL-index header field {name} differs from the little-endian value at offset {off}",
                            case, got[name], want[name])
    derived = {"_ps": want["ps@0"], "_be": 0, "_cbe": 0, "_i@0": 0, "_i@1": 1, "_be@0": 0, "_be@1": 0, "_raw": f"{len(b)}:{fnv(b)}"}
    for name, v in derived.items():
        if got[name] != v:
            ctx.oracle_fail("walindex-field", f"reported WAL-index header attribute {name} is not what the bytes say", case, got[name], v)
    return True


def oracle_scan(b):
    """the two loops over the raw bytes -> (outcome, reads): outcome = ("ok", entries, zero offset, found) | ("err", class)"""
    kind, want = oracle_header(b[:HEADER_LENGTH])
    if kind == "err":
        return ("err", want), 0
    off, entries = HEADER_LENGTH, []
    while off + 4 <= len(b) and b[off:off + 4] != b"\0\0\0\0":
        entries.append(int.from_bytes(b[off:off + 4], "little"))
        off += 4
    reads = len(entries) + 1
    if off + 4 > len(b):
        return ("err", "eofError"), reads
    reads += (len(b) - off + 1) // 2
    if (len(b) - off) % 2:
        return ("err", "eofError"), reads
    found = [(o, int.from_bytes(b[o:o + 2], "little")) for o in range(off, len(b), 2) if b[o:o + 2] != b"\0\0"]
    return ("ok", entries, off, found), reads


def read_bound(size):
    return max(0, size - HEADER_LENGTH) // 4 + size // 2 + 2


def check_scan(ctx, b, out, reads, case):
    want, want_reads = oracle_scan(b)
    bound = read_bound(len(b))
    if reads > bound:
        ctx.oracle_fail("walindex-reads", f"WriteAheadLogIndex made {reads} read_data calls on a {len(b)}-byte file: more than "
                        f"(size-136)//4 + size//2 + 2 = {bound}", case, reads, bound)
    if reads != want_reads:
        ctx.oracle_fail("walindex-reads-exact", "number of read_data calls differs from the count the two loops need", case, reads, want_reads)
    if want[0] == "err":
        if not out.startswith("err " + want[1] + " "):
            ctx.oracle_fail("walindex-scan-class", "WAL-index scan: outcome class differs from the re-implementation", case, out[:120], want)
        return False
    _, entries, z, found = want
    if not out.startswith("ok "):
        ctx.oracle_fail("walindex-scan-rejected", "WAL-index scan fails on a file the re-implementation walks to the end", case, out[:120], "ok")
        return False
    ek = [x for p in entries for x in (p, (p * 383) & 8191)]
    fl = [x for o, v in found for x in (o, v)]
    head = f"ok reads={want_reads} n={len(entries)} eh={fnv(ek)} z={z} nf={len(found)} fh={fnv(fl)} "
    if not out.startswith(head):
        ctx.oracle_fail("walindex-scan-result", "WAL-index scan: entries / zero offset / non-zero u16 differ from the re-implementation",
                        case, out[:200], head)
    return True


# ---------------------------------------------------------------------------------------------------------------
# inputs
# ---------------------------------------------------------------------------------------------------------------
def real_shm_files(r, scratch_dir, thorough=False):
    """-shm files written by SQLite in WAL mode, copied while the connection is open -> [(description, bytes)]"""
    out = []
    shapes = [(512, 40, None), (1024, 200, "PASSIVE"), (4096, 30, None), (4096, 300, "RESTART"), (8192, 10, "FULL"),
              (65536, 6, None), (512, 3000, None)]
    if thorough:
        shapes += [(2048, 800, "TRUNCATE"), (16384, 50, "PASSIVE"), (32768, 20, None), (1024, 6000, "PASSIVE")]
    for i, (ps, rows, ckpt) in enumerate(shapes):
        p = os.path.join(scratch_dir, f"shm{i}.db")
        con = sqlite3.connect(p, isolation_level=None)
        try:
            con.execute(f"PRAGMA page_size={ps}")
            con.execute("PRAGMA journal_mode=WAL")
            con.execute("PRAGMA wal_autocheckpoint=0")
            con.execute("CREATE TABLE t(a INTEGER PRIMARY KEY, b TEXT, c BLOB)")
            con.execute("CREATE INDEX i ON t(b)")
            done = 0
            for chunk in range(4):
                n = rows // 4 + 1
                con.execute("BEGIN")
                for _ in range(n):
                    con.execute("INSERT INTO t(b, c) VALUES (?, ?)",
                                ("x" * r.randint(1, 60), bytes(r.randint(0, 255) for _ in range(r.randint(0, 120)))))
                con.execute("COMMIT")
                done += n
                if ckpt and chunk == 1:
                    con.execute(f"PRAGMA wal_checkpoint({ckpt})").fetchall()
                if chunk in (0, 3) or (ckpt and chunk == 2):
                    with open(p + "-shm", "rb") as fh:
                        out.append(({"real": True, "page_size": ps, "rows": done, "checkpoint": ckpt if chunk >= 1 else None,
                                     "after_chunk": chunk}, fh.read()))
        finally:
            con.close()
    return out


def field_values(r, width):
    mx = (1 << (8 * width)) - 1
    base = {0, 1, 2, 127, 128, 255, 256, 511, 512, 4096, 32768, 65535, 65536, VERSION, VERSION - 1, VERSION + 1,
            int.from_bytes(VERSION.to_bytes(4, "big"), "little"), 0x7FFFFFFF, 0x80000000, mx, mx - 1, mx // 2, mx // 2 + 1}
    return sorted(v for v in base if v <= mx) + [r.randint(0, mx) for _ in range(4)]


def header_mutations(r, hdr, thorough=False):
    """every field perturbed with boundary and random values (both byte orders), every length 0..200"""
    muts = [hdr]
    for name, off, width in FIELDS:
        if name == "lr":
            for k in range(width):
                for v in (0, 1, 255, r.randint(0, 255)):
                    m = bytearray(hdr)
                    m[off + k] = v
                    muts.append(bytes(m))
            continue
        for v in field_values(r, width):
            for order in ("little", "big"):
                m = bytearray(hdr)
                m[off:off + width] = v.to_bytes(width, order)
                muts.append(bytes(m))
    # both copies at once: every combination of {good, big-endian good, bad} for the two version fields
    forms = [VERSION.to_bytes(4, "little"), VERSION.to_bytes(4, "big"), b"\0\0\0\0", bytes(r.randint(0, 255) for _ in range(4))]
    for a in forms:
        for c in forms:
            m = bytearray(hdr)
            m[0:4] = a
            m[48:52] = c
            muts.append(bytes(m))
    # single byte of the version fields, every value
    for off in (0, 1, 2, 3, 48, 49, 50, 51):
        for v in range(256):
            m = bytearray(hdr)
            m[off] = v
            muts.append(bytes(m))
    for ln in range(0, 201):
        muts.append((hdr * 2)[:ln])
    for _ in range(2000 if thorough else 200):
        m = bytearray(hdr)
        for _ in range(r.randint(1, 4)):
            m[r.randrange(len(m))] = r.randint(0, 255)
        muts.append(bytes(m))
    return muts


def run_header(ctx):
    """cases for ctx.differential(cases, "hdr.walindex"); oracle failures are reported on ctx"""
    r = ctx.rng
    sc = Scratch()
    try:
        reals = real_shm_files(r, sc.dir, ctx.thorough())
    finally:
        sc.close()
    headers = list(dict.fromkeys(b[:HEADER_LENGTH] for _, b in reals if len(b) >= HEADER_LENGTH))
    for desc, b in reals:
        # SQLite's own invariants for the file it wrote: both copies equal, page size as configured
        if b[0:48] != b[48:96]:
            ctx.notes.append("walindex: a copied -shm has two different header copies (writer was mid-update)")
        ps = struct.unpack_from("<H", b, 14)[0]
        if (ps & 0xFE00) + ((ps & 1) << 16) != desc["page_size"]:
            ctx.spec_fail("szPage of a -shm written by SQLite is not the configured page size", desc, ps, desc["page_size"])
    muts = []
    for i, h in enumerate(headers):
        if i < 3 or ctx.thorough():
            muts += header_mutations(r, h, ctx.thorough())
        else:
            muts.append(h)
    muts.append(bytes(range(136)))
    muts.append(VERSION.to_bytes(4, "little") + bytes(44) + VERSION.to_bytes(4, "little") + bytes(84))
    muts = list(dict.fromkeys(muts))
    cases = []
    for m in muts:
        out = impl_header(m)
        case = {"walindex_hex": hx(m)}
        ok = check_header(ctx, m, out, case)
        ctx.mark(("walindex-hdr", m), nontrivial=ok)
        ctx.branch("walindex-hdr:" + (out if out.startswith("err") else "ok"))
        cases.append((f"hdr.walindex {hx(m)}", out))
    return cases


def scan_inputs(ctx, scratch_dir):
    """[(description, bytes)] for the scan: real files, perturbed fields, truncations, odd sizes, no zero word, 1 MiB"""
    r = ctx.rng
    reals = real_shm_files(r, scratch_dir, ctx.thorough())
    out = list(reals)
    good = next(b for _, b in reals if len(b) >= HEADER_LENGTH)
    hdr = good[:HEADER_LENGTH]
    # header fields perturbed in place (the scan then fails in FileHandle.__init__, or goes on with other values)
    for name, off, width in FIELDS:
        for v in ([0, 1, (1 << (8 * width)) - 1, r.randint(0, (1 << (8 * width)) - 1)] if name != "lr" else [0]):
            m = bytearray(good)
            m[off:off + width] = v.to_bytes(width, "little")
            out.append(({"perturb": name, "value": v}, bytes(m)))
    m = bytearray(good)
    m[0:4] = VERSION.to_bytes(4, "big")
    out.append(({"perturb": "fv@0", "value": "big-endian"}, bytes(m)))
    m = bytearray(good)
    m[48:52] = VERSION.to_bytes(4, "big")
    out.append(({"perturb": "fv@1", "value": "big-endian"}, bytes(m)))
    # every word / slot position right after the header perturbed
    for off in list(range(136, 160)) + [r.randrange(136, len(good)) for _ in range(40)]:
        for v in (0, 1, 255):
            m = bytearray(good)
            m[off] = v
            out.append(({"perturb": f"byte@{off}", "value": v}, bytes(m)))
    # truncations at every length 0..200 and random lengths (odd ones included)
    for di, (desc, b) in enumerate(reals[:2]):
        for ln in range(0, 201):
            out.append(({"truncate": ln, "of": di}, b[:ln]))
    for _ in range(60):
        di = r.randrange(len(reals))
        ln = r.randint(0, len(reals[di][1]))
        out.append(({"truncate": ln, "of": di}, reals[di][1][:ln]))
    # synthetic: header + k non-zero words [+ zero word] + tail
    for k in list(range(0, 9)) + [63, 64, 100, 1000, 4062]:
        words = b"".join(struct.pack("<I", r.choice([1, 2, 0xFFFFFFFF, 0x10000, 0x01000000, r.randint(1, 2 ** 32 - 1)])) for _ in range(k))
        for tail_kind in ("none", "zero-only", "zero+zeros", "zero+random", "zero+random-odd", "no-zero-odd1", "no-zero-odd3", "zero-short"):
            if tail_kind == "none":
                tail = b""
            elif tail_kind == "zero-only":
                tail = bytes(4)
            elif tail_kind == "zero+zeros":
                tail = bytes(4 + 2 * r.randint(1, 40))
            elif tail_kind == "zero+random":
                tail = bytes(4) + bytes(r.choice([0, 0, r.randint(0, 255)]) for _ in range(2 * r.randint(1, 200)))
            elif tail_kind == "zero+random-odd":
                tail = bytes(4) + bytes(r.randint(0, 255) for _ in range(2 * r.randint(0, 50) + 1))
            elif tail_kind == "no-zero-odd1":
                tail = b"\x07"
            elif tail_kind == "no-zero-odd3":
                tail = b"\x07\x00\x00"
            else:
                tail = bytes(r.randint(1, 3))
            out.append(({"synthetic": k, "tail": tail_kind}, hdr + words + tail))
    # zero word not aligned with the u32 grid: 00 00 straddling two words must not stop the first loop
    out.append(({"synthetic": "straddle"}, hdr + b"\x01\x01\x00\x00" + b"\x00\x00\x01\x01" + bytes(4) + b"\x05\x00"))
    # random short bodies over a zero-heavy alphabet (every interleaving of zero / non-zero words and slots, any parity)
    for _ in range(5000 if ctx.thorough() else 400):
        body = bytes(r.choice([0, 0, 0, 1, 255, r.randint(0, 255)]) for _ in range(r.randint(0, 48)))
        out.append(({"synthetic": "random-body"}, hdr + body))
    # 1 MiB files (for the bound): no zero word at all (even / odd size), zero word at the very end, zero word in the middle
    mib = 1 << 20
    body = (b"\x01\x02\x03\x04" * (mib // 4))[: mib - HEADER_LENGTH]
    out.append(({"mib": "no-zero"}, hdr + body))
    out.append(({"mib": "no-zero-odd"}, hdr + body[:-1]))
    out.append(({"mib": "zero-at-end"}, hdr + body[:-4] + bytes(4)))
    half = (len(body) // 8) * 4
    out.append(({"mib": "zero-in-middle"}, hdr + body[:half] + bytes(4) + body[half + 4:]))
    out.append(({"mib": "zero-first"}, hdr + bytes(4) + body[4:]))
    rnd = bytes(r.randint(1, 255) for _ in range(4096)) * ((mib - HEADER_LENGTH) // 4096)
    out.append(({"mib": "random-nonzero-bytes"}, hdr + rnd))
    return out


def run_scan(ctx, scratch):
    """cases for ctx.differential(cases, "walindex.scan"); `scratch` (dbcommon.Scratch) must outlive the differential
    call because the model reads the files by path"""
    cases = []
    seen = set()
    worst = 0.0
    for i, (desc, b) in enumerate(scan_inputs(ctx, scratch.dir)):
        key = hashlib.sha1(b).digest()
        if key in seen:
            continue
        seen.add(key)
        p = scratch.path(f"wi{i}.db-shm")
        with open(p, "wb") as fh:
            fh.write(b)
        out, reads = impl_scan(p)
        case = dict(desc, walindex=True, size=len(b))
        if len(b) <= 400:
            case["walindex_file_hex"] = hx(b)
        n0 = len(ctx.oracle_failures)
        ok = check_scan(ctx, b, out, reads, case)
        if len(ctx.oracle_failures) > n0:
            keep_failing_files(ctx, n0, p)
        ctx.mark(("walindex-scan", key), nontrivial=ok)
        ctx.branch("walindex-scan:" + (out.split(" reads=")[0] if out.startswith("err") else "ok"))
        if len(b) > HEADER_LENGTH:
            worst = max(worst, reads / read_bound(len(b)))
        cases.append((f"walindex.scan {p}", out))
    ctx.extra["walindex_reads_over_bound_max"] = round(worst, 4)
    return cases


def replay_header(ctx, case):
    m = bytes.fromhex(case["walindex_hex"]) if case["walindex_hex"] != "-" else b""
    out = impl_header(m)
    check_header(ctx, m, out, case)
    ctx.mark(("walindex-replay", m))
    ctx.differential([(f"hdr.walindex {hx(m)}", out)], "replay")


def replay_scan(ctx, data):
    case = (data.get("failure") or {}).get("case", {})
    files = replay_files(data)
    if "walindex_file_hex" in case:
        b = bytes.fromhex(case["walindex_file_hex"]) if case["walindex_file_hex"] != "-" else b""
    elif files and os.path.exists(files[0]):
        b = open(files[0], "rb").read()
    else:
        ctx.notes.append("walindex replay: the failing file was not kept")
        return
    sc = Scratch()
    try:
        p = sc.path("replay.db-shm")
        with open(p, "wb") as fh:
            fh.write(b)
        out, reads = impl_scan(p)
        check_scan(ctx, b, out, reads, case)
        ctx.mark(("walindex-replay", b))
        ctx.differential([(f"walindex.scan {p}", out)], "replay")
    finally:
        sc.close()
