"""The option lattice run by C04 and C12, and the per-run pre/post processing done inside the worker."""
import itertools
import os

from . import clicommon as K

FORMAT_SETS = [["csv"], ["sqlite"], ["xlsx"], ["text"], ["csv", "sqlite"], ["text", "csv"], ["sqlite", "xlsx"],
               ["csv", "xlsx"], ["text", "xlsx"], ["text", "sqlite"], ["text", "csv", "sqlite", "xlsx"], ["csv", "csv"],
               ["xlsx", "text", "sqlite", "csv"]]
ALL4 = ["text", "csv", "sqlite", "xlsx"]


def O(**kw):
    d = dict(dir=None, prefix=None, export=None, nj=False, wal=None, rj=None, ex=None, tables=None, sig=False,
             carve=False, fl=False, log=None, level=None)
    d.update(kw)
    return d


def spec(rid, ev, opts, form="argv", **kw):
    s = {"id": rid, "ev": ev, "opts": opts, "form": form}
    s.update(kw)
    return s


def quick_specs():
    S = []
    evs = itertools.cycle(["plain", "wal", "plain4k", "journal"])
    forms = itertools.cycle(["argv", "env", "config"])
    # formats (singles, pairs, all, duplicates, permuted) x evidence x form
    for i, fm in enumerate(FORMAT_SETS):
        S.append(spec(f"fmt{i}", next(evs), O(dir="{out}", export=fm), next(forms), group="formats"))
    S.append(spec("console-default", "plain", O(), group="formats"))
    S.append(spec("console-empty-e", "wal", O(export=[]), group="formats"))
    S.append(spec("console-text", "journal", O(export=["text"], tables="t0"), group="formats"))
    S.append(spec("case-only", "wal", O(dir="{out}", export=["case"]), group="formats"))
    S.append(spec("case-csv", "plain", O(dir="{out}", export=["csv", "case"], tables="t2"), "env", group="formats"))
    # an evidence file of more than 8 MiB (restricted to a small table: the bulk table is parsed, not exported)
    S.append(spec("large-csv", "large", O(dir="{out}", export=["csv", "text"], tables="t2"), group="formats"))
    # formats are independent (same evidence: plain)
    for name, fm in (("csv", ["csv"]), ("sqlite", ["sqlite"]), ("text", ["text"]), ("xlsx", ["xlsx"]), ("all", ALL4)):
        S.append(spec(f"ind-{name}", "plain", O(dir="{out}", export=fm), group="independent"))
    # --tables restricts
    for ev in ("plain", "wal"):
        S.append(spec(f"tab-{ev}-all", ev, O(dir="{out}", export=["csv", "sqlite", "text"]), group="tables"))
        S.append(spec(f"tab-{ev}-sel", ev, O(dir="{out}", export=["csv", "sqlite", "text"], tables="t0,i0"), group="tables"))
        S.append(spec(f"tab-{ev}-one", ev, O(dir="{out}", export=["csv", "sqlite", "text"], tables="t1"), "env", group="tables"))
        S.append(spec(f"tab-{ev}-none", ev, O(dir="{out}", export=["csv", "sqlite", "text"], tables="nosuch"), "config", group="tables"))
    S.append(spec("tab-view", "plain", O(dir="{out}", export=["csv", "text"], tables="v0,w0,tr0"), group="tables"))
    # journal selection
    S.append(spec("nj-wal", "wal", O(dir="{out}", export=["csv", "sqlite"], nj=True), group="journal"))
    S.append(spec("dbonly-wal", "wal", O(dir="{out}", export=["csv", "sqlite"]), only=["hist.db"], group="journal"))
    S.append(spec("auto-wal", "wal", O(dir="{out}", export=["csv", "sqlite"]), group="journal"))
    S.append(spec("expl-wal", "wal", O(dir="{out}", export=["csv", "sqlite"], wal="{db}-wal"), group="journal"))
    S.append(spec("moved-wal", "wal", O(dir="{out}", export=["csv", "sqlite"], wal="{ev}/elsewhere.bin"), "env",
                  copy=[("hist.db-wal", "elsewhere.bin")], remove=["hist.db-wal"], group="journal"))
    S.append(spec("nj-jn", "journal", O(dir="{out}", export=["csv", "sqlite"], nj=True), "config", group="journal"))
    S.append(spec("dbonly-jn", "journal", O(dir="{out}", export=["csv", "sqlite"]), only=["jn.db"], group="journal"))
    S.append(spec("auto-jn", "journal", O(dir="{out}", export=["sqlite"]), group="journal"))
    S.append(spec("expl-jn", "journal", O(dir="{out}", export=["sqlite"], rj="{db}-journal"), group="journal"))
    S.append(spec("jn-carve", "journal", O(dir="{out}", export=["sqlite"], carve=True), group="journal"))
    S.append(spec("jn-carve-ex", "journal", O(dir="{out}", export=["sqlite"], carve=True, ex="t2"), group="journal"))
    S.append(spec("jn-carve-nodir", "journal", O(carve=True, tables="t2"), group="journal"))
    S.append(spec("wal0", "wal0", O(dir="{out}", export=["csv"]), group="journal"))
    S.append(spec("jn0", "jn0", O(dir="{out}", export=["csv"], carve=False), group="journal"))
    S.append(spec("both-auto", "both", O(dir="{out}", export=["csv"]), group="refusal"))
    S.append(spec("both-nj", "both", O(dir="{out}", export=["sqlite"], nj=True), group="journal"))
    S.append(spec("both-w", "both", O(dir="{out}", export=["sqlite"], wal="{db}-wal"), group="journal"))
    # carving only adds (sqlite + text here; CSV: ind-csv versus carve-csv)
    for ev in ("plain", "wal"):
        S.append(spec(f"carve-{ev}-0", ev, O(dir="{out}", export=["sqlite", "text"]), group="carve"))
        S.append(spec(f"carve-{ev}-c", ev, O(dir="{out}", export=["sqlite", "text"], carve=True), group="carve"))
        S.append(spec(f"carve-{ev}-cf", ev, O(dir="{out}", export=["sqlite", "text"], carve=True, fl=True), "env", group="carve"))
    S.append(spec("carve-plain-sig", "plain", O(dir="{out}", export=["sqlite", "text"], sig=True), group="carve"))
    S.append(spec("carve-plain-tab", "plain", O(dir="{out}", export=["sqlite", "text"], carve=True, tables="t0"), group="carve"))
    S.append(spec("carve-csv", "plain", O(dir="{out}", export=["csv"], carve=True), group="carve"))
    # signature-less tables first in the schema, deleted rows of a later table on freelist pages
    S.append(spec("carve-fl-csv", "freelist", O(dir="{out}", export=["csv", "sqlite"], carve=True, fl=True), group="carve"))
    S.append(spec("carve-fl-text", "freelist", O(dir="{out}", export=["text", "xlsx"], carve=True, fl=True), "config", group="carve"))
    S.append(spec("carve-xlsx", "plain", O(dir="{out}", export=["xlsx"], carve=True, tables="t2"), group="carve"))
    # prefix
    S.append(spec("pfx-plain", "plain", O(dir="{out}", export=ALL4, prefix="pre"), group="prefix"))
    S.append(spec("pfx-space", "plain", O(dir="{out}", export=["csv", "text"], prefix="pre fix"), "env", group="prefix"))
    S.append(spec("pfx-config", "wal", O(dir="{out}", export=["csv", "sqlite"], prefix="cfgp"), "config", group="prefix"))
    S.append(spec("pfx-dotdot", "plain", O(dir="{out}", export=["text"], prefix="../esc"), group="prefix"))
    S.append(spec("pfx-abs", "plain", O(dir="{out}", export=["csv"], prefix="{cwd}/abs", tables="t2"), group="prefix"))
    S.append(spec("pfx-sub", "plain", O(dir="{out}", export=["sqlite"], prefix="sub/x"), group="prefix"))
    # nested / existing output directory; existing exports are renamed
    S.append(spec("dir-nested", "plain", O(dir="{out}/deep/er", export=["csv"], tables="t2"), group="dirs"))
    S.append(spec("dir-exists", "plain", O(dir="{out}", export=["csv", "text"], tables="t2"), pre_out="empty", group="dirs"))
    S.append(spec("dir-rename", "plain", O(dir="{out}", export=ALL4, tables="t2"), pre_out="files",
                  pre_files=["plain.db.txt", "plain.db-sqlite-dissect.db3", "plain.db.xlsx", "plain.db-t2.csv"], group="dirs"))
    S.append(spec("dir-slash", "plain", O(dir="{out}/", export=["csv", "text"], tables="t2"), group="dirs"))
    S.append(spec("rel-paths", "plain", O(dir="../out", export=["csv"], tables="t2", log="../logs/rel.log"), group="dirs",
                  relative_db=True, no_model=True))
    # logging
    S.append(spec("log-debug", "plain", O(dir="{out}", export=["csv"], tables="t2", log="{log}", level="debug"), group="log"))
    S.append(spec("log-append", "wal", O(dir="{out}", export=["text"], tables="t2", log="{log}", level="info"), "env",
                  pre_log=True, group="log"))
    S.append(spec("log-off", "plain", O(log="{log}", tables="t2"), group="log"))
    # refusals / invalid combinations (listing before/after)
    R = "refusal"
    S.append(spec("ref-fl", "plain", O(dir="{out}", fl=True, log="{log}"), group=R))
    S.append(spec("ref-fl-env", "plain", O(dir="{out}", fl=True), "env", group=R))
    S.append(spec("ref-nodir", "plain", O(export=["csv"]), group=R))
    S.append(spec("ref-nodir2", "plain", O(export=["text", "text"], log="{log}"), "config", group=R))
    S.append(spec("ref-prefix", "plain", O(prefix="p"), group=R))
    S.append(spec("ref-exempt", "plain", O(dir="{out}", export=["csv"], ex="t0"), group=R))
    S.append(spec("ref-exempt-nj", "journal", O(dir="{out}", export=["csv"], ex="t0", nj=True), group=R))
    S.append(spec("ref-exempt-wal", "wal", O(dir="{out}", export=["csv"], ex="t0", wal="{db}-wal"), group=R))
    S.append(spec("ref-exempt-exists", "plain", O(dir="{out}", export=["csv"], ex="t0"), pre_out="empty", group=R))
    S.append(spec("ref-wal-missing", "plain", O(dir="{out}", export=["csv"], wal="{ev}/nope-wal"), group=R))
    S.append(spec("ref-jn-missing", "plain", O(dir="{out}", export=["csv"], rj="{ev}/nope-journal", log="{log}"), "env", group=R))
    S.append(spec("ref-usage-nw", "wal", O(dir="{out}", nj=True, wal="{db}-wal"), group=R, no_model=True))
    S.append(spec("ref-usage-wj", "wal", O(dir="{out}", wal="{db}-wal", rj="{db}-wal"), "env", group=R, no_model=True))
    S.append(spec("ref-usage-rb", "journal", O(dir="{out}", ex="t0", tables="t2"), group=R, no_model=True))
    S.append(spec("ref-usage-choice", "plain", O(dir="{out}", export=["pdf"]), group=R, no_model=True))
    S.append(spec("ref-usage-mixed", "wal", O(dir="{out}", nj=True), "argv", env={"SQLD_WAL": "{db}-wal"}, group=R, no_model=True))
    S.append(spec("ref-missing-input", "plain", O(dir="{out}", export=["csv"]), missing_input=True, group=R, no_model=True))
    S.append(spec("ref-not-sqlite", "plain", O(dir="{out}", export=["csv"]), input_name="notes.txt", group=R, no_model=True))
    # zero-length inputs: cli() refuses them itself; main() handles them (library-level entry)
    for ev in ("zero", "zero_wal0", "zero_wal", "zero_jn0", "zero_jn"):
        S.append(spec(f"{ev}-cli", ev, O(dir="{out}", export=["csv"]), group=R, no_model=True))
        S.append(spec(f"{ev}-main", ev, O(dir="{out}", export=["csv"], log="{log}", level="error"), entry="main", group=R))
    S.append(spec("zero-main-nj", "zero_wal", O(dir="{out}", export=["csv"], nj=True), entry="main", group=R))
    S.append(spec("zero-main-w", "zero_jn", O(export=["text"], wal="{db}-journal"), entry="main", group=R))
    # several inputs
    S.append(spec("multi", "multi", O(dir="{out}", export=["csv", "text"], tables="t2"), input_name="", group="multi"))
    S.append(spec("multi-case", "multi", O(dir="{out}", export=["case", "sqlite"], tables="t2"), input_name="", group="multi"))
    # several inputs and a file prefix: every input gets its own sub-directory of the output directory
    S.append(spec("multi-pfx", "multi", O(dir="{out}", export=["csv", "sqlite", "text"], tables="t2", prefix="mp"), "env", input_name="", group="multi"))
    # a directory of inputs named relative to the working directory, output directory and log file relative too (no "..":
    # they must land in the working directory, not wherever the scan of the evidence directory left the process)
    S.append(spec("multi-rel", "multi", O(dir="out2", export=["csv", "text"], tables="t2", log="rel.log", level="info"),
                  relative_db=True, input_name="", no_model=True, group="multi",
                  extra_roots=[("OUTPUT", "cwd/out2"), ("LOG", "cwd/rel.log")]))
    # odd table names
    S.append(spec("odd-space-csv", "odd_space", O(dir="{out}", export=["csv", "text", "xlsx"]), group="names"))
    S.append(spec("odd-space-sqlite", "odd_space", O(dir="{out}", export=["sqlite"]), group="names"))
    S.append(spec("odd-slash-csv", "odd_slash", O(dir="{out}", export=["csv"]), group="names"))
    S.append(spec("odd-slash-other", "odd_slash", O(dir="{out}", export=["text", "xlsx"]), group="names"))
    S.append(spec("odd-dots-csv", "odd_dots", O(dir="{out}", export=["csv"], prefix="p"), pre_out="files",
                  pre_files=["placeholder"], extra_files={"out/p-/keep": b"x"}, group="names"))
    S.append(spec("odd-quote", "odd_quote", O(dir="{out}", export=["csv", "text"]), group="names"))
    # damaged inputs
    for ev in ("trunc_db", "short_db", "flip_db", "hdr_flip", "trunc_wal", "junk_wal", "flip_wal"):
        S.append(spec(f"dmg-{ev}", ev, O(dir="{out}", export=["csv", "sqlite"], log="{log}", level="debug"), group="damaged"))
    S.append(spec("dmg-junk_jn", "junk_jn", O(dir="{out}", export=["sqlite"], carve=True), group="damaged"))
    S.append(spec("dmg-flip_db-k", "flip_db", O(dir="{out}", export=["text"], carve=True), group="damaged",
                  extra_argv=["-k"]))
    return S


def thorough_specs(r, n):
    """random points of the full lattice"""
    S = quick_specs()
    evs = ["plain", "wal", "journal", "plain4k", "both", "wal0", "jn0", "flip_db", "trunc_wal", "flip_wal", "odd_space", "odd_slash"]
    for i in range(n):
        ev = r.choice(evs)
        fm = r.sample(["text", "csv", "sqlite", "xlsx", "case"], r.randint(1, 4))
        o = O(dir=r.choice(["{out}", "{out}", "{out}/n", None]), export=r.choice([fm, fm, None]),
              carve=r.random() < 0.35, tables=r.choice([None, None, "t0", "t2,i0", "t1", "zz"]),
              prefix=r.choice([None, None, "p", "p q", "../u", "a/b"]), sig=r.random() < 0.2,
              log=r.choice([None, "{log}"]), level=r.choice([None, "debug", "error"]))
        o["fl"] = o["carve"] and r.random() < 0.4 or r.random() < 0.05
        j = r.random()
        if j < 0.2:
            o["nj"] = True
        elif j < 0.35:
            o["wal"] = "{db}-wal"
        elif j < 0.45:
            o["rj"] = "{db}-journal"
        if r.random() < 0.1:
            o["ex"] = "t2"
            o["tables"] = None
        S.append(spec(f"rnd{i}", ev, o, r.choice(["argv", "env", "config"]), group="random",
                      pre_out=r.choice(["none", "none", "empty"])))
    return S


def to_job(s, pool, table, scratch, post=None, pre=None):
    es = pool.sets[s["ev"]]
    tail, env, cfg = K.render_opts(s["opts"], s["form"])
    if s.get("missing_input"):
        first = "{ev}/does-not-exist.db"
    elif s.get("relative_db"):
        first = "../ev/" + (s["input_name"] if "input_name" in s else es["main"])
    elif "input_name" in s:
        first = "{ev}/" + s["input_name"] if s["input_name"] else "{ev}"
    else:
        first = "{db}"
    env = dict(env)
    env.update(s.get("env") or {})
    job = {"id": s["id"], "scratch": scratch, "evidence": es, "argv": [first] + tail + list(s.get("extra_argv", [])),
           "env": env, "cfg": cfg, "table": table, "entry": s.get("entry", "cli"), "spec": s, "post": post, "pre": pre,
           "keep_events": False}
    for k in ("only", "copy", "remove", "pre_out", "pre_files", "pre_log", "extra_files", "extra_roots"):
        if k in s:
            job[k] = s[k]
    return job


# ---- executed inside the worker -----------------------------------------------------------------
def pre_world(job, sb, m):
    """existence/size of every path main() can ask about, before the run"""
    o = job["spec"]["opts"]
    cand = ["{db}", "{db}-wal", "{db}-journal"]
    for k in ("dir", "wal", "rj"):
        if isinstance(o.get(k), str):
            cand.append(o[k])
    world = []
    for c in cand:
        p = K.subst(c, m)
        ap = os.path.normpath(os.path.join(m["cwd"], p)) if not os.path.isabs(p) else p
        if os.path.exists(ap) and (p, os.path.getsize(ap)) not in world:
            world.append((p, os.path.getsize(ap)))
    return {"world": world}


def post_plan(job, res, sb, m):
    """observed plan per call of main(), parsed exports, and the library's view of the same files"""
    S = K.named_sites(job["table"])
    loc = K.Locator(sb)
    text = res["stderr"]
    if os.path.exists(m["log"]):
        text += open(m["log"], errors="replace").read()
    segs, cur, head = [], None, []
    for e in res["events"]:
        if e.get("k") == "main":
            cur = {"path": e["path"], "multi": e["multi"], "ev": []}
            segs.append(cur)
        elif cur is not None:
            cur["ev"].append(e)
        else:
            head.append(e)
    out = {"segs": [], "head_kind": None}
    for i, sg in enumerate(segs):
        last = i == len(segs) - 1
        obs = K.observe(sg["ev"], res["end"] if last else {"exc": None}, text, S, loc)
        obs["path"], obs["multi"] = sg["path"], sg["multi"]
        out["segs"].append(obs)
    if not segs:
        out["head_kind"] = K.classify_end(res["end"], text)
    # exported files
    exp = {"csv": {}, "sqlite": {}, "sqlite_classes": {}, "text": {}, "xlsx": {}, "errors": []}
    outroot = os.path.join(sb, "out")
    for root, _d, files in os.walk(sb):
        if root.startswith(os.path.join(sb, "ev")) or root.startswith(os.path.join(sb, "tmp")):
            continue
        for f in sorted(files):
            p = os.path.join(root, f)
            rel = os.path.relpath(p, sb)
            try:
                if f.endswith(".csv"):
                    exp["csv"][rel] = K.parse_csv(p)[1]
                elif f.endswith("-sqlite-dissect.db3"):
                    exp["sqlite"][rel] = K.parse_sqlite_export(p)
                    exp["sqlite_classes"][rel] = K.parse_sqlite_classes(p)
                elif f.endswith(".txt") and root != os.path.join(sb, "ev"):
                    exp["text"][rel] = K.parse_text_headers(open(p, encoding="utf-8", errors="replace").read())
                elif f.endswith(".xlsx"):
                    import openpyxl
                    wb = openpyxl.load_workbook(p, read_only=True)
                    exp["xlsx"][rel] = {ws.title: max(0, (ws.max_row or 0)) for ws in wb.worksheets}
                    wb.close()
            except Exception as ex:  # noqa: BLE001
                exp["errors"].append((rel, type(ex).__name__ + ": " + str(ex)[:200]))
    exp["console"] = K.parse_text_headers(res["stdout"])
    out["exports"] = exp
    # the library's view (single input only)
    if len(segs) == 1:
        obs = out["segs"][0]
        o = job["spec"]["opts"]
        strict = "-k" not in job["argv"]
        try:
            out["api"] = K.api_view(obs["path"], obs["wal"][0] if obs["wal"][1] else None,
                                    tables=o["tables"].split(",") if o.get("tables") else None,
                                    carve=bool(o.get("carve")), signatures=bool(o.get("sig")), freelists=bool(o.get("fl")),
                                    strict=strict)
        except Exception as ex:  # noqa: BLE001
            out["api"] = {"error": type(ex).__name__, "msg": str(ex)[:300]}
    return out
