"""(V) validation of the *specification* the theorems quantify over against files written by SQLite.

The cell round-trip theorems (Properties/C01Cell) speak about cells laid out by `Spec.writeTableLeafCell` /
`Spec.writeIndexLeafCell` over `Spec.encodeRecord`.  Here every leaf cell of a real database is read with an
independent little reader of the file format (no sqlite-dissect code), its serial types / contents / rowid /
first overflow page are handed to the Lean specification (`spec.cell`), and the bytes the specification writes
are compared with the bytes SQLite wrote: on the b-tree page and along the overflow chain.  A difference means
the hypotheses of the theorems do not describe SQLite's files (spec-validation link broken)."""
import sqlite3
import struct

from ..leanio import driver


def get_varint(b, o):
    v = 0
    for i in range(9):
        c = b[o + i]
        if i == 8:
            return (v << 8) | c, 9
        v = (v << 7) | (c & 0x7F)
        if not c & 0x80:
            return v, i + 1


def serial_len(st):
    if st <= 4:
        return st
    if st == 5:
        return 6
    if st in (6, 7):
        return 8
    if st in (8, 9):
        return 0
    if st in (10, 11):
        return None
    return (st - 12) // 2


def local_size(u, mx, p):
    if p <= mx:
        return p
    m = (u - 12) * 32 // 255 - 23
    k = m + (p - m) % (u - 4)
    return k if k <= mx else m


def leaf_cells(data, ps, usable, live_leaves, limit_per_page=12):
    """yield (kind, page, on_page_bytes, rowid, cols[(st, content)], first_overflow, overflow_bytes) for leaf cells"""
    for pn in live_leaves:
        base = (pn - 1) * ps
        h = base + (100 if pn == 1 else 0)
        t = data[h]
        if t not in (0x0D, 0x0A):
            continue
        ncells = struct.unpack(">H", data[h + 3:h + 5])[0]
        idxs = list(range(ncells))
        if ncells > limit_per_page:
            idxs = idxs[:limit_per_page // 2] + idxs[-limit_per_page // 2:]
        for i in idxs:
            try:
                co = base + struct.unpack(">H", data[h + 8 + 2 * i:h + 10 + 2 * i])[0]
                o = co
                p, k = get_varint(data, o)
                o += k
                rowid = 0
                if t == 0x0D:
                    rowid, k = get_varint(data, o)
                    o += k
                    if rowid >= 1 << 63:
                        rowid -= 1 << 64
                mx = usable - 35 if t == 0x0D else (usable - 12) * 64 // 255 - 23
                loc = local_size(usable, mx, p)
                payload = bytearray(data[o:o + loc])
                end = o + loc
                first = 0
                ov = b""
                if loc < p:
                    first = struct.unpack(">I", data[end:end + 4])[0]
                    end += 4
                    nxt, rest, seen = first, p - loc, set()
                    chunks = []
                    while nxt and rest > 0 and nxt not in seen:
                        seen.add(nxt)
                        ob = (nxt - 1) * ps
                        take = min(rest, usable - 4)
                        chunks.append(data[ob + 4:ob + 4 + take])
                        rest -= take
                        nxt = struct.unpack(">I", data[ob:ob + 4])[0]
                    ov = b"".join(chunks)
                    payload += ov
                hs, k = get_varint(payload, 0)
                q = k
                sts = []
                while q < hs:
                    st, k = get_varint(payload, q)
                    sts.append(st)
                    q += k
                cols = []
                body = hs
                for st in sts:
                    ln = serial_len(st)
                    if ln is None:
                        raise ValueError("reserved serial type")
                    cols.append((st, bytes(payload[body:body + ln])))
                    body += ln
                if body != p:
                    raise ValueError("record does not fill its payload")
                yield ("table" if t == 0x0D else "index"), pn, bytes(data[co:end]), rowid, cols, first, ov
            except (IndexError, struct.error, ValueError, TypeError) as e:
                yield "unreadable", pn, repr(e), 0, [], 0, b""


def validate_cells(ctx, path, case, max_cells=400):
    data = open(path, "rb").read()
    if len(data) < 100:
        return 0
    ps = struct.unpack(">H", data[16:18])[0]
    ps = 65536 if ps == 1 else ps
    usable = ps - data[20]
    # the live leaf pages are SQLite's own census (dbstat): a freed page keeps its old type byte and cells
    con = sqlite3.connect(f"file:{path}?mode=ro", uri=True)
    try:
        live = [r[0] for r in con.execute("SELECT pageno FROM dbstat WHERE pagetype='leaf' ORDER BY pageno")]
    except sqlite3.DatabaseError:
        return 0
    finally:
        con.close()
    if len(live) > 60:
        live = live[:20] + ctx.rng.sample(live[20:], 40)
    items = []
    for it in leaf_cells(data, ps, usable, live):
        if it[0] == "unreadable":
            ctx.spec_fail("the independent reader cannot read a live leaf cell", dict(case, page=it[1]), it[2], None)
            continue
        items.append(it)
        if len(items) >= max_cells:
            break
    if not items:
        return 0
    lines = []
    for kind, pn, on_page, rowid, cols, first, ov in items:
        cs = ";".join(f"{st}:{c.hex() or '-'}" for st, c in cols) or "."
        lines.append(f"spec.cell {kind} {usable} {rowid} {first} {cs}")
    for (kind, pn, on_page, rowid, cols, first, ov), ans in zip(items, driver.ask(lines)):
        t = ans.split()
        want = f"ok {on_page.hex() or '-'} {ov.hex() or '-'}"
        ctx.branch(f"spec-cell:{kind}:{'overflow' if ov else 'local'}")
        if ans.strip() != want:
            ctx.spec_fail("Spec.write*LeafCell / encodeRecord does not reproduce the cell SQLite wrote",
                          dict(case, page=pn, kind=kind, rowid=rowid), ans[:200], want[:200])
    return len(items)


# ---------------------------------------------------------------------------------------------------------------
# page level: Spec.PageLaidOut (executable form pageLaidOutB, proved equivalent) on the pages SQLite wrote
# ---------------------------------------------------------------------------------------------------------------
KINDS = {0x0D: "tableLeaf", 0x05: "tableInterior", 0x0A: "indexLeaf", 0x02: "indexInterior"}


def read_payload(data, ps, usable, o, p, mx):
    """-> (cols, chain, end offset of the cell) for a payload of p bytes starting at o"""
    loc = local_size(usable, mx, p)
    payload = bytearray(data[o:o + loc])
    end = o + loc
    chain = []
    if loc < p:
        nxt = struct.unpack(">I", data[end:end + 4])[0]
        end += 4
        rest = p - loc
        while nxt and rest > 0 and nxt not in chain:
            chain.append(nxt)
            ob = (nxt - 1) * ps
            take = min(rest, usable - 4)
            payload += data[ob + 4:ob + 4 + take]
            rest -= take
            nxt = struct.unpack(">I", data[ob:ob + 4])[0]
    hs, k = get_varint(payload, 0)
    q = k
    sts = []
    while q < hs:
        st, k = get_varint(payload, q)
        sts.append(st)
        q += k
    cols = []
    body = hs
    for st in sts:
        ln = serial_len(st)
        if ln is None:
            raise ValueError("reserved serial type")
        cols.append((st, bytes(payload[body:body + ln])))
        body += ln
    if body != p:
        raise ValueError("record does not fill its payload")
    return cols, chain, end


def cols_text(cols):
    return "/".join(f"{st}:{c.hex() or '-'}" for st, c in cols) or "."


def page_layout_line(data, ps, usable, pn):
    base = (pn - 1) * ps
    hoff = 100 if pn == 1 else 0
    h = base + hoff
    t = data[h]
    kind = KINDS[t]
    interior = t in (0x05, 0x02)
    first_fb, ncells, cs, frag = struct.unpack(">HHHB", data[h + 1:h + 8])
    cs = cs or 65536
    rm = struct.unpack(">I", data[h + 8:h + 12])[0] if interior else 0
    pa = h + (12 if interior else 8)
    ptrs = [struct.unpack(">H", data[pa + 2 * i:pa + 2 * i + 2])[0] for i in range(ncells)]
    cells = []
    for ptr in ptrs:
        o = base + ptr
        if t == 0x05:
            lc = struct.unpack(">I", data[o:o + 4])[0]
            key, k = get_varint(data, o + 4)
            if key >= 1 << 63:
                key -= 1 << 64
            cells.append(f"TI;{lc};{key}")
            continue
        lc = None
        if t == 0x02:
            lc = struct.unpack(">I", data[o:o + 4])[0]
            o += 4
        p, k = get_varint(data, o)
        o += k
        rowid = None
        if t == 0x0D:
            rowid, k = get_varint(data, o)
            o += k
            if rowid >= 1 << 63:
                rowid -= 1 << 64
        mx = usable - 35 if t == 0x0D else (usable - 12) * 64 // 255 - 23
        cols, chain, end = read_payload(data, ps, usable, o, p, mx)
        ov = ",".join(map(str, chain)) or "-"
        if t == 0x0D:
            cells.append(f"TL;{rowid};{ov};{cols_text(cols)}")
        elif t == 0x0A:
            cells.append(f"IL;{ov};{cols_text(cols)}")
        else:
            cells.append(f"II;{lc};{ov};{cols_text(cols)}")
    fbs = []
    nxt = first_fb
    while nxt and len(fbs) < 20000:
        n2, sz = struct.unpack(">HH", data[base + nxt:base + nxt + 4])
        fbs.append(f"{nxt}:{sz}")
        nxt = n2
    page = data[base:base + ps]
    return (f"spec.page {usable} {hoff} {kind} {cs} {frag} {rm} {','.join(map(str, ptrs)) or '-'} {','.join(fbs) or '-'} "
            f"{'|'.join(cells) or '-'} {page.hex()}"), kind, len(cells), bool(fbs), frag


def validate_pages(ctx, path, case, max_pages=14, max_page_size=8192):
    """Spec.PageLaidOut holds of the b-tree pages SQLite wrote (live pages by dbstat; sampled)"""
    data = open(path, "rb").read()
    if len(data) < 100:
        return 0
    ps = struct.unpack(">H", data[16:18])[0]
    ps = 65536 if ps == 1 else ps
    usable = ps - data[20]
    if usable != ps or ps > max_page_size:
        return 0
    con = sqlite3.connect(f"file:{path}?mode=ro", uri=True)
    try:
        live = [r[0] for r in con.execute("SELECT pageno FROM dbstat WHERE pagetype IN ('leaf','internal') ORDER BY pageno")]
    except sqlite3.DatabaseError:
        return 0
    finally:
        con.close()
    if len(live) > max_pages:
        live = live[:4] + ctx.rng.sample(live[4:], max_pages - 4)
    lines, meta = [], []
    for pn in live:
        try:
            line, kind, ncells, has_fb, frag = page_layout_line(data, ps, usable, pn)
        except (IndexError, struct.error, ValueError, TypeError, KeyError) as e:
            ctx.spec_fail("the independent reader cannot read a live b-tree page", dict(case, page=pn), repr(e), None)
            continue
        lines.append(line)
        meta.append((pn, kind, ncells, has_fb, frag))
    for (pn, kind, ncells, has_fb, frag), ans in zip(meta, driver.ask(lines)):
        ctx.branch(f"spec-page:{kind}" + (":freeblocks" if has_fb else "") + (":fragments" if frag else ""))
        if ans.strip() != "ok true":
            ctx.spec_fail("Spec.PageLaidOut does not hold of a b-tree page SQLite wrote",
                          dict(case, page=pn, kind=kind, cells=ncells), ans[:100], "ok true")
    return len(lines)
