"""C13 — results do not depend on how the parser is configured or invoked."""
import io
import itertools

from sqlite_dissect import interface
from sqlite_dissect.file.database.database import Database

from ..translate import callsites
from ..gen import histories as H, sqlite_factory as F
from ..impl import dump as D
from . import dbcommon as C

ID = "C13"
LEAN_MODULES = ["SqliteDissect.Properties.C13", "SqliteDissect.Properties.C06", "SqliteDissect.Properties.C13Calls", "SqliteDissect.Properties.C13History"]
TRANSLATORS = [callsites]
TRUSTED_EXTRA = [callsites.TRUSTED]
RULE = ("every combination of store_in_memory x strict_format_checking x identifier kind (path / file object) x "
        "explicit file size x entry point (class / interface helper) on factory databases and WAL histories; the "
        "normalised dumps are compared pairwise and with the Lean model under the same configuration, and each "
        "configuration is run twice. non-trivial = distinct (input, configuration) pair with an accepted dump")
ASSUMPTIONS = ["a file object is an ordinary io.BufferedReader over the same bytes; between two library calls the caller may read from / seek in it (never during a call)"]


def variants(path):
    import os
    size = os.path.getsize(path)
    for mem, strict, kind, give_size, entry in itertools.product((False, True), (True, False), ("path", "fileobj", "fileobj_rel"),
                                                                   (False, True), ("class", "interface")):
        if entry == "interface" and (kind != "path" or give_size):
            continue
        if kind == "fileobj_rel" and (give_size or mem != strict):
            continue        # (two of the eight combinations are enough for this identifier kind)
        yield dict(mem=mem, strict=strict, kind=kind, size=size if give_size else None, entry=entry)


def dump_variant(path, v):
    if v["entry"] == "interface":
        try:
            db = interface.create_database(path, v["mem"], v["strict"])
        except Exception as e:  # noqa
            return D.err(e)
        secs = D.base_sections(db)
        try:
            pages = db.pages
            secs.append("census=" + ",".join(f"{n}:{p.page_type}" for n, p in pages.items()))
        except Exception as e:  # noqa
            secs.append("census=" + D.err(e))
            return "ok " + D.SEP.join(secs)
        for r in db.master_schema.master_schema_b_tree_root_page_numbers:
            try:
                secs.append(f"tree{r}=" + D.show_tree(db.get_b_tree_root_page(r), db))
            except Exception as e:  # noqa
                secs.append(f"tree{r}=" + D.err(e))
        return "ok " + D.SEP.join(secs)
    ident = None
    fh = None
    between = None
    if v["kind"] == "fileobj":
        fh = open(path, "rb")
        ident = fh
        state = [0]

        def between():
            # the caller uses its own file object between two library calls (hashing, peeking at the header, …)
            state[0] += 1
            fh.seek([0, 0, 100, 7][state[0] % 4], [2, 0, 0, 0][state[0] % 4])
            if state[0] % 2:
                fh.read(64)
    cwd = None
    if v["kind"] == "fileobj_rel":
        # a file object opened by relative name; afterwards the working directory changes to a directory that holds a
        # different, shorter file of the same name: whatever the library needs it must take from the object, not from
        # the object's name
        import os
        import tempfile
        cwd = os.getcwd()
        decoy_dir = tempfile.mkdtemp(prefix="c13decoy")
        with open(os.path.join(decoy_dir, os.path.basename(path)), "wb") as dfh:
            dfh.write(open(path, "rb").read(100) + b"\x00" * 17)
        os.chdir(os.path.dirname(path))
        fh = open(os.path.basename(path), "rb")
        os.chdir(decoy_dir)
        ident = fh
    try:
        s, db, e = D.dump_db(path, mem=v["mem"], strict=v["strict"], size=v["size"], identifier=ident, between=between)
        return s
    finally:
        if fh:
            fh.close()
        if cwd:
            import shutil
            os.chdir(cwd)
            shutil.rmtree(decoy_dir, ignore_errors=True)


def run(ctx, n_quick=8, n_thorough=60):
    sc = C.Scratch()
    try:
        for b in C.build_databases(ctx, sc, C.n_databases(ctx, n_quick, n_thorough), small=True,
                                   force={"table_boundary": lambda i: i == 1}):      # (every database is parsed ~60 times here)
            base = None
            for v in variants(b.path):
                s1 = dump_variant(b.path, v)
                s2 = dump_variant(b.path, v)
                ctx.mark((b.path, tuple(sorted(v.items(), key=str))), nontrivial=s1.startswith("ok"))
                ctx.branch(f"cfg:{v['entry']}:{v['kind']}:mem{int(v['mem'])}:strict{int(v['strict'])}:size{int(bool(v['size']))}")
                case = {"cfg": b.cfg, "variant": v, "seed": ctx.seed}
                if s1 != s2:
                    ctx.oracle_fail("idempotent", "running twice gives different results", case, s1[:200], s2[:200])
                if base is None:
                    base = (v, s1)
                    # tie to the model once per configuration class below
                elif s1 != base[1]:
                    ctx.oracle_fail("config-dependent", "the result depends on the configuration / entry point", case,
                                    D.first_divergence(s1, base[1]), base[0])
            # model under the four (mem, strict) combinations and an explicit size
            for mem in (False, True):
                for strict in (True, False):
                    C.compare_db_dump(ctx, b.path, "db.dump", mem=mem, strict=strict)
        r = ctx.rng
        # (a restarted log first: state leaking from one parse into the next shows on the logs parsed after it)
        kinds = ["checkpoint_restart", "freelist_drain", "grow_shrink", "restart_after_rollback", None, "spill", None, "ddl", "grow_shrink"]
        for i in range(9 if ctx.thorough() else 5):
            cfg = F.random_cfg(r, page_sizes=[512, 1024, 4096], small=True)
            if kinds[i % len(kinds)] == "grow_shrink":
                cfg.update(auto_vacuum=1 + i % 2, rows=60)      # a commit that leaves the database with fewer pages
            h = H.make_history(sc.path(f"h{i}"), cfg, r, kind=kinds[i % len(kinds)])
            ctx.branch(f"history:{h.kind}")
            routes_agree(ctx, h, cfg)
            outs = []
            for mem in (False, True):
                for strict in (True, False):
                    impl, vh, e = C.compare_history_dump(ctx, h.db, h.wal, "vh.dump", mem=mem, strict=strict)
                    outs.append(((mem, strict), impl))
            for (c, s) in outs[1:]:
                if s != outs[0][1]:
                    ctx.oracle_fail("config-dependent", "version history depends on the configuration",
                                    {"kind": h.kind, "cfg": cfg, "variant": c}, D.first_divergence(s, outs[0][1]), outs[0][0])
    finally:
        sc.close()


def routes_agree(ctx, h, cfg):
    """the convenience helper and the classes it wraps give the same commits: for table t0 of a history, signature and
    freelist carving on, `interface.get_version_history_iterator` against `VersionHistoryParser` built by hand"""
    import warnings
    from sqlite_dissect import interface
    from sqlite_dissect.file.database.database import Database
    from sqlite_dissect.file.wal.wal import WriteAheadLog
    from sqlite_dissect.version_history import VersionHistory, VersionHistoryParser

    def show(it):
        out = []
        for c in it:
            out.append((c.version_number, sorted(c.added_cells), sorted(c.updated_cells), sorted(c.deleted_cells),
                        sorted(c.carved_cells)))
        return out
    res = {}
    for route in ("helper", "classes"):
        def f():
            with warnings.catch_warnings():
                warnings.simplefilter("ignore")
                db = Database(h.db)
                vh = VersionHistory(db, WriteAheadLog(h.wal)) if h.wal else VersionHistory(db)
                sig = interface.create_table_signature("t0", db, vh)
                if route == "helper":
                    return show(interface.get_version_history_iterator("t0", vh, sig, True))
                entry = next(e for e in db.master_schema.master_schema_entries if e.name == "t0")
                return show(VersionHistoryParser(vh, entry, None, None, sig, True))
        try:
            res[route] = f()
        except Exception as e:  # noqa
            res[route] = f"err {type(e).__name__}"
    ctx.evals += 1
    ctx.branch(f"routes:{h.kind}:{'err' if isinstance(res['helper'], str) else 'ok'}")
    if not isinstance(res["helper"], str):
        ctx.nontrivial.add(("routes", h.kind, sum(len(c[4]) for c in res["helper"])))
        ctx.extra["routes_carved_cells"] = ctx.extra.get("routes_carved_cells", 0) + sum(len(c[4]) for c in res["helper"])
    if res["helper"] != res["classes"]:
        n0 = len(ctx.oracle_failures)
        div = next((i for i, (a, b) in enumerate(zip(res["helper"], res["classes"])) if a != b), None) \
            if not isinstance(res["helper"], str) and not isinstance(res["classes"], str) else None
        ctx.oracle_fail("config-dependent", "interface.get_version_history_iterator and VersionHistoryParser report different commits "
                        "(added / updated / deleted / carved digests) for the same history, signature and freelist carving",
                        {"kind": h.kind, "cfg": cfg, "first_differing_commit": div, "seed": ctx.seed},
                        str(res["helper"])[:300], str(res["classes"])[:300])
        C.keep_failing_files(ctx, n0, h.db, h.wal)


def search(ctx, broken):
    run(ctx, 30, 30)


def replay(ctx, data):
    run(ctx, 3, 3)


MATCHERS = {}
