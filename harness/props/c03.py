"""C03 — per-commit added/updated/deleted rows are complete and replay to SQLite's states."""
import os
import sqlite3

from ..gen import histories as H, sqlite_factory as F
from ..impl import dump as D
from ..impl.canon import hx
from ..leanio import driver
from . import dbcommon as C

ID = "C03"
LEAN_MODULES = ["SqliteDissect.Properties.C03Replay", "SqliteDissect.Properties.C03Skip", "SqliteDissect.Properties.C03"]
RULE = ("WAL histories as in C02; for every rowid table (and every index, for the correspondence) the commits of "
        "interface.get_version_history_iterator are compared with the Lean model (vh.iter) and replayed from the "
        "empty table: the state after commit k must equal SQLite's snapshot after that commit; added/deleted rowid "
        "classification and 'unchanged rows are not reported again' are checked on every commit. "
        "non-trivial = distinct (history, table) with at least one commit reporting a change after the first")
ASSUMPTIONS = ["md5 is collision-free on the cell byte strings seen (the model compares the byte strings themselves)",
               "the database file predates the log's frames (passive-checkpoint histories are not used here)"]

KINDS = ["plain", "flipflop", "overflow_inplace", "ddl", "rootmove", "spill", "grow_shrink", "plain", "checkpoint_restart", "header_pragmas", "rootmove", "fresh_wal", "odd_rowids"]


def check_table(ctx, h, name, kind, case):
    impl, commits, vh = D.dump_iter(h.db, h.wal, name)
    enc = {"UTF-8": "utf-8", "UTF-16le": "utf-16-le", "UTF-16be": "utf-16-be"}[h.cfg["encoding"]]
    op = f"vh.iter {h.db} {h.wal or '-'} {hx(name.encode(enc))} {kind} mem=0 strict=1 frames={D.frames_available()}"
    model = driver.ask1(op)
    ctx.evals += 1
    ctx.branch(f"vh.iter:{impl.split(D.SEP)[0][:24] if not impl.startswith('ok') else 'ok'}")
    if "@schema-sql" in impl or "outsideModel" in model:
        ctx.branch("outside-model")
    elif impl != model:
        ctx.disagreements.append({"label": "vh.iter", "op": op, "div": D.first_divergence(impl, model)})
    ctx.sample({"op": op[:160], "impl": impl[:200].replace(D.SEP, " ;; "), "agree": impl == model})
    if commits is None or kind != "table":
        return
    if vh is None or len(vh.versions) != len(h.snapshots):
        return
    state = {}
    changed_later = False
    for c in commits:
        k = c.version_number
        prev = dict(state)
        for cell in c.deleted_cells.values():
            if cell.row_id not in prev:
                ctx.oracle_fail("deleted-unknown", "a row reported deleted was not present before", dict(case, version=k, rowid=cell.row_id), None, None)
            state.pop(cell.row_id, None)
        for cell in c.updated_cells.values():
            if cell.row_id not in prev:
                ctx.oracle_fail("updated-unknown", "a row reported updated was not present before", dict(case, version=k, rowid=cell.row_id), None, None)
            elif prev[cell.row_id].md5_hex_digest == cell.md5_hex_digest:
                ctx.oracle_fail("re-reported", "a row whose stored bytes did not change is reported again", dict(case, version=k, rowid=cell.row_id), None, None)
            state[cell.row_id] = cell
        for cell in c.added_cells.values():
            if cell.row_id in prev:
                ctx.oracle_fail("added-existing", "an existing rowid is reported as added", dict(case, version=k, rowid=cell.row_id), None, None)
            state[cell.row_id] = cell
        if k > commits[0].version_number and c.updated:
            changed_later = True
        snap = h.snapshots[k]["tables"].get(name)
        if snap is None:
            continue
        alias = h.tables.get(name, ([], False))[1]
        rows = snap["rows"]
        ctx.mark(("replay", case.get("tag"), name, k))
        got_ids = sorted(state)
        if got_ids != [r[0] for r in rows]:
            ctx.oracle_fail("replay-rowids", "replaying the reports does not reproduce SQLite's rows after the commit",
                            dict(case, table=name, version=k), got_ids[:20], [r[0] for r in rows][:20])
            continue
        for rid, vals in rows:
            cols = state[rid].payload.record_columns
            for i, col in enumerate(cols):
                if i >= len(vals):
                    break
                ty, hexv, pv = vals[i]
                ok = (col.serial_type == 0 and pv == rid) if (i == 0 and alias) else C.impl_value_matches(col, ty, hexv, pv)
                if not ok:
                    ctx.oracle_fail("replay-value", "a replayed row differs from SQLite's content after the commit "
                                    "(a change was not reported)", dict(case, table=name, version=k, rowid=rid, col=i),
                                    (col.serial_type, repr(col.value)[:60]), (ty, hexv[:60]))
                    break
    if changed_later:
        ctx.nontrivial.add(f"{case.get('tag')}:{name}")


def run(ctx, n_quick=16, n_thorough=240):
    sc = C.Scratch()
    try:
        r = ctx.rng
        n = C.n_databases(ctx, n_quick, n_thorough)
        for i in range(n):
            cfg = F.random_cfg(r, page_sizes=[512, 1024, 4096] if i % 4 else [2048, 8192], small=True)
            cfg["auto_vacuum"] = [0, 1, 2][i % 3]
            kind = KINDS[i % len(KINDS)]
            try:
                h = H.make_history(sc.path(f"h{i}"), cfg, r, kind=kind)
            except sqlite3.Error as e:
                ctx.notes.append(f"history generator error: {e}")
                continue
            ctx.branch(f"history:{kind}")
            case = {"kind": h.kind, "cfg": cfg, "events": h.events, "seed": ctx.seed, "tag": i}
            n0 = len(ctx.oracle_failures)
            # entries of the base version: the iterator only knows those
            try:
                con = sqlite3.connect(f"file:{h.db}?mode=ro&immutable=1", uri=True)
                ents = list(con.execute("SELECT type, name, sql FROM sqlite_master WHERE type IN ('table','index')"))
                con.close()
            except sqlite3.Error:
                ents = []
            for ty, name, sql in ents:
                if name.startswith("sqlite_"):
                    continue
                k = "table" if (ty == "table" and "WITHOUT ROWID" not in (sql or "").upper()) else "index"
                check_table(ctx, h, name, k, case)
            C.keep_failing_files(ctx, n0, h.db, h.wal)
            for f in (h.db, h.wal):
                if f and os.path.exists(f):
                    os.unlink(f)
    finally:
        sc.close()


def search(ctx, broken):
    run(ctx, 100, 100)


def replay(ctx, data):
    run(ctx, 8, 8)


MATCHERS = {}
